"""C20 — Authorization layer gates every request and the allow-list is exact."""
from .engine import AnchorLost, Undecidable
from .lib import *
from .mir import Origins, show, strip_identity, walk, name_matches, term_has_call

AUTH = "anemo_tower::auth"

EXPLANATION = """
RequireAuthorization::call, auth::ResponseFuture::poll and AllowedPeers::authorize are synchronous and
loop-free, so the mechanism is decided completely: every CFG path of call() projected on {authorize,
Ok/Err edge, inner.call, ResponseFuture::future, ResponseFuture::invalid_auth} must be one of two words
(authorize→Ok→inner.call(request) once→future(that call) | authorize→Err(r)→invalid_auth(r)), poll()
returns the inner future's poll unchanged or Ready(Ok(the stored response)), the allow-list decision
table is {no sender ↦ InternalServerError, contains ↦ Ok, else ↦ NotFound} over a set collected from
the whole constructor argument, and the layer hands the service its own authorizer clone.
One layer out: clones keep the same authorizer / list, poll_ready only delegates, PeerId equality/hash are derived.
Generated servers stack a per-method layer on those already installed; the network attaches Connection::peer_id() to every decoded request before dispatch (C01.9 re-evaluated).
"""
TRUSTED = ["std HashSet::contains / FromIterator", "anemo Request::peer_id returns the authenticated sender extension (C01)"]
NOT_DECIDED = ["the logic of user-supplied authorizers"]
ASSUMPTIONS = []


def run(cx):
    prog = cx.prog

    with cx.ob("C20.1", "R-PATHSEQ", "RequireAuthorization::call: inner service invoked once, only on the authorizer's Ok edge; refusal returns the authorizer's response") as ob:
        b = cx.impl_method("anemo_tower::auth::service::RequireAuthorization", "Service", "call")

        def call_sym(c, o):
            if name_matches(c.fn, f"{AUTH}::AuthorizeRequest::authorize"):
                a0 = o.of_operand(c.args[0])
                a1 = strip_identity(o.of_operand(c.args[1]))
                ok = mentions_field(a0, "auth") and mentions_param(a0, "self") and is_param(a1, "request")
                return "authorize(self.auth,request)" if ok else f"authorize(?{show(a0)},{show(a1)})"
            if name_matches(c.fn, "tower_service::Service::call"):
                a0 = o.of_operand(c.args[0])
                a1 = strip_identity(o.of_operand(c.args[1]))
                ok = mentions_field(a0, "inner") and mentions_param(a0, "self") and is_param(a1, "request")
                return "inner.call(request)" if ok else f"call(?{show(a0)},{show(a1)})"
            if name_matches(c.fn, f"{AUTH}::future::ResponseFuture::future"):
                t = strip_identity(o.of_operand(c.args[0]))
                ok = t[0] == "call" and name_matches(t[1], "tower_service::Service::call") and c.dest == 0
                return "ret=future(inner.call)" if ok else f"future(?{show(t)})"
            if name_matches(c.fn, f"{AUTH}::future::ResponseFuture::invalid_auth"):
                t = strip_identity(o.of_operand(c.args[0]))
                ok = t[0] == "field" and t[1][0] == "variant" and t[1][2] == "Err" and term_has_call(t[1][1], "AuthorizeRequest::authorize") and c.dest == 0
                return "ret=invalid_auth(err)" if ok else f"invalid_auth(?{show(t)})"
            if is_tracing(c):
                return None
            return "call:" + (c.fn or "?")

        def edge_sym(a, bb, subj, labels, o):
            if subj[0] == "discr" and term_has_call(subj[1], "AuthorizeRequest::authorize"):
                return "[" + "|".join(sorted(labels)) + "]"
            return "?cond(" + show(subj)[:60] + ")"

        def stmt_sym(bbi, s, o):
            if s["lhs"] == 0:
                return "ret=?" + show(o.of_rvalue(s["rv"]))[:60]
            return None

        ws = words_of(b, call_sym, edge_sym, stmt_sym)
        check_words(ob, b, ws, {
            "authorize(self.auth,request) [Ok] inner.call(request) ret=future(inner.call) <return>",
            "authorize(self.auth,request) [Err] ret=invalid_auth(err) <return>"}, "RequireAuthorization::call")

    with cx.ob("C20.2", "R-PATHSEQ", "auth::ResponseFuture::poll: inner future's result unchanged, or Ready(Ok(stored response))") as ob:
        b = cx.impl_method("anemo_tower::auth::future::ResponseFuture", "Future", "poll")
        # the private two-state enum: whatever its variants are called, one holds the inner future and one the stored refusal
        kind = cx.adt(f"{AUTH}::future::Kind")
        role = {}
        for v in kind["variants"]:
            tys = " ".join(f["ty"] for f in v["fields"])
            role[v["name"]] = "Error" if "anemo::types::response::Response<" in tys else "Future"
        ob.require(sorted(role.values()) == ["Error", "Future"], "Kind/two-states", f"auth::future::Kind variants: {role}", kind["path"])
        fut_names = tuple(n for n, r in role.items() if r == "Future")
        fut_fields = tuple(f["name"] for v in kind["variants"] if role[v["name"]] == "Future" for f in v["fields"])
        err_fields = tuple(f["name"] for v in kind["variants"] if role[v["name"]] == "Error" for f in v["fields"])

        def call_sym(c, o):
            if name_matches(c.fn, "future::Future::poll"):
                t = o.of_operand(c.args[0])
                ok = any(x[0] == "variant" and x[2] in fut_names for x in walk(t)) and any(mentions_field(t, f_) for f_ in fut_fields) and c.dest == 0 \
                    and is_param(o.of_operand(c.args[1]), "cx")
                return "ret=inner.poll(cx)" if ok else f"poll(?{show(t)})"
            if name_matches(c.fn, "Option::take") or (name_matches(c.fn, "core::mem::take") and c.ga and str(c.ga[0]).startswith("core::option::Option<")):
                # (`std::mem::take(&mut opt)` on an Option is `opt.take()`)
                t = o.of_operand(c.args[0])
                return "take(response)" if any(mentions_field(t, f_) for f_ in err_fields) else "take(?)"
            if c.fn.endswith("::project") or name_matches(c.fn, ("Option::unwrap", "Option::expect")):
                return None
            return "call:" + c.fn

        def edge_sym(a, bb, subj, labels, o):
            if subj[0] == "discr" and any(x[0] == "call" and x[1].endswith("::project") for x in walk(subj)):
                return "[" + "|".join(sorted(role.get(l_, l_) for l_ in labels)) + "]"
            return "?cond"

        def stmt_sym(bbi, s, o):
            if s["lhs"] == 0:
                t = o.of_rvalue(s["rv"])
                ok = t[0] == "agg" and t[2].endswith("Poll::Ready") and t[3][0][0] == "agg" and t[3][0][2].endswith("Result::Ok") \
                    and (term_has_call(t[3][0][3][0], "Option::take") or term_has_call(t[3][0][3][0], "core::mem::take"))
                return "ret=Ready(Ok(taken))" if ok else "ret=?" + show(t)[:60]
            return None

        ws = words_of(b, call_sym, edge_sym, stmt_sym)
        check_words(ob, b, ws, {"[Future] ret=inner.poll(cx) <return>", "[Error] take(response) ret=Ready(Ok(taken)) <return>"}, "auth::ResponseFuture::poll")
        # constructors store exactly their argument
        inv = {r: n for n, r in role.items()}
        for ctor, variant, field in (("future", inv.get("Future", "Future"), "future"), ("invalid_auth", inv.get("Error", "Error"), "response")):
            cb = cx.body(f"{AUTH}::future::ResponseFuture::{ctor}")
            t = Origins(cb).of_local(0)
            inner = [x for x in walk(t) if x[0] == "agg" and x[2].endswith(f"Kind::{variant}")]
            ok = bool(inner) and any(x[0] == "param" for x in walk(inner[0])) if inner else False
            ob.require(ok, f"ResponseFuture::{ctor}/stores-arg", f"ResponseFuture::{ctor} builds {show(t)}", cb.path)

    with cx.ob("C20.3", "R-TABLE", "AllowedPeers::authorize: absent sender ↦ InternalServerError, listed ↦ Ok, unlisted ↦ NotFound") as ob:
        b = cx.impl_method("anemo_tower::auth::AllowedPeers", "AuthorizeRequest", "authorize")
        closures = {c.path: c for c in prog.children(b)}

        def status_of(t):
            s = strip_identity(t)
            if s[0] == "call" and name_matches(s[1], "IntoResponse::into_response"):
                a = strip_identity(s[2][0])
                if a[0] == "agg" and "StatusCode::" in a[2]:
                    return a[2].split("::")[-1]
            return None

        def call_sym(c, o):
            if name_matches(c.fn, "anemo::types::request::Request::peer_id"):
                return "peer_id(request)" if is_param(o.of_operand(c.args[0]), "request") else "peer_id(?)"
            if name_matches(c.fn, "Option::ok_or_else"):
                t = o.of_operand(c.args[1])
                st = None
                if t[0] == "agg" and t[1] == "closure" and t[2] in closures:
                    cb = closures[t[2]]
                    st = status_of(Origins(cb).of_local(0))
                return f"ok_or_else({st})"
            if name_matches(c.fn, "HashSet::contains"):
                a0 = o.of_operand(c.args[0])
                a1 = o.of_operand(c.args[1])
                ok = mentions_field(a0, "allowed_peers") and mentions_param(a0, "self") and term_has_call(a1, "Request::peer_id")
                return "contains(self.allowed_peers,sender)" if ok else f"contains(?{show(a0)},{show(a1)})"
            if name_matches(c.fn, "FromResidual::from_residual") and c.dest == 0:
                return "ret=propagate"
            if name_matches(c.fn, ("Try::branch", "IntoResponse::into_response")):
                return None
            return "call:" + c.fn

        def edge_sym(a, bb, subj, labels, o):
            if subj[0] == "discr" and term_has_call(subj[1], "Try::branch"):
                return "?" + "|".join(sorted(labels))
            if subj[0] == "discr":
                r = strip_identity(subj[1])
                if r[0] == "call" and name_matches(r[1], "anemo::types::request::Request::peer_id") and is_param(r[2][0], "request"):
                    return "sender=" + "|".join(sorted(labels))
            s = strip_identity(subj)
            neg = False
            while s[0] == "unop" and s[1] == "Not":
                neg = not neg
                s = strip_identity(s[2])
            if s[0] == "call" and name_matches(s[1], "HashSet::contains") and labels in ({"true"}, {"false"}):
                val = (labels == {"true"}) != neg
                return "contains=" + ("true" if val else "false")
            return "?cond"

        def stmt_sym(bbi, s, o):
            if s["lhs"] == 0:
                t = o.of_rvalue(s["rv"])
                if t[0] == "agg" and t[2].endswith("Result::Ok"):
                    return "ret=Ok"
                if t[0] == "agg" and t[2].endswith("Result::Err"):
                    return f"ret=Err({status_of(t[3][0])})"
                return "ret=?"
            return None

        ws = words_of(b, call_sym, edge_sym, stmt_sym)
        # `peer_id().ok_or_else(|| ISE)?` and `match peer_id() { Some(p) => p, None => return Err(ISE) }` are one table row
        def canon(w_):
            w_ = w_.replace("ok_or_else(InternalServerError) ?Break ret=propagate", "sender=None ret=Err(InternalServerError)")
            return w_.replace("ok_or_else(InternalServerError) ?Continue", "sender=Some")
        ws = {tuple(canon(fmt_word(w)).split(" ")) for w in ws}
        check_words(ob, b, ws, {
            "peer_id(request) sender=None ret=Err(InternalServerError) <return>",
            "peer_id(request) sender=Some contains(self.allowed_peers,sender) contains=true ret=Ok <return>",
            "peer_id(request) sender=Some contains(self.allowed_peers,sender) contains=false ret=Err(NotFound) <return>",
        }, "AllowedPeers::authorize")
        # the set is the whole iterator; nobody else writes it
        nb = cx.body(f"{AUTH}::AllowedPeers::new")
        t = Origins(nb).of_local(0)
        f0 = strip_identity(t[3][0]) if t[0] == "agg" and t[3] else ("u",)
        # `peers.into_iter().collect()` or `HashSet::from_iter(peers)`: the whole argument, nothing filtered or truncated
        ok = f0[0] == "call" and name_matches(f0[1], ("Iterator::collect", "iter::traits::collect::FromIterator::from_iter")) and is_param(strip_identity(f0[2][0], ("IntoIterator::into_iter",)), "peers")
        ob.require(ok, "AllowedPeers::new/collect-all", f"AllowedPeers::new builds {show(t)}", nb.path)
        check_field_writers(ob, prog, f"{AUTH}::AllowedPeers", "allowed_peers", [], kinds=("mutref", "write"))
        a = cx.adt(f"{AUTH}::AllowedPeers")
        f = a["variants"][0]["fields"]
        ob.require(len(f) == 1 and f[0]["ty"].startswith("std::collections::hash::set::HashSet<anemo::types::peer_id::PeerId"), "AllowedPeers/shape",
                   f"AllowedPeers fields {[x['ty'] for x in f]}", a["path"])
        # Request::peer_id reads the PeerId extension
        pb = cx.body("anemo::types::request::Request::peer_id")
        gets = [c for c in pb.calls() if name_matches(c.fn, "Extensions::get")]
        ob.require(len(gets) == 1 and gets[0].ga == ["anemo::types::peer_id::PeerId"], "Request::peer_id/extension",
                   f"Request::peer_id does not read Extensions::get::<PeerId> ({[c.fn for c in pb.calls()]})", pb.path)

    with cx.ob("C20.4", "R-FLOW", "RequireAuthorizationLayer::layer builds the service from the given inner service and a clone of its own authorizer") as ob:
        b = cx.impl_method("anemo_tower::auth::layer::RequireAuthorizationLayer", "Layer", "layer")
        t = Origins(b).of_local(0)
        ts_ = strip_identity(t)
        via_new = ts_[0] == "call" and name_matches(ts_[1], f"{AUTH}::service::RequireAuthorization::new") and len(ts_[2]) == 2
        ok = via_new or (t[0] == "agg" and t[2].endswith("RequireAuthorization::RequireAuthorization") and set(t[4]) == {"inner", "auth"})
        ob.require(ok, "layer/agg", f"layer() returns {show(t)}", b.path)
        if ok:
            # (through the public constructor, whose body is checked just below, or by the struct literal)
            inner = ts_[2][0] if via_new else t[3][t[4].index("inner")]
            auth = ts_[2][1] if via_new else t[3][t[4].index("auth")]
            ob.require(is_param(inner, "inner"), "layer/inner", f"layer(): inner = {show(inner)}", b.path)
            ob.require(mentions_field(auth, "auth") and mentions_param(auth, "self"), "layer/auth", f"layer(): auth = {show(auth)}", b.path)
        nb = cx.body(f"{AUTH}::service::RequireAuthorization::new")
        t = Origins(nb).of_local(0)
        ok = t[0] == "agg" and is_param(t[3][t[4].index("inner")], "inner") and is_param(t[3][t[4].index("auth")], "auth")
        ob.require(ok, "new/agg", f"RequireAuthorization::new returns {show(t)}", nb.path)
        # the only writers of .auth / .inner are constructors (and derived Clone)
        check_field_writers(ob, prog, f"{AUTH}::service::RequireAuthorization", "auth", [], kinds=("mutref", "write"))

    with cx.ob("C20.5", "R-SHAPE", "one layer out: cloning the layer / service / allow-list keeps the same authorizer and list (field-by-field Clone) and poll_ready is the inner service's readiness only") as ob:
        for ty in ("anemo_tower::auth::service::RequireAuthorization", "anemo_tower::auth::layer::RequireAuthorizationLayer", "anemo_tower::auth::AllowedPeers"):
            check_fieldwise_clone(ob, prog, ty)
        check_poll_ready_delegates(ob, prog, "anemo_tower::auth::service::RequireAuthorization")
        check_peer_id_identity_derived(ob, prog)
        check_generated_layer_stacking(ob, prog)          # (a per-method layer installed on a generated server stays installed)

    with cx.ob("C20.6", "R-MUSTPASS", "one layer out: the sender the authorizer looks up is there and authentic for every request that arrives over a connection - the network attaches Connection::peer_id() to the decoded request before it dispatches it (C01.9 re-evaluated)") as ob:
        from . import c01
        sub = cx.__class__("C20", prog, cx.tier, cx.config, cx.tree, repo=cx.repo)
        c01.run(sub)
        w = [x for x in sub.obs if x.oid == "C01.9"]
        ob.count(sum(x.evals for x in w))
        bad = [v for x in w for v in x.violations if "/inbound/" in v.key or "accessor" in v.key]
        ob.require(len(w) == 1 and not bad, "sender/attached-before-dispatch", "requests can reach the authorization layer without (or with another than) the authenticated sender: " + "; ".join(str(v.msg) for v in bad)[:300],
                   "anemo::network::request_handler::BiStreamRequestHandler::do_handle")

