"""Normalisation of the extracted program towards the shape of the pinned tree.

The rules were written against the functions the pinned tree has.  A refactoring that moves code into a *new*
helper function (sync `fn`/method, or `async fn` that is awaited directly) does not change behaviour, but it moves
anchored events out of the bodies the rules look at.  This pass undoes exactly that: every function whose def path
does not exist on the pinned tree (rules/pinned_names.json, "bodies") is inlined into its callers at the level of
the MIR facts - classic inlining with fresh locals and blocks - so that who-may-call rules attribute its calls to the
caller, path-word rules see its events in place, and value-origin terms flow through its parameters.

  * sync:  `dest = F(args) -> target`   becomes   `p_i = args_i; goto F.entry'`, `return` -> `dest = move ret; goto target`
  * async: the `.await` of `F(args)` (poll call resolving to F's coroutine) becomes the coroutine body itself; its
           captured arguments are bound where the future was created, its `return` builds `Poll::Ready(ret)` for the
           await's result and the (now infeasible) Pending edge of the await loop is removed; its own yields stay yields.

Nothing is inlined that exists on the pinned tree, so on the unchanged tree the pass is the identity.  A new function
that cannot be inlined (recursive, called through a pointer, arity mismatch) is left alone and the rules see a call to
an unknown function, as before (fail closed).
"""
import copy
import json
import os

from .mir import strip_generics

MAX_DEPTH = 4
# pinned functions that are pure forwarders: always inlined, so that the rules are written once against the inlined
# shape and keep working when a refactoring folds the forwarder into its caller
ALWAYS_INLINE = ("anemo::network::connection_manager::ConnectionManager::handle_connect_request",
                 "anemo::network::connection_manager::ActivePeersInner::contains",      # = self.connections.contains_key(id)
                 "anemo::network::connection_manager::ActivePeersInner::len",           # = self.connections.len()
                 "anemo::network::connection_manager::ActivePeers::len",                # = self.inner().len()  (read guard + the above)
                 "anemo::network::connection_manager::ConnectionManager::handle_incoming",   # = pending_connections.spawn(handle_incoming_task(..))
                 "anemo::routing::RouteMatcher::at")                                     # = self.inner.at(path)
WORKSPACE = ("anemo", "anemo_tower", "anemo_build", "anemo_cli", "examples")


def pinned_bodies():
    try:
        with open(os.path.join(os.path.dirname(os.path.abspath(__file__)), "pinned_names.json")) as fh:
            j = json.load(fh)
        return set(j.get("bodies") or [])
    except OSError:
        return set()


# ---------------------------------------------------------------------------------------------------------------
# remapping helpers


def _map_place(pl, lm):
    if isinstance(pl, int):
        return lm(pl, [])
    base = pl["l"]
    proj = []
    for e in pl["p"]:
        if isinstance(e, dict) and "i" in e:
            e = dict(e)
            r = lm(e["i"], [])
            e["i"] = r if isinstance(r, int) else r["l"]
        proj.append(e)
    return lm(base, proj)


def _mk_local_mapper(off, special=None):
    """special: {local: function(proj) -> place} for locals with a dedicated mapping"""
    special = special or {}

    def lm(l, proj):
        if l in special:
            return special[l](proj)
        n = l + off
        if not proj:
            return n
        return {"l": n, "p": proj}
    return lm


def _map_operand(op, lm):
    if not isinstance(op, dict):
        return op
    if op.get("k") in ("copy", "move"):
        o = dict(op)
        o["pl"] = _map_place(op["pl"], lm)
        return o
    return op


def _map_rvalue(rv, lm):
    rv = dict(rv)
    k = rv["k"]
    if k in ("use", "repeat", "cast"):
        rv["op"] = _map_operand(rv["op"], lm)
    elif k in ("ref", "rawptr", "discr"):
        rv["pl"] = _map_place(rv["pl"], lm)
    elif k == "binop":
        rv["a"] = _map_operand(rv["a"], lm)
        rv["b"] = _map_operand(rv["b"], lm)
    elif k == "unop":
        rv["a"] = _map_operand(rv["a"], lm)
    elif k == "agg":
        rv["ops"] = [_map_operand(x, lm) for x in rv["ops"]]
    return rv


def _map_stmt(s, lm):
    s = dict(s)
    k = s["k"]
    if k == "assign":
        s["lhs"] = _map_place(s["lhs"], lm)
        s["rv"] = _map_rvalue(s["rv"], lm)
    elif k == "setdiscr":
        s["lhs"] = _map_place(s["lhs"], lm)
    elif k == "dead":
        r = lm(s["l"], [])
        s["l"] = r if isinstance(r, int) else r["l"]
    return s


def _map_term(t, lm, bm):
    t = dict(t)
    k = t["k"]
    for key in ("target", "unwind", "otherwise", "imaginary", "drop"):
        if key in t and isinstance(t[key], int):
            t[key] = bm(t[key])
    if k == "switch":
        t["discr"] = _map_operand(t["discr"], lm)
        t["arms"] = [[v, bm(b)] for v, b in t["arms"]]
    elif k in ("call", "tailcall"):
        t["func"] = _map_operand(t["func"], lm)
        t["args"] = [_map_operand(a, lm) for a in t["args"]]
        if "dest" in t:
            t["dest"] = _map_place(t["dest"], lm)
    elif k == "drop":
        t["pl"] = _map_place(t["pl"], lm)
    elif k == "yield":
        t["value"] = _map_operand(t["value"], lm)
        t["resume_arg"] = _map_place(t["resume_arg"], lm)
    elif k == "assert":
        t["cond"] = _map_operand(t["cond"], lm)
        if isinstance(t.get("msg"), str):
            # the message text names locals too (`BoundsCheck { len: .., index: copy _7 }`)
            import re

            def _ml(m):
                r = lm(int(m.group(2)), [])
                n = r if isinstance(r, int) else (r.get("l") if isinstance(r, dict) and not r.get("p") else None)
                return m.group(0) if n is None else f"{m.group(1)} _{n}"
            t["msg"] = re.sub(r"\b(copy|move) _(\d+)\b", _ml, t["msg"])
    return t


def _reset(body):
    body._calls = None
    body._succ = None
    body._pred = None
    body._dom = None
    body._defs = None
    body._reach_cache = {}


def _call_target(prog, t):
    """resolved local callee path of a call terminator, or None"""
    f = t.get("func") or {}
    for key in ("res", "fn"):
        n = f.get(key)
        if n:
            n = strip_generics(n)
            if n in prog.bodies:
                return n
    # `x.into()` goes through core's blanket `impl<T, U: From<T>> Into<U> for T`: it is a call of the workspace's own
    # `impl From<T> for U` (matched on the argument and result types)
    if strip_generics(f.get("fn") or "") == "core::convert::Into::into" and len(f.get("ga") or []) == 2:
        a_, b_ = f["ga"]
        cands = [q for q, B in prog.bodies.items() if B.crate in WORKSPACE and B.kind != "Closure" and q.split("::")[-1].startswith("from") and B.argc == 1
                 and (q.endswith("::from")) and B.local_ty(1) == a_ and B.local_ty(0) == b_]
        if len(cands) == 1:
            return cands[0]
    return None


# ---------------------------------------------------------------------------------------------------------------
# generic parameters of an inlined helper are bound from the argument types at the call site

import re

_TYKEYS = ("ga", "inst", "self_ty", "ty", "ety", "from", "to", "fty", "adt_inst")


def _generic_names(raw_path):
    names = []
    for grp in re.findall(r"<([^<>]*)>", raw_path or ""):
        for tok in grp.split(","):
            tok = tok.strip()
            if re.fullmatch(r"[A-Z][A-Za-z0-9_]*", tok):
                names.append(tok)
    return names


def _operand_ty(B, op):
    if isinstance(op, dict) and op.get("k") in ("copy", "move"):
        pl = op["pl"]
        if isinstance(pl, int):
            return B.locals[pl]["ty"]
        if not pl["p"]:
            return B.locals[pl["l"]]["ty"]
    if isinstance(op, dict) and op.get("k") == "const":
        return op.get("ty")
    return None


def _unify_generics(B, args, F):
    names = _generic_names(F.raw_path)
    # def paths are printed without their generic parameter lists: a bare capitalised identifier (no `::` around it) in
    # a parameter type is a type parameter
    for i in range(F.argc):
        for m in re.finditer(r"(?<![A-Za-z0-9_:])([A-Z][A-Za-z0-9_]*)(?![A-Za-z0-9_]|::)", F.locals[i + 1]["ty"]):
            if m.group(1) not in names and m.group(1) != "Self":
                names.append(m.group(1))
    if not names:
        return {}
    out = {}
    for i, a in enumerate(args):
        aty = _operand_ty(B, a)
        fty = F.locals[i + 1]["ty"]
        if not aty:
            continue
        pat = re.escape(fty)
        used = set()
        for n in names:
            def rep(m, n=n):
                if n in used:
                    return "(?P=%s)" % n
                used.add(n)
                return "(?P<%s>.+)" % n
            pat = re.sub(r"(?<![A-Za-z0-9_:])%s(?![A-Za-z0-9_])" % re.escape(n), rep, pat)
        m = re.fullmatch(pat, aty)
        if m:
            for n, v in m.groupdict().items():
                out.setdefault(n, v)
    return out


def _subst_generics(obj, mapping):
    if not mapping:
        return obj

    def sub(s):
        for n, v in mapping.items():
            s = re.sub(r"(?<![A-Za-z0-9_:])%s(?![A-Za-z0-9_])" % re.escape(n), v.replace("\\", "\\\\"), s)
        return s
    if isinstance(obj, dict):
        return {k: (([sub(x) if isinstance(x, str) else x for x in v] if isinstance(v, list) and k == "ga" else sub(v) if isinstance(v, str) and k in _TYKEYS else _subst_generics(v, mapping))) for k, v in obj.items()}
    if isinstance(obj, list):
        return [_subst_generics(x, mapping) for x in obj]
    return obj


# ---------------------------------------------------------------------------------------------------------------
# sync inlining


def _inline_sync(B, bb, F):
    t = B.blocks[bb]["t"]
    if len(t["args"]) != F.argc or t.get("dest") is None:
        return False
    off_l = len(B.locals)
    off_b = len(B.blocks)
    if not hasattr(B, "orig_nblocks"):
        B.orig_nblocks = off_b
    gmap = _unify_generics(B, t["args"], F)
    for l in F.locals:
        nl = _subst_generics(dict(l), gmap)
        nl["inl"] = F.path
        B.locals.append(nl)
    lm = _mk_local_mapper(off_l)

    def bm(x):
        return x + off_b
    cont = off_b + len(F.blocks)
    cleanup_caller = bool(B.blocks[bb].get("cleanup"))
    for fb in F.blocks:
        nb = {"s": [_subst_generics(_map_stmt(s, lm), gmap) for s in fb["s"]]}
        ft = fb["t"]
        if ft["k"] == "return":
            nt = {"k": "goto", "target": cont, "line": ft.get("line")}
        else:
            nt = _subst_generics(_map_term(ft, lm, bm), gmap)
        nb["t"] = nt
        if fb.get("cleanup") or cleanup_caller:
            nb["cleanup"] = True
        B.blocks.append(nb)
    # continuation: dest = move ret; goto target
    cs = [{"k": "assign", "lhs": t["dest"], "rv": {"k": "use", "op": {"k": "move", "pl": off_l}}, "line": t.get("line")}]
    if t.get("target") is not None:
        ct = {"k": "goto", "target": t["target"], "line": t.get("line")}
    else:
        ct = {"k": "unreachable", "line": t.get("line")}
    cb = {"s": cs, "t": ct}
    if cleanup_caller:
        cb["cleanup"] = True
    B.blocks.append(cb)
    # parameter binding + jump
    for i, a in enumerate(t["args"]):
        B.blocks[bb]["s"].append({"k": "assign", "lhs": off_l + 1 + i, "rv": {"k": "use", "op": a}, "line": t.get("line")})
    B.blocks[bb]["t"] = {"k": "goto", "target": off_b, "line": t.get("line"), "inlined": F.path}
    if t.get("exp"):
        B.blocks[bb]["t"]["exp"] = t["exp"]
    return True


# ---------------------------------------------------------------------------------------------------------------
# async inlining (at the await of a directly awaited new async fn)


def _find_creation(B, prog, F_path, poll_bb):
    """the block whose terminator is the call `F(args)` creating the future polled at poll_bb (unique call site of F
    in B that reaches poll_bb), or None"""
    cands = [i for i, bl in enumerate(B.blocks) if bl["t"]["k"] == "call" and not bl.get("cleanup") and _call_target(prog, bl["t"]) == F_path]
    if len(cands) == 1:
        return cands[0]
    # several awaits of the same helper: pick the closest dominating one in block order before the poll
    best = None
    for c in cands:
        if poll_bb in B.reachable_from(c):
            if best is None or (c in B.reachable_from(best)):
                best = c
    return best


def _inline_async(B, prog, poll_bb, F, G):
    """G = coroutine body of async fn F, polled at poll_bb of B"""
    t = B.blocks[poll_bb]["t"]
    cbb = _find_creation(B, prog, F.path, poll_bb)
    if cbb is None:
        return False
    ct = B.blocks[cbb]["t"]
    if len(ct["args"]) != F.argc:
        return False
    # the switch on the poll result that follows
    sw = None
    cur = t.get("target")
    for _ in range(6):
        if cur is None:
            break
        tt = B.blocks[cur]["t"]
        if tt["k"] == "switch":
            sw = cur
            break
        if tt["k"] in ("goto", "falseedge", "falseunwind"):
            cur = tt["target"]
            continue
        break
    if sw is None:
        return False
    ready_val = None
    for s in B.blocks[sw]["s"]:
        if s["k"] == "assign" and s["rv"]["k"] == "discr" and s["rv"].get("variants"):
            for nm, v in s["rv"]["variants"]:
                if nm == "Ready":
                    ready_val = v
    if ready_val is None:
        return False
    ready_tgt = None
    for v, b in B.blocks[sw]["t"]["arms"]:
        if v == ready_val:
            ready_tgt = b
    if ready_tgt is None:
        ready_tgt = B.blocks[sw]["t"]["otherwise"]

    off_l = len(B.locals)
    off_b = len(B.blocks)
    if not hasattr(B, "orig_nblocks"):
        B.orig_nblocks = off_b
    for l in G.locals:
        nl = dict(l)
        nl["inl"] = G.path
        B.locals.append(nl)
    # captured arguments: one fresh local per parameter of F, bound where the future is created
    cap = {}
    names = [F.locals[i + 1].get("name_actual") or F.locals[i + 1].get("name") for i in range(F.argc)]
    base_u = len(B.locals)
    for i in range(F.argc):
        B.locals.append({"ty": F.locals[i + 1]["ty"], "name": F.locals[i + 1].get("name"), "inl": G.path})
    up_by_field = {}
    for u in G.upvars:
        pl = u["place"]
        if isinstance(pl, dict) and pl["l"] == 1:
            fld = [e["f"] for e in pl["p"] if isinstance(e, dict) and "f" in e]
            if fld:
                nm = u.get("name_actual") or u.get("name")
                if nm in names:
                    up_by_field[fld[0]] = names.index(nm)
    for i in range(F.argc):
        up_by_field.setdefault(i, i)

    def self_place(proj):
        rest = list(proj)
        while rest and rest[0] == "*":
            rest.pop(0)
        if rest and isinstance(rest[0], dict) and "f" in rest[0] and rest[0]["f"] in up_by_field:
            idx = up_by_field[rest.pop(0)["f"]]
            n = base_u + idx
            return n if not rest else {"l": n, "p": rest}
        n = off_l + 1
        return n if not proj else {"l": n, "p": proj}

    def ctx_place(proj):
        n = 2 if (B.coroutine and B.argc >= 2) else off_l + 2
        return n if not proj else {"l": n, "p": proj}
    lm = _mk_local_mapper(off_l, {1: self_place, 2: ctx_place})

    def bm(x):
        return x + off_b
    cont = off_b + len(G.blocks)
    for gb in G.blocks:
        nb = {"s": [_map_stmt(s, lm) for s in gb["s"]]}
        gt = gb["t"]
        if gt["k"] == "return":
            nt = {"k": "goto", "target": cont, "line": gt.get("line")}
        else:
            nt = _map_term(gt, lm, bm)
        nb["t"] = nt
        if gb.get("cleanup"):
            nb["cleanup"] = True
        B.blocks.append(nb)
    # continuation: poll result = Poll::Ready(move ret); continue after the (now decided) await loop
    B.blocks.append({"s": [{"k": "assign", "lhs": t["dest"], "line": t.get("line"),
                            "rv": {"k": "agg", "ak": "adt", "adt": "core::task::poll::Poll", "adt_inst": "core::task::poll::Poll", "variant": "Ready",
                                   "fields": ["0"], "ops": [{"k": "move", "pl": off_l}]}}],
                     "t": {"k": "goto", "target": t["target"], "line": t.get("line")}})
    B.blocks[sw]["t"] = {"k": "goto", "target": ready_tgt, "line": B.blocks[sw]["t"].get("line"), "exp": B.blocks[sw]["t"].get("exp")}
    for i, a in enumerate(ct["args"]):
        op = dict(a)
        if op.get("k") == "move":
            op["k"] = "copy"
        B.blocks[cbb]["s"].append({"k": "assign", "lhs": base_u + i, "rv": {"k": "use", "op": op}, "line": ct.get("line")})
    # the call that only built the future is gone with it (the future's body now runs in place of its await)
    if ct.get("target") is not None:
        B.blocks[cbb]["t"] = {"k": "goto", "target": ct["target"], "line": ct.get("line"), "inlined_creation": F.path}
    B.blocks[poll_bb]["t"] = {"k": "goto", "target": off_b, "line": t.get("line"), "exp": t.get("exp"), "inlined": G.path}
    return True


# ---------------------------------------------------------------------------------------------------------------


def _pinned_sigs():
    try:
        with open(os.path.join(os.path.dirname(os.path.abspath(__file__)), "pinned_names.json")) as fh:
            return json.load(fh).get("sigs") or {}
    except OSError:
        return {}


def _nt(t_):
    return re.sub(r"@[^}>]*?:\d+:\d+: \d+:\d+", "@", t_)


def _rename_fn(prog, old, new):
    """present function `old` (and its closures) under the pinned name `new` everywhere"""
    def fix(n_):
        if n_ is None:
            return n_
        sg = strip_generics(n_)
        if sg == old:
            return new
        if sg.startswith(old + "::{"):
            return new + sg[len(old):]
        return n_
    for key in [k for k in list(prog.bodies) if k == old or k.startswith(old + "::{")]:
        b = prog.bodies.pop(key)
        b.path = fix(b.path)
        b.raw_path = fix(b.raw_path)
        b.j["path"] = b.path
        prog.bodies[b.path] = b
        try:
            # parameters / captures of the re-identified function are presented under their pinned names too
            from .mir import _canonical_names
            for pth in {b.raw_path, b.path}:
                _canonical_names(b, dict(b.j, path=pth))
        except Exception:
            pass
    for b in prog.bodies.values():
        b.parent = fix(b.parent)
        for bl in b.blocks:
            t = bl["t"]
            if t["k"] in ("call", "tailcall"):
                f = t.get("func") or {}
                for k in ("fn", "res", "inst"):
                    if f.get(k):
                        f[k] = fix(f[k])
                if t.get("closure_body"):
                    t["closure_body"] = fix(t["closure_body"])
                for a in t.get("args", []):
                    if isinstance(a, dict) and a.get("k") == "const" and a.get("fn"):
                        a["fn"] = fix(a["fn"])
            for s_ in bl["s"]:
                if s_["k"] == "assign":
                    rv = s_["rv"]
                    if rv["k"] == "agg" and rv.get("body"):
                        rv["body"] = fix(rv["body"])
                    for op in _rv_ops(rv):
                        if isinstance(op, dict) and op.get("k") == "const" and op.get("fn"):
                            op["fn"] = fix(op["fn"])
        _reset(b)
    prog._callers = None


def _undo_renames(prog, pinned, report):
    """A pinned function that is gone while exactly one new function with the same signature appeared next to it (same
    module / impl) was renamed: keep calling it by its pinned name."""
    sigs = _pinned_sigs()
    missing = [p for p in sigs if p not in prog.bodies and p not in ALWAYS_INLINE]
    if not missing:
        return
    new = [q for q, b in prog.bodies.items() if b.crate in WORKSPACE and q not in pinned and b.kind in ("Fn", "AssocFn")]
    claimed = set()
    for p in missing:
        pre = p.rsplit("::", 1)[0]
        want = [_nt(x) for x in sigs[p]["tys"]]
        c = [q for q in new if q.rsplit("::", 1)[0] == pre and q not in claimed
             and [_nt(l["ty"]) for l in prog.bodies[q].locals[:prog.bodies[q].argc + 1]] == want]
        others = [m for m in missing if m != p and m.rsplit("::", 1)[0] == pre and [_nt(x) for x in sigs[m]["tys"]] == want]
        if len(c) == 1 and not others:
            claimed.add(c[0])
            _rename_fn(prog, c[0], p)
            report.setdefault("renamed", []).append([c[0], p])


def normalize(prog, pinned=None):
    """Inline every function that does not exist on the pinned tree into its callers. Returns a report dict."""
    pinned = pinned_bodies() if pinned is None else pinned
    report = {"new_functions": [], "inlined_sites": 0, "not_inlined": []}
    if not pinned:
        return report
    _undo_renames(prog, pinned, report)
    new_sync, new_async = {}, {}
    for p, b in prog.bodies.items():
        if b.crate not in WORKSPACE or (p in pinned and p not in ALWAYS_INLINE) or "#" in p.split("::")[-1]:
            continue
        if b.kind in ("Fn", "AssocFn") and not b.coroutine:
            kids = [k for k in prog.children(b) if k.coroutine]
            # `async fn`: the fn body only builds the coroutine
            is_async = len(kids) == 1 and any(s["k"] == "assign" and s["rv"]["k"] == "agg" and s["rv"].get("ak") == "coroutine" and s["lhs"] == 0
                                              for bl in b.blocks for s in bl["s"])
            if is_async:
                new_async[p] = (b, kids[0])
            else:
                new_sync[p] = b
    report["new_functions"] = sorted(x for x in list(new_sync) + list(new_async) if x not in ALWAYS_INLINE)
    if not new_sync and not new_async:
        return report
    for b in prog.bodies.values():
        if not hasattr(b, "inlined"):
            b.inlined = []

    def process(B, depth, stack):
        changed = True
        rounds = 0
        while changed and rounds < 64:
            changed = False
            rounds += 1
            for bb in range(len(B.blocks)):
                t = B.blocks[bb]["t"]
                if t["k"] != "call":
                    continue
                tgt = _call_target(prog, t)
                if tgt is None:
                    continue
                if tgt in new_sync and tgt != B.path and tgt not in stack and depth < MAX_DEPTH:
                    F = new_sync[tgt]
                    process(F, depth + 1, stack | {B.path})
                    if _inline_sync(B, bb, F):
                        B.inlined.append(F.path)
                        B.inlined.extend(getattr(F, "inlined", []))
                        report["inlined_sites"] += 1
                        _reset(B)
                        changed = True
                        break
                    report["not_inlined"].append((B.path, tgt))
                    continue
                # await of a new async fn: poll call resolving to its coroutine
                f = t.get("func") or {}
                res = strip_generics(f.get("res")) if f.get("res") else None
                if res and "await" in (t.get("exp") or ""):
                    for fp, (F, G) in new_async.items():
                        if res == G.path and fp not in stack and G.path != B.path and depth < MAX_DEPTH:
                            process(G, depth + 1, stack | {B.path})
                            if _inline_async(B, prog, bb, F, G):
                                B.inlined.append(F.path)
                                B.inlined.append(G.path)
                                B.inlined.extend(getattr(G, "inlined", []))
                                report["inlined_sites"] += 1
                                _reset(B)
                                changed = True
                            else:
                                report["not_inlined"].append((B.path, fp))
                            break
                    if changed:
                        break

    for p, B in list(prog.bodies.items()):
        if B.crate in WORKSPACE:
            process(B, 0, frozenset())
            if getattr(B, "inlined", None):
                if _devirtualize(B):
                    _reset(B)
                # `helper(|x| body)` / `helper(Type::method)`: once the helper is inlined, its `f(arg)` is an application of a
                # closure (or function item) the caller wrote - apply it, so that the calls inside are seen where they happen
                guard_ = 0
                while guard_ < 8 and _apply_fn_values(B, prog, pinned):
                    guard_ += 1
                    _reset(B)
                    process(B, 0, frozenset())
                    if _devirtualize(B):
                        _reset(B)
                if _forward_returns(B):
                    _reset(B)
    prog._callers = None
    # a new function all of whose uses were inlined no longer exists as far as the rules are concerned; its closures
    # now belong to the bodies it was inlined into
    prog.inlined_into = getattr(prog, "inlined_into", {})
    for B in prog.bodies.values():
        for f in getattr(B, "inlined", []):
            prog.inlined_into.setdefault(f, [])
            if B.path not in prog.inlined_into[f]:
                prog.inlined_into[f].append(B.path)
    gone = []
    for fp in list(new_sync) + list(new_async):
        names = [fp] + ([new_async[fp][1].path] if fp in new_async else [])
        used = False
        for q, B in prog.bodies.items():
            if q in names:
                continue
            for bl in B.blocks:
                t = bl["t"]
                if t["k"] == "call" and _call_target(prog, t) in names:
                    used = True
                for op in list(t.get("args", [])) + [o_ for s_ in bl["s"] if s_["k"] == "assign" for o_ in _rv_ops(s_["rv"])]:
                    if isinstance(op, dict) and op.get("k") == "const" and op.get("fn") and strip_generics(op["fn"]) in names:
                        used = True
            if used:
                break
        if not used and fp in prog.inlined_into:
            gone.extend(names)
    for n in gone:
        b = prog.bodies.pop(n, None)
        if b is not None and b in prog.by_crate.get(b.crate, []):
            prog.by_crate[b.crate].remove(b)
    report["removed_bodies"] = gone
    prog._callers = None
    return report


def _count_reads(obj, y, top=True):
    """Occurrences of local `y` as (part of) a read place / operand / index in a statement or terminator (definitions of the
    bare local - `lhs` / call `dest` equal to y - and storage markers are not reads)."""
    n = 0
    if isinstance(obj, dict):
        if top and obj.get("k") in ("dead", "live"):
            return 0
        for k_, v_ in obj.items():
            if k_ in ("lhs", "dest") and top:
                if isinstance(v_, dict) and v_.get("l") == y:
                    n += 1                      # a write through a projection of y keeps y alive as an object
                    n += _count_reads(v_.get("p", []), y, False)
                elif isinstance(v_, dict):
                    n += _count_reads(v_, y, False)
                continue
            if k_ in ("pl", "l", "i") and v_ == y and isinstance(v_, int):
                n += 1
            elif isinstance(v_, (dict, list)):
                n += _count_reads(v_, y, False)
    elif isinstance(obj, list):
        for v_ in obj:
            if isinstance(v_, (dict, list)):
                n += _count_reads(v_, y, False)
    return n


def _forward_returns(B):
    """A temporary that is only ever moved into the return slot *is* the return slot: `_t = Ok(x); ..; _0 = move _t` becomes
    `_0 = Ok(x)`.  The inliner produces exactly this for a helper called in tail position (its return value lands in a
    temporary of the caller first), and rules recognise result constructions by their assignment to the return slot."""
    argc = getattr(B, "argc", 0) or 0
    changed = False
    for _ in range(16):
        hit = None
        for bi, bl in enumerate(B.blocks):
            if bl.get("cleanup"):
                continue
            for si, st in enumerate(bl["s"]):
                if st["k"] == "assign" and st["lhs"] == 0 and st["rv"]["k"] == "use" and st["rv"]["op"].get("k") == "move" \
                        and isinstance(st["rv"]["op"].get("pl"), int) and st["rv"]["op"]["pl"] > argc:
                    hit = (bi, si, st["rv"]["op"]["pl"])
                    break
            if hit:
                break
        if not hit:
            break
        bi, si, y = hit
        reads = 0
        for bl in B.blocks:
            for st in bl["s"]:
                reads += _count_reads(st, y)
            reads += _count_reads(bl["t"], y)
        ndefs = sum(1 for bl in B.blocks for st in bl["s"] if st["k"] == "assign" and st["lhs"] == y) + \
            sum(1 for bl in B.blocks if bl["t"]["k"] == "call" and bl["t"].get("dest") == y)
        if reads != 1 or ndefs == 0:
            # leave it; mark so that the scan does not find it again
            B.blocks[bi]["s"][si] = dict(B.blocks[bi]["s"][si], rv=dict(B.blocks[bi]["s"][si]["rv"], op=dict(B.blocks[bi]["s"][si]["rv"]["op"], k="copy", was_move=True)))
            continue
        for bl in B.blocks:
            for st in bl["s"]:
                if st["k"] == "assign" and st["lhs"] == y:
                    st["lhs"] = 0
            if bl["t"]["k"] == "call" and bl["t"].get("dest") == y:
                bl["t"]["dest"] = 0
        del B.blocks[bi]["s"][si]
        changed = True
    # restore the operands that were only marked
    for bl in B.blocks:
        for st in bl["s"]:
            if st["k"] == "assign" and st["rv"]["k"] == "use" and st["rv"]["op"].get("was_move"):
                st["rv"]["op"]["k"] = "move"
                del st["rv"]["op"]["was_move"]
    return changed


def _single_def_chain(B, l, defs):
    """Follow moves/copies/refs of bare locals from local `l` to the rvalue that defines the value (None if ambiguous)."""
    for _ in range(10):
        ds = defs.get(l, [])
        if len(ds) != 1 or ds[0] is None:
            return None
        rv = ds[0]
        if rv["k"] == "use" and rv["op"].get("k") in ("move", "copy") and isinstance(rv["op"].get("pl"), int):
            l = rv["op"]["pl"]
            continue
        if rv["k"] == "ref" and isinstance(rv.get("pl"), int):
            l = rv["pl"]
            continue
        if rv["k"] == "use" and rv["op"].get("k") == "const":
            return rv["op"]
        return rv
    return None


def _apply_fn_values(B, prog, pinned):
    """One application per call: rewrite the first `FnOnce::call_once(f, (a, b, ..))` (or call_mut / call) whose `f` is - by a
    single-definition chain inside B - a function item (→ direct call `f(a, b, ..)`) or a closure written in the new code
    (→ its body inlined with the captured environment as first argument).  Returns True if something changed."""
    defs = {}
    for bl in B.blocks:
        for s_ in bl["s"]:
            if s_["k"] == "assign" and isinstance(s_["lhs"], int):
                defs.setdefault(s_["lhs"], []).append(s_["rv"])
        t = bl["t"]
        if t["k"] == "call" and t.get("dest") is not None:
            d = t["dest"]
            d = d if isinstance(d, int) else (d.get("l") if isinstance(d, dict) and not d.get("p") else None)
            if d is not None:
                defs.setdefault(d, []).append(None)
    for bb, bl in enumerate(B.blocks):
        t = bl["t"]
        if t["k"] != "call" or bl.get("cleanup"):
            continue
        f = t.get("func") or {}
        fn = strip_generics(f.get("fn")) if f.get("fn") else ""
        if not fn.endswith(("ops::function::FnOnce::call_once", "ops::function::FnMut::call_mut", "ops::function::Fn::call")) or len(t.get("args", [])) != 2:
            continue
        a0, a1 = t["args"]
        if a0.get("k") not in ("move", "copy") or not isinstance(a0.get("pl"), int) or a1.get("k") not in ("move", "copy") or not isinstance(a1.get("pl"), int):
            continue
        tup = _single_def_chain(B, a1["pl"], defs)
        if not (isinstance(tup, dict) and tup.get("k") == "agg" and tup.get("ak") == "tuple"):
            continue
        callee = _single_def_chain(B, a0["pl"], defs)
        if not isinstance(callee, dict):
            continue
        if callee.get("k") == "const" and callee.get("fn"):
            t["func"] = {k_: v_ for k_, v_ in callee.items() if k_ in ("k", "fn", "inst", "ga", "res", "trait", "self_ty", "local", "res_local", "ty")}
            t["args"] = list(tup["ops"])
            return True
        if callee.get("k") == "agg" and callee.get("ak") == "closure":
            path = strip_generics(callee.get("body"))
            F = prog.bodies.get(path)
            if F is None or path in pinned or getattr(F, "coroutine", False):
                continue
            if F.argc != 1 + len(tup["ops"]):
                continue
            saved = t["args"]
            t["args"] = [a0] + list(tup["ops"])
            if _inline_sync(B, bb, F):
                B.inlined.append(F.path)
                return True
            t["args"] = saved
    return False


def _devirtualize(B):
    """After inlining a helper that takes a function as a *value* (`fn helper(f: fn(..) -> R, ..) { f(..) }`) the call through
    the parameter is a call of the function item the caller passed: if the callee local has exactly one definition chain
    (moves / reify-fn-pointer casts) ending in a function-item constant, make the call direct."""
    defs = {}
    for bl in B.blocks:
        for s_ in bl["s"]:
            if s_["k"] == "assign" and isinstance(s_["lhs"], int):
                defs.setdefault(s_["lhs"], []).append(s_["rv"])
        t = bl["t"]
        if t["k"] == "call" and t.get("dest") is not None:
            d = t["dest"]
            d = d if isinstance(d, int) else (d.get("l") if isinstance(d, dict) and not d.get("p") else None)
            if d is not None:
                defs.setdefault(d, []).append(None)
    changed = False
    for bl in B.blocks:
        t = bl["t"]
        if t["k"] != "call":
            continue
        f = t.get("func") or {}
        if f.get("k") not in ("move", "copy") or not isinstance(f.get("pl"), int):
            continue
        l, hops = f["pl"], 0
        target = None
        while hops < 8:
            hops += 1
            ds = defs.get(l, [])
            if len(ds) != 1 or ds[0] is None:
                break
            rv = ds[0]
            op = rv.get("op") if rv["k"] == "use" or (rv["k"] == "cast" and "ReifyFnPointer" in str(rv.get("ck"))) else None
            if op is None:
                break
            if op.get("k") == "const" and op.get("fn"):
                target = op
                break
            if op.get("k") in ("move", "copy") and isinstance(op.get("pl"), int):
                l = op["pl"]
                continue
            break
        if target is not None:
            t["func"] = {k_: v_ for k_, v_ in target.items() if k_ in ("k", "fn", "inst", "ga", "res", "trait", "self_ty", "local", "res_local", "ty")}
            changed = True
    return changed


def _rv_ops(rv):
    k = rv["k"]
    if k in ("use", "cast", "repeat"):
        return [rv["op"]]
    if k == "binop":
        return [rv["a"], rv["b"]]
    if k == "unop":
        return [rv["a"]]
    if k == "agg":
        return rv["ops"]
    return []
