"""C11 — Request deadline = min(local default, timeout header), end to end."""
from .engine import AnchorLost, Undecidable
from .lib import *
from .mir import Origins, show, strip_identity, walk, name_matches, term_has_call, place_local, op_place

TO = "anemo::middleware::timeout"

EXPLANATION = """
The deadline selection in both timeout services is a loop-free decision over two Option
discriminants. The check extracts the table (header, default) ↦ effective timeout from every CFG
path of inbound::Timeout::call and outbound::Timeout::call and requires
(None,None)↦None, (Some r,None)↦Some r, (None,Some d)↦Some d, (Some r,Some d)↦Some(min(r,d)) — `min`
as cmp::min/Ord::min or an equivalent comparison, evaluated on the three cases r<d, r=d, r>d — with
the sleep built from exactly that value and the inner service called once with the unmodified
request; both directions must yield the same table (sibling agreement). It decides that an
unparsable header counts as absent (the parse error reaches call() only through unwrap_or_else whose
closure returns None), that the header key is "timeout" parsed as u64 nanoseconds, that both
ResponseFuture::poll poll the inner future first and produce RequestTimeout / TimeoutExpired only on
the sleep's Ready edge, and — by value-origin and resolved generic arguments — that Builder::start
installs inbound::TimeoutLayer(config.inbound_request_timeout()) as the outermost inbound layer and
outbound::TimeoutLayer(config.outbound_request_timeout()) in both branches of the user-layer choice,
that the layer reaches every Peer and that Peer::call applies it on every call with do_rpc only
reachable through it.
Every user of try_parse_timeout absorbs its error (an unparsable header is 'absent', never a failed request); Config accessors are pure projections of their own field.
Outbound streams are opened by do_rpc only, i.e. under the layer stack and hence under the deadline.
No synchronous lock guard (std / parking_lot / DashMap) is alive at a suspension point of the library's async code (a blocked executor thread polls no timer).
"""
TRUSTED = ["tokio::time::sleep fires no earlier than its duration", "tower ServiceBuilder/Stack layer order (first added = outermost)",
           "str::parse::<u64> rejects non-numeric and overflowing input"]
NOT_DECIDED = ["wall-clock accuracy of the cut-off", "the instant the handler future is dropped", "Durations beyond tokio's timer range"]
ASSUMPTIONS = []


def select_table(ob, b, kind):
    """Words of Timeout::call projected on header/default tests, the effective-timeout assignment,
    inner.call and the sleep construction."""
    o = Origins(b)
    # the local holding the effective timeout: arg0 of Option::map(_, tokio::time::sleep)
    maps = [c for c in b.calls_to("Option::map") if len(c.args) == 2 and o.of_operand(c.args[1])[0] == "fnptr"
            and name_matches(o.of_operand(c.args[1])[1], "tokio::time::sleep::sleep")]
    if not maps and not b.calls_to("tokio::time::sleep::sleep"):
        ob.refute_and_stop(f"{kind}/timer-armed-at-dispatch", f"{kind} Timeout::call does not create the deadline timer (tokio::time::sleep of the effective timeout): the deadline must "
                           "count from the moment the request is dispatched, not from some later poll", b.path)
    ob.floor(maps, 1, f"Option::map(_, tokio::time::sleep) in {kind} Timeout::call", exact=True)
    pl = op_place(maps[0].args[0])
    L = place_local(pl)
    guard = 0
    while guard < 8:
        ds = [d for d in b.defs().get(L, []) if d[0] != "partial"]
        if len(ds) == 1 and ds[0][0] == "assign" and ds[0][3]["k"] == "use" and op_place(ds[0][3]["op"]) is not None \
                and isinstance(op_place(ds[0][3]["op"]), int):
            L = op_place(ds[0][3]["op"])
            guard += 1
            continue
        break

    def multi(l):
        return len([d for d in b.defs().get(l, []) if d[0] != "partial"]) >= 2

    def chase(op_):
        """follow single-def copies from an operand to a multi-def local (a carrier) or None"""
        p = op_place(op_)
        g = 0
        while p is not None and isinstance(p, int) and g < 8:
            if multi(p):
                return p
            ds_ = [d for d in b.defs().get(p, []) if d[0] != "partial"]
            if len(ds_) == 1 and ds_[0][0] == "assign" and ds_[0][3]["k"] == "use":
                p = op_place(ds_[0][3]["op"])
                g += 1
                continue
            return None
        return None

    carriers = set()
    work = [L]
    while work:
        c_ = work.pop()
        for d in b.defs().get(c_, []):
            if d[0] != "assign":
                continue
            rv_ = d[3]
            ops_ = [rv_["op"]] if rv_["k"] == "use" else (rv_["ops"] if rv_["k"] == "agg" and rv_.get("variant") == "Some" else [])
            for op_ in ops_:
                x_ = chase(op_)
                if x_ is not None and x_ != L and x_ not in carriers:
                    carriers.add(x_)
                    work.append(x_)

    def who(t):
        """req / def: which of the two inputs a payload term denotes"""
        s = strip_identity(t)
        # `(a.zip(b) as Some).0.i`: the i-th of the two zipped options' payloads
        if s[0] == "field" and s[2] in ("0", "1"):
            z = strip_identity(s[1])
            if z[0] == "field" and z[2] == "0" and z[1][0] == "variant" and z[1][2] == "Some":
                zz = strip_identity(z[1][1])
                if zz[0] == "call" and name_matches(zz[1], "core::option::Option::zip") and len(zz[2]) == 2:
                    return who_field(zz[2][int(s[2])])
        def ok_payload(u_):
            u_ = strip_identity(u_)
            return u_[0] == "field" and u_[2] == "0" and u_[1][0] == "variant" and u_[1][2] == "Ok" and strip_identity(u_[1][1])[0] == "call" \
                and name_matches(strip_identity(u_[1][1])[1], f"{TO}::try_parse_timeout")
        p_ = s
        while p_[0] in ("field", "variant"):
            if ok_payload(p_):
                return "req"          # the Ok payload of the parse = the header's Option<Duration> (on the path where parsing succeeded)
            p_ = strip_identity(p_[1])
        while s[0] in ("field", "variant"):
            s = strip_identity(s[1])
        if s[0] == "call" and name_matches(s[1], ("Result::unwrap_or_else", "Result::unwrap_or", "Result::ok", "Result::unwrap_or_default")) \
                and term_has_call(s, f"{TO}::try_parse_timeout"):
            return "req"
        if s[0] == "phi":
            # `match try_parse_timeout(h) { Ok(v) => v, Err(e) => { trace!(..); None } }`: unwrap_or_else(|_| None) written out
            alts_ = [strip_identity(a_) for a_ in s[1]]
            okp = [a_ for a_ in alts_ if a_[0] == "field" and a_[2] == "0" and a_[1][0] == "variant" and a_[1][2] == "Ok" and term_has_call(a_[1][1], f"{TO}::try_parse_timeout")]
            non = [a_ for a_ in alts_ if a_[0] == "agg" and str(a_[2]).endswith("Option::None")]
            if len(okp) == 1 and len(okp) + len(non) == len(alts_) and non:
                return "req"
        if term_has_call(s, f"{TO}::try_parse_timeout"):
            return "req?"
        if s[0] == "param" and s[2] == "self":
            return "def"
        return "?" + show(s)[:30]

    def zip_part(t):
        """`(a.zip(b) as Some).0.i`: the i-th zipped option (its payload)"""
        s = strip_identity(t)
        if s[0] == "field" and s[2] in ("0", "1"):
            z = strip_identity(s[1])
            if z[0] == "field" and z[2] == "0" and z[1][0] == "variant" and z[1][2] == "Some":
                zz = strip_identity(z[1][1])
                if zz[0] == "call" and name_matches(zz[1], "core::option::Option::zip") and len(zz[2]) == 2:
                    return zz[2][int(s[2])]
        return None

    def who_field(t):
        s = strip_identity(t)
        zp = zip_part(s)
        if zp is not None:
            return who_field(zp)
        if mentions_field(s, "default_timeout") and mentions_param(s, "self"):
            return "def"
        return who(t)

    def map_or_kind(t):
        """`a.map_or(b, |x| min(b, x))` with {a, b} = {header, default}: "map_or(a,b)" = min when a is present, else b"""
        from . import lib as _l
        t = strip_identity(t)
        if not (t[0] == "call" and name_matches(t[1], "core::option::Option::map_or") and len(t[2]) == 3):
            return None
        w0, w1 = who_field(t[2][0]), who_field(t[2][1])
        ct = strip_identity(t[2][2])
        if {w0, w1} != {"req", "def"} or not (ct[0] == "agg" and ct[1] == "closure" and ct[2] in _l._PROG.bodies):
            return None
        kb = _l._PROG.bodies[ct[2]]
        r = strip_identity(Origins(kb).of_local(0))
        if not (r[0] == "call" and name_matches(r[1], ("cmp::min", "cmp::Ord::min")) and len(r[2]) == 2):
            return None
        xs = [strip_identity(x) for x in r[2]]
        pars = [x for x in xs if x[0] == "param"]
        ups = [x for x in xs if x[0] != "param"]
        if len(pars) != 1 or len(ups) != 1 or not any(y[0] == "upvar" for y in walk(ups[0])):
            return None
        # the captured operand is the same value that is used when `a` is absent
        cap = [strip_identity(x) for x in ct[3]]
        if len(cap) != 1 or who_field(cap[0]) != w1:
            return None
        return f"map_or({w0},{w1})"

    def call_sym(c, oo):
        if name_matches(c.fn, "core::option::Option::map_or") and map_or_kind(("call", c.fn, tuple(oo.of_operand(a) for a in c.args), c.bb)) is not None:
            k_ = map_or_kind(("call", c.fn, tuple(oo.of_operand(a) for a in c.args), c.bb))
            return ("v=" + k_) if (isinstance(c.dest, int) and c.dest in carriers) else None
        if name_matches(c.fn, f"{TO}::try_parse_timeout"):
            t = strip_identity(oo.of_operand(c.args[0]))
            ok = t[0] == "call" and name_matches(t[1], "Request::headers") and is_param(t[2][0], "req")
            return "parse(req.headers)" if ok else f"parse(?{show(t)})"
        if name_matches(c.fn, "tower_service::Service::call"):
            a0 = oo.of_operand(c.args[0])
            a1 = strip_identity(oo.of_operand(c.args[1]))
            ok = mentions_field(a0, "inner") and mentions_param(a0, "self") and is_param(a1, "req")
            return "inner.call(req)" if ok else f"call(?{show(a1)})"
        if c is maps[0] or (c.bb == maps[0].bb):
            return "sleep=map(td)"
        if name_matches(c.fn, ("tokio::time::sleep::sleep", "tokio::time::sleep::sleep_until", "tokio::time::timeout::timeout")):
            return "sleep?"
        if name_matches(c.fn, "core::option::Option::or") and len(c.args) == 2:
            ws_ = (who_field(oo.of_operand(c.args[0])), who_field(oo.of_operand(c.args[1])))
            if set(ws_) == {"req", "def"}:
                return f"td=or({ws_[0]},{ws_[1]})" if c.dest == L else f"o=or({ws_[0]},{ws_[1]})"
            return "call:or(?)"
        if isinstance(c.dest, int) and c.dest in carriers:
            if name_matches(c.fn, ("cmp::min", "cmp::Ord::min")) and {who_field(oo.of_operand(c.args[0])), who_field(oo.of_operand(c.args[1]))} == {"req", "def"}:
                return "v=min(req,def)"
            return "v=?" + (c.fn or "?").split("::")[-1]
        if name_matches(c.fn, ("cmp::min", "cmp::Ord::min", "cmp::max", "cmp::Ord::max")) or is_tracing(c):
            return None
        if name_matches(c.fn, "core::option::Option::zip") and len(c.args) == 2 and {who_field(oo.of_operand(c.args[0])), who_field(oo.of_operand(c.args[1]))} == {"req", "def"}:
            return None
        if name_matches(c.fn, ("Result::unwrap_or_else", "Request::headers", "cmp::PartialOrd::lt", "cmp::PartialOrd::le", "cmp::PartialOrd::gt",
                               "cmp::PartialOrd::ge", "cmp::PartialEq::eq", "cmp::PartialEq::ne", "clone::Clone::clone")):
            return None
        return "call:" + (c.fn or "?").split("::")[-1]

    def edge_sym(a, bb, subj, labels, oo):
        lab = "|".join(sorted(labels))
        if subj[0] == "discr":
            z = strip_identity(subj[1])
            if z[0] == "call" and name_matches(z[1], "core::option::Option::zip") and len(z[2]) == 2 and {who_field(z[2][0]), who_field(z[2][1])} == {"req", "def"}:
                # `match header.zip(default)`: Some = both present, None = not both
                return ["req=Some", "def=Some"] if labels == {"Some"} else ("zip=None" if labels == {"None"} else f"?discr(zip)={lab}")
            w = who_field(subj[1])
            if w not in ("req", "def") and b.term(a)["k"] == "switch":
                # on this path the tested Option is a constant (`Err(e) => None`): whose Option it is shows in the join of all paths
                t0 = o.of_operand(b.term(a)["discr"])
                if t0[0] == "discr":
                    w = who_field(t0[1])
            if w in ("req", "def"):
                return f"{w}={lab}"
            return f"?discr({show(subj[1])[:50]})={lab}"
        n = normalize_cmp(subj)
        if n is not None:
            neg, op, x, y = n
            wx, wy = who_field(x), who_field(y)
            if {wx, wy} == {"req", "def"} and labels in ({"true"}, {"false"}):
                val = (labels == {"true"}) != neg
                return f"cmp:{op}({wx},{wy})={str(val).lower()}"
        return f"?cond({show(subj)[:50]})={lab}"

    def stmt_sym(bbi, s, oo):
        lhs = s["lhs"]
        if isinstance(lhs, int) and lhs in carriers:
            t = strip_identity(oo.of_rvalue(s["rv"]))
            if t[0] == "call" and name_matches(t[1], ("cmp::min", "cmp::Ord::min")) and {who_field(t[2][0]), who_field(t[2][1])} == {"req", "def"}:
                return "v=min(req,def)"
            return f"v={who_field(t)}"
        if lhs == L:
            rv = s["rv"]
            if rv["k"] == "agg" and rv.get("adt") == "core::option::Option":
                if rv["variant"] == "None":
                    return "td=None"
                if chase(rv["ops"][0]) in carriers:
                    return "td=Some(v)"
                t = strip_identity(oo.of_operand(rv["ops"][0]))
                if t[0] == "call" and name_matches(t[1], ("cmp::min", "cmp::Ord::min")):
                    ws_ = {who_field(t[2][0]), who_field(t[2][1])}
                    return "td=Some(min(req,def))" if ws_ == {"req", "def"} else f"td=Some(min?{sorted(ws_)})"
                if t[0] == "call" and name_matches(t[1], ("cmp::max", "cmp::Ord::max")):
                    return "td=Some(max)"
                if map_or_kind(t) is not None:
                    return f"td=Some({map_or_kind(t)})"
                return f"td=Some({who_field(t)})"
            t = oo.of_rvalue(rv)
            ts_ = strip_identity(t)
            if ts_[0] == "call" and name_matches(ts_[1], "core::option::Option::or") and len(ts_[2]) == 2:
                ws_ = (who_field(ts_[2][0]), who_field(ts_[2][1]))
                if set(ws_) == {"req", "def"}:
                    return f"td=or({ws_[0]},{ws_[1]})"
            w = who_field(t)
            if w in ("req", "def") and rv["k"] == "use":
                return f"td={w}"          # the whole Option copied
            return "td=?" + show(t)[:40]
        if lhs == 0:
            t = oo.of_rvalue(s["rv"])
            if t[0] == "agg" and t[2].endswith("ResponseFuture::ResponseFuture"):
                f = dict(zip(t[4], t[3]))
                ok = "inner" in f and "sleep" in f and strip_identity(f["inner"])[0] == "call" and name_matches(strip_identity(f["inner"])[1], "Service::call") \
                    and strip_identity(f["sleep"])[0] == "call" and name_matches(strip_identity(f["sleep"])[1], "Option::map")
                return "ret=ResponseFuture{inner.call,sleep}" if ok else "ret=?" + show(t)[:60]
            return "ret=?" + show(t)[:60]
        return None

    ws = words_of(b, call_sym, edge_sym, stmt_sym, keep_end=False)
    table = {}
    for w in ws:
        ob.count()
        conds = {}
        td = None
        not_both = False
        lastv = "?"
        cmps = []
        rest = []
        for s in w:
            if s.startswith("req=") or s.startswith("def="):
                conds[s[:3]] = s[4:]
            elif s.startswith("v="):
                lastv = s[2:]
            elif s.startswith("td="):
                td = s[3:]
                if td == "Some(v)":
                    td = f"Some({lastv})"
            elif s.startswith("cmp:"):
                cmps.append(s)
            elif s.startswith("o=or("):
                pass                # the Option produced by `a.or(b)`; named when it is stored into the timeout (td=or(..))
            elif s == "zip=None":
                not_both = True
            elif s.startswith("[") and s.endswith("]"):
                pass                # variant annotation of a match on the parse result (`[Ok]` / `[Err]`)
            else:
                rest.append(s)
        key = (conds.get("req"), conds.get("def"))
        skeleton = " ".join(rest)
        ob.require(skeleton == "parse(req.headers) inner.call(req) sleep=map(td) ret=ResponseFuture{inner.call,sleep}",
                   f"{kind}/call-skeleton/{skeleton.replace(' ', '_')}",
                   f"{b.path}: path does `{skeleton}` instead of parse → inner.call(req) once → sleep from the effective timeout → ResponseFuture",
                   b.path, b.loc())
        if td is not None and td.startswith("Some(map_or("):
            # Some(a.map_or(b, |x| min(b, x))): min when `a` is present, b otherwise - evaluated for both states of `a`
            a_, b_ = td[len("Some(map_or("):-2].split(",")
            for st_ in ([conds[a_]] if conds.get(a_) in ("Some", "None") else ["Some", "None"]):
                k2 = dict(conds)
                k2[a_] = st_
                table.setdefault((k2.get("req"), k2.get("def")), set()).add(("Some(min(req,def))" if st_ == "Some" else f"Some({b_})", tuple(cmps)))
            continue
        if td is not None and td.startswith("or("):
            # `first.or(second)`: the first one that is present; evaluated for every (header, default) case this path covers
            first, second = td[3:-1].split(",")
            for r_ in ([key[0]] if key[0] in ("Some", "None") else ["Some", "None"]):
                for d_ in ([key[1]] if key[1] in ("Some", "None") else ["Some", "None"]):
                    pres = {"req": r_ == "Some", "def": d_ == "Some"}
                    if not_both and pres["req"] and pres["def"]:
                        continue            # this path is the `None` arm of `header.zip(default)`
                    v_ = f"Some({first})" if pres[first] else (f"Some({second})" if pres[second] else "None")
                    table.setdefault((r_, d_), set()).add((v_, tuple(cmps)))
            continue
        if td in ("req", "def") and conds.get(td) not in ("Some", "None"):
            # the whole Option copied without testing it (`None => default`): evaluated for both of its states
            for st_ in ("Some", "None"):
                k2 = dict(conds)
                k2[td] = st_
                table.setdefault((k2.get("req"), k2.get("def")), set()).add((f"Some({td})" if st_ == "Some" else "None", tuple(cmps)))
            continue
        table.setdefault(key, set()).add((td, tuple(cmps)))
    return table


def check_min_table(ob, b, table, kind):
    want = {("None", "None"): "None", ("Some", "None"): "Some(req)", ("None", "Some"): "Some(def)"}
    ob.require(set(table) == {("None", "None"), ("Some", "None"), ("None", "Some"), ("Some", "Some")}, f"{kind}/table-rows",
               f"{b.path}: timeout table rows are {sorted(map(str, table))}", b.path, b.loc())
    for key, val in want.items():
        got = table.get(key, set())
        tds = {td for td, _ in got}
        alt = {"Some(req)": "req", "Some(def)": "def", "None": None}[val]
        ok = tds == {val} or (alt is not None and tds == {alt})
        # (None,None) may also be expressed by copying either (absent) option
        if key == ("None", "None") and tds and tds <= {"None", "req", "def"}:
            ok = True
        ob.require(ok, f"{kind}/table/{key[0]}-{key[1]}", f"{b.path}: (header={key[0]}, default={key[1]}) ↦ {sorted(map(str, tds))}, expected {val}",
                   b.path, b.loc())
    got = table.get(("Some", "Some"), set())
    for case in ("lt", "eq", "gt"):      # r ? d
        # which results are reachable in this case
        res = set()
        for td, cmps in got:
            feasible = True
            for c in cmps:
                # cmp:op(x,y)=val
                op = c[4:c.index("(")]
                x, y = c[c.index("(") + 1:c.index(")")].split(",")
                val = c.endswith("=true")
                rel = case if (x, y) == ("req", "def") else {"lt": "gt", "gt": "lt", "eq": "eq"}[case]
                truth = {"lt": rel == "lt", "le": rel in ("lt", "eq"), "gt": rel == "gt", "ge": rel in ("gt", "eq"),
                         "eq": rel == "eq", "ne": rel != "eq"}[op]
                if truth != val:
                    feasible = False
            if feasible:
                res.add(td)
        good = {"lt": {"Some(req)", "Some(min(req,def))"}, "eq": {"Some(req)", "Some(def)", "Some(min(req,def))"},
                "gt": {"Some(def)", "Some(min(req,def))"}}[case]
        ob.require(bool(res) and res <= good, f"{kind}/table/Some-Some/{case}",
                   f"{b.path}: with header {dict(lt='<', eq='=', gt='>')[case]} default the effective timeout is {sorted(map(str, res))}, expected the smaller one",
                   b.path, b.loc())


def run(cx):
    prog = cx.prog
    tables = {}
    for kind in ("inbound", "outbound"):
        with cx.ob(f"C11.1-{kind}", "R-TABLE", f"{kind} Timeout::call: effective timeout = min(header, default) table; inner called once with the request") as ob:
            b = cx.impl_method(f"{TO}::{kind}::Timeout", "Service", "call")
            t = select_table(ob, b, kind)
            tables[kind] = t
            check_min_table(ob, b, t, kind)
            ob.set_sample({"body": b.path, "table": {f"{k[0]},{k[1]}": sorted(str(x) for x in v) for k, v in t.items()}})
            # the unparsable-header closure returns None on every path
            o = Origins(b)
            uw = [c for c in b.calls_to("Result::unwrap_or_else") if term_has_call(o.of_operand(c.args[0]), f"{TO}::try_parse_timeout")]
            if not uw:
                # written out: `match try_parse_timeout(h) { Ok(v) => v, Err(e) => { trace!(..); None } }` - the value that joins the
                # arms is the parsed Option on Ok and None otherwise
                joins = []
                for l_ in range(len(b.locals)):
                    if len([d for d in b.defs().get(l_, []) if d[0] != "partial"]) < 2:
                        continue
                    t_ = strip_identity(o.of_local(l_))
                    if t_[0] != "phi":
                        continue
                    alts_ = [strip_identity(a_) for a_ in t_[1]]
                    okp = [a_ for a_ in alts_ if a_[0] == "field" and a_[2] == "0" and a_[1][0] == "variant" and a_[1][2] == "Ok" and strip_identity(a_[1][1])[0] == "call"
                           and name_matches(strip_identity(a_[1][1])[1], f"{TO}::try_parse_timeout")]
                    if okp:
                        joins.append((l_, all(a_ in okp or (a_[0] == "agg" and str(a_[2]).endswith("Option::None")) for a_ in alts_) and len(alts_) > len(okp)))
                ob.require(len(joins) >= 1 and all(j_[1] for j_ in joins), f"{kind}/parse-error-is-absent", f"{b.path}: an unparsable header is not mapped to None on every path (match form)", b.path, b.loc())
                continue
            ob.floor(uw, 1, "unwrap_or_else on try_parse_timeout", exact=True)
            ct = o.of_operand(uw[0].args[1])
            ct = strip_identity(ct)
            is_cl = ct[0] == "agg" and ct[1] == "closure"
            is_fn = ct[0] == "fnptr" and ct[1] in prog.bodies and prog.bodies[ct[1]].crate == "anemo"        # a named private fn instead of the closure
            ob.require(is_cl or is_fn, f"{kind}/parse-error-closure", f"parse error handler is {show(ct)}", b.path)
            cb = cx.body(ct[2] if is_cl else ct[1])
            rets = [s for bl in cb.blocks if not bl.get("cleanup") for s in bl["s"] if s["k"] == "assign" and s["lhs"] == 0]
            calls0 = [c for c in cb.calls() if c.dest == 0 and not cb.is_cleanup(c.bb)]
            ok = rets and not calls0 and all(s["rv"]["k"] == "agg" and s["rv"].get("adt") == "core::option::Option" and s["rv"]["variant"] == "None" for s in rets)
            ob.require(ok, f"{kind}/parse-error-is-absent", f"{cb.path}: an unparsable header is not mapped to None on every path", cb.path, cb.loc())

    with cx.ob("C11.1-sibling", "R-SIBLING", "inbound and outbound Timeout::call select the same effective timeout") as ob:
        def norm(t):
            # the (Some,Some) row is compared semantically (each side is separately required to be min)
            return {k: ({td for td, _ in v} if k != ("Some", "Some") else "min") for k, v in t.items()}
        ob.require("inbound" in tables and "outbound" in tables and norm(tables["inbound"]) == norm(tables["outbound"]), "sibling/tables",
                   f"inbound/outbound timeout tables differ: {tables.get('inbound')} vs {tables.get('outbound')}", f"{TO}")

    with cx.ob("C11.2", "R-CONST", "try_parse_timeout: key \"timeout\", u64 nanoseconds, error only from parse; duration_to_timeout saturates") as ob:
        b = cx.body(f"{TO}::try_parse_timeout")
        o = Origins(b)
        g = b.calls_to("HashMap::get")
        ob.floor(g, 1, "HashMap::get in try_parse_timeout", exact=True)
        k = arg_origin(g[0], 1, o)
        ks = strip_identity(k)
        ob.require(ks[0] == "named" and ks[1].endswith("header::TIMEOUT") and ks[2] == '"timeout"', "parse/key", f"timeout header key is {show(ks)} = {ks[2] if len(ks) > 2 else None}", b.path)
        ob.require(is_param(arg_origin(g[0], 0, o), "headers"), "parse/map", "try_parse_timeout does not read its headers parameter", b.path)
        ps = b.calls_to("core::str::parse")
        ob.floor(ps, 1, "str::parse in try_parse_timeout", exact=True)
        ob.require(ps[0].ga == ["u64"], "parse/u64", f"timeout header parsed as {ps[0].ga}", b.path, b.loc(ps[0].bb))
        fn = b.calls_to("core::time::Duration::from_nanos")
        ob.require(len(fn) == 1 and term_has_call(arg_origin(fn[0], 0, o), "core::str::parse") if fn else False, "parse/nanos",
                   "parsed value is not converted with Duration::from_nanos", b.path)
        for other in ("from_millis", "from_secs", "from_micros"):
            ob.require(not b.calls_to(f"core::time::Duration::{other}"), f"parse/unit-{other}", f"try_parse_timeout uses Duration::{other}", b.path)

        def call_sym(c, oo):
            if name_matches(c.fn, "HashMap::get"):
                return "get"
            if name_matches(c.fn, "core::str::parse"):
                return "parse"
            if name_matches(c.fn, "FromResidual::from_residual") and c.dest == 0:
                return "ret=Err"
            return None

        def edge_sym(a, bb, subj, labels, oo):
            lab = "|".join(sorted(labels))
            if subj[0] == "discr":
                r = strip_identity(subj[1])
                if r[0] == "call" and name_matches(r[1], "Try::branch"):
                    return "parsed=" + lab
                if r[0] == "call" and name_matches(r[1], "core::str::parse"):      # the `?` written out as a match on the parse result
                    return "parsed=" + {"Ok": "Continue", "Err": "Break"}.get(lab, lab)
                if r[0] == "call" and name_matches(r[1], "HashMap::get"):
                    return "hdr=" + lab
            return "?cond"

        def stmt_sym(bbi, s, oo):
            if s["lhs"] == 0:
                t = oo.of_rvalue(s["rv"])
                if t[0] == "agg" and t[2].endswith("Result::Ok"):
                    i = t[3][0]
                    if i[0] == "agg" and i[2].endswith("Option::None"):
                        return "ret=Ok(None)"
                    if i[0] == "agg" and i[2].endswith("Option::Some") and term_has_call(i[3][0], "Duration::from_nanos"):
                        return "ret=Ok(Some(nanos))"
                if t[0] == "agg" and t[2].endswith("Result::Err"):
                    return "ret=Err"
                return "ret=?" + show(t)[:50]
            return None
        ws = words_of(b, call_sym, edge_sym, stmt_sym)
        check_words(ob, b, ws, {"get hdr=None ret=Ok(None) <return>", "get hdr=Some parse parsed=Break ret=Err <return>",
                                "get hdr=Some parse parsed=Continue ret=Ok(Some(nanos)) <return>"}, "try_parse_timeout")
        d = cx.body(f"{TO}::duration_to_timeout")
        do = Origins(d)
        uo = d.calls_to("Result::unwrap_or")
        ok = len(uo) == 1 and arg_origin(uo[0], 1, do)[0] in ("named", "const")
        ob.require(ok and ("MAX" in str(arg_origin(uo[0], 1, do)) or "18446744073709551615" in str(arg_origin(uo[0], 1, do))), "encode/saturates",
                   "duration_to_timeout does not saturate at u64::MAX", d.path)
        ob.require(len(d.calls_to("core::time::Duration::as_nanos")) == 1, "encode/nanos", "duration_to_timeout does not encode nanoseconds", d.path)

    for kind, timeout_sym in (("inbound", "ret=Ready(Ok(RequestTimeout))"), ("outbound", "ret=Ready(Err(TimeoutExpired))")):
        with cx.ob(f"C11.3-{kind}", "R-PATHSEQ", f"{kind} ResponseFuture::poll: inner first; timeout outcome only on the sleep's Ready edge") as ob:
            b = cx.impl_method(f"{TO}::{kind}::ResponseFuture", "Future", "poll")

            def call_sym(c, oo):
                if name_matches(c.fn, "future::future::Future::poll"):
                    t = oo.of_operand(c.args[0])
                    if mentions_field(t, "inner"):
                        return "poll(inner)"
                    if mentions_field(t, "sleep"):
                        return "poll(sleep)"
                    return "poll(?)"
                if name_matches(c.fn, ("tokio::task::spawn::spawn", "tokio::spawn")):
                    return "spawn"
                if name_matches(c.fn, "core::task::poll::Poll::map") and c.dest == 0:
                    # `sleep.poll(cx).map(|()| <timeout outcome>)`: Pending stays Pending, Ready becomes Ready(closure value)
                    src = strip_identity(oo.of_operand(c.args[0]))
                    cl = oo.of_operand(c.args[1])
                    kb = prog.bodies.get(cl[2]) if cl[0] == "agg" and cl[1] == "closure" else None
                    if src[0] == "call" and name_matches(src[1], "Future::poll") and mentions_field(src[2][0], "sleep") and kb is not None:
                        r = Origins(kb).of_local(0)
                        if r[0] == "agg" and r[2].endswith("Result::Err") and any(x[0] == "agg" and x[2].endswith("TimeoutExpired::TimeoutExpired") for x in walk(r)):
                            return "ret=sleepmap(Err(TimeoutExpired))"
                        if r[0] == "agg" and r[2].endswith("Result::Ok") and any(x[0] == "agg" and x[2].endswith("StatusCode::RequestTimeout") for x in walk(r)):
                            return "ret=sleepmap(Ok(RequestTimeout))"
                    return "ret=map(?)"
                return None

            def edge_sym(a, bb, subj, labels, oo):
                lab = "|".join(sorted(labels))
                if subj[0] == "discr":
                    r = strip_identity(subj[1])
                    if r[0] == "call" and name_matches(r[1], "Future::poll"):
                        which = "inner" if mentions_field(r[2][0], "inner") else "sleep" if mentions_field(r[2][0], "sleep") else "?"
                        return f"{which}={lab}"
                    if mentions_field(r, "sleep") and labels and labels <= {"Ready", "Pending"}:
                        return "sleep=" + lab          # the Poll produced by `sleep.as_pin_mut().map(|s| s.poll(cx))`, matched as Some(Ready|Pending)
                    if r[0] == "call" and name_matches(r[1], "Option::as_pin_mut"):
                        return "sleep?=" + lab
                    if mentions_field(r, "sleep"):
                        return "sleep?=" + lab
                rr = strip_identity(subj)
                neg_ = False
                while rr[0] == "unop" and rr[1] == "Not":
                    neg_ = not neg_
                    rr = strip_identity(rr[2])
                if rr[0] == "call" and name_matches(rr[1], ("core::task::poll::Poll::is_pending", "core::task::poll::Poll::is_ready")) and labels in ({"true"}, {"false"}):
                    pr = strip_identity(rr[2][0])
                    if pr[0] == "call" and name_matches(pr[1], "Future::poll"):
                        which = "inner" if mentions_field(pr[2][0], "inner") else "sleep" if mentions_field(pr[2][0], "sleep") else "?"
                        pend = ((labels == {"true"}) != neg_) == name_matches(rr[1], "core::task::poll::Poll::is_pending")
                        return f"{which}=" + ("Pending" if pend else "Ready")
                return "?cond(" + show(subj)[:40] + ")=" + lab

            def stmt_sym(bbi, s, oo):
                if s["lhs"] == 0:
                    t = oo.of_rvalue(s["rv"])
                    if t[0] == "agg" and t[2].endswith("Poll::Pending"):
                        return "ret=Pending"
                    if t[0] == "agg" and t[2].endswith("Poll::Ready"):
                        i = t[3][0]
                        if any(x[0] == "variant" and x[2] == "Ready" for x in walk(i)) and term_has_call(i, "Future::poll") and mentions_field(i, "inner"):
                            return "ret=Ready(inner result)"
                        if i[0] == "agg" and i[2].endswith("Result::Ok") and any(x[0] == "agg" and x[2].endswith("StatusCode::RequestTimeout") for x in walk(i)):
                            return "ret=Ready(Ok(RequestTimeout))"
                        if i[0] == "agg" and i[2].endswith("Result::Err") and any((x[0] == "agg" and x[2].endswith("TimeoutExpired::TimeoutExpired")) or
                                                                                   (x[0] == "named" and "::TimeoutExpired::" in str(x[1])) for x in walk(i)):
                            return "ret=Ready(Err(TimeoutExpired))"         # (the type has a single value; an associated const of it is that value)
                    return "ret=?" + show(t)[:60]
                return None
            ws = words_of(b, call_sym, edge_sym, stmt_sym)
            ws2 = set()
            for w in ws:
                sm = [x for x in w if isinstance(x, str) and x.startswith("ret=sleepmap(")]
                if sm:
                    i_ = w.index(sm[0])
                    ws2.add(w[:i_] + ("sleep=Pending", "ret=Pending") + w[i_ + 1:])
                    ws2.add(w[:i_] + ("sleep=Ready", "ret=Ready(" + sm[0][len("ret=sleepmap("):-1] + ")") + w[i_ + 1:])
                else:
                    ws2.add(w)
            # `sleep.as_pin_mut().map(|s| s.poll(cx))` polls inside the map before the Option is matched: same events
            ws3 = set()
            for w in ws2:
                w = list(w)
                for i_ in range(len(w) - 1):
                    if w[i_] == "poll(sleep)" and w[i_ + 1] == "sleep?=Some":
                        w[i_], w[i_ + 1] = w[i_ + 1], w[i_]
                ws3.add(tuple(w))
            ws = ws3
            check_words(ob, b, ws, {
                "poll(inner) inner=Ready ret=Ready(inner result) <return>",
                "poll(inner) inner=Pending sleep?=None ret=Pending <return>",
                "poll(inner) inner=Pending sleep?=Some poll(sleep) sleep=Pending ret=Pending <return>",
                "poll(inner) inner=Pending sleep?=Some poll(sleep) sleep=Ready " + timeout_sym + " <return>"}, f"{kind}-poll")

    with cx.ob("C11.4a", "R-FLOW", "Builder::start installs inbound::TimeoutLayer(config.inbound_request_timeout()) outermost on the service given to the connection manager") as ob:
        start = cx.body("anemo::network::Builder::start")
        kids = prog.children(start)
        cm_new = [c for k in kids for c in k.calls_to("anemo::network::connection_manager::ConnectionManager::new")]
        ob.floor(cm_new, 1, "ConnectionManager::new in Builder::start", exact=True)
        c = cm_new[0]
        o = Origins(c.body)
        svc = strip_identity(arg_origin(c, 4, o))
        ob.require(svc[0] == "call" and name_matches(svc[1], "ServiceExt::boxed_clone"), "inbound/boxed", f"service given to ConnectionManager is {show(svc)[:120]}", c.body.path)
        bc = [x for x in c.body.calls_to("ServiceExt::boxed_clone")]
        ob.floor(bc, 1, "boxed_clone", exact=True)
        ob.require(bc[0].ga and bc[0].ga[0].startswith(f"{TO}::inbound::Timeout<"), "inbound/outermost",
                   f"outermost inbound service type is {bc[0].ga[0][:120] if bc[0].ga else None}", c.body.path, c.body.loc(bc[0].bb))
        tl = [x for x in c.body.calls_to(f"{TO}::inbound::TimeoutLayer::new")]
        ob.floor(tl, 1, "inbound::TimeoutLayer::new", exact=True)
        t = strip_identity(arg_origin(tl[0], 0, o))
        ob.require(t[0] == "call" and name_matches(t[1], "anemo::config::Config::inbound_request_timeout") and mentions_upvar(t, "config"),
                   "inbound/arg", f"inbound::TimeoutLayer::new({show(t)})", c.body.path, c.body.loc(tl[0].bb))
        ob.require(term_has_call(svc, f"{TO}::inbound::TimeoutLayer::new"), "inbound/flows", "the timeout layer does not flow into the connection manager's service", c.body.path)
        # user service is the innermost: ServiceBuilder::service(.., upvar service)
        sv = c.body.calls_to("tower::builder::ServiceBuilder::service")
        ob.require(len(sv) == 1 and mentions_upvar(arg_origin(sv[0], 1, o), "service"), "inbound/user-service", "ServiceBuilder::service is not applied to the user's service", c.body.path)
        check_callers(ob, prog, "anemo::network::connection_manager::ConnectionManager::new", ["anemo::network::Builder::start"], exact=1, what="ConnectionManager::new")
        # config getters
        for g, f in (("inbound_request_timeout", "inbound_request_timeout_ms"), ("outbound_request_timeout", "outbound_request_timeout_ms")):
            check_optional_ms_getter(ob, prog, f"anemo::config::Config::{g}", f, key=f"config/{g}")

    with cx.ob("C11.4c", "R-CONST", "configured request timeouts are milliseconds (unit discipline of the Config accessors)") as ob:
        check_ms_getter(ob, prog, "anemo::config::Config::inbound_request_timeout", "inbound_request_timeout_ms")
        check_ms_getter(ob, prog, "anemo::config::Config::outbound_request_timeout", "outbound_request_timeout_ms")

    with cx.ob("C11.4b", "R-FLOW", "outbound::TimeoutLayer(config.outbound_request_timeout()) is in the layer in both branches, reaches every Peer, and Peer::call applies it") as ob:
        start = cx.body("anemo::network::Builder::start")
        o = Origins(start)
        tl = start.calls_to(f"{TO}::outbound::TimeoutLayer::new")
        ob.floor(tl, 1, "outbound::TimeoutLayer::new", exact=True)
        t = strip_identity(arg_origin(tl[0], 0, o))
        ob.require(t[0] == "call" and name_matches(t[1], "anemo::config::Config::outbound_request_timeout"), "outbound/arg", f"outbound::TimeoutLayer::new({show(t)[:100]})", start.path)
        bl = start.calls_to("tower::util::boxed::layer::BoxLayer::new")
        ob.floor(bl, 2, "BoxLayer::new sites in Builder::start")
        for c in bl:
            lt = c.ga[-1] if c.ga else ""
            ob.require(f"{TO}::outbound::TimeoutLayer" in lt and term_has_call(arg_origin(c, 0, o), f"{TO}::outbound::TimeoutLayer::new"),
                       "outbound/in-both-branches", f"BoxLayer::new at {start.loc(c.bb)} wraps {lt[:100]} (no outbound timeout layer)", start.path, start.loc(c.bb))
        # stack order: the timeout layer must be outermost => first in the builder: Stack<User, Stack<TimeoutLayer, Identity>>
        for c in bl:
            lt = c.ga[-1] if c.ga else ""
            ob.require(lt.rstrip(">").rstrip().endswith(f"{TO}::outbound::TimeoutLayer, tower_layer::identity::Identity"), "outbound/outermost",
                       f"outbound timeout layer is not the outermost layer of {lt[:120]}", start.path, start.loc(c.bb))
        # NetworkInner.outbound_request_layer <- that value
        kids = prog.children(start)
        aggs = [(k, s) for k in kids for blk in k.blocks for s in blk["s"] if s["k"] == "assign" and s["rv"]["k"] == "agg" and s["rv"].get("adt") == "anemo::network::NetworkInner"]
        ob.floor(aggs, 1, "NetworkInner construction", exact=True)
        k, s = aggs[0]
        t = Origins(k).of_rvalue(s["rv"])
        f = dict(zip(t[4], t[3]))
        ob.require(mentions_upvar(f["outbound_request_layer"], "outbound_request_layer"), "outbound/stored", f"NetworkInner.outbound_request_layer = {show(f['outbound_request_layer'])}", k.path)
        up = [u for u in k.upvars if u["name"] == "outbound_request_layer"]
        ob.require(len(up) == 1, "outbound/captured", "closure does not capture outbound_request_layer", k.path)
        loc = start.local_by_name("outbound_request_layer")
        okl = len(loc) == 1
        if okl:
            # whatever the local is assigned from (the two branches directly, or the result of a helper that holds them), every
            # value it can take is the result of one of the BoxLayer::new sites checked above
            lt_ = strip_identity(o.of_local(loc[0]))
            alts_ = [strip_identity(a_) for a_ in lt_[1]] if lt_[0] == "phi" else [lt_]
            okl = bool(alts_) and all(a_[0] == "call" and name_matches(a_[1], "tower::util::boxed::layer::BoxLayer::new") and a_[3] in {c.bb for c in bl} for a_ in alts_)
        ob.require(okl, "outbound/local-defs",
                   "local outbound_request_layer has a definition that is not one of the BoxLayer::new sites", start.path)
        check_constructed_only_in(ob, prog, "anemo::network::NetworkInner", ["anemo::network::Builder::start"])
        check_field_writers(ob, prog, "anemo::network::NetworkInner", "outbound_request_layer", [], kinds=("mutref", "write", "move"))
        # every Peer is built with the network's own outbound layer: Peer::new(connection, self.outbound_request_layer.clone(), ..)
        # at each construction site inside NetworkInner (whatever method it lives in)
        pns = prog.callers_of("anemo::network::peer::Peer::new", crates=["anemo"])
        ob.floor(pns, 1, "Peer::new call sites")
        for c in pns:
            t = arg_origin(c, 1, Origins(c.body))
            own = owner_path(prog, c.body)
            ob.require(own.startswith("anemo::network::NetworkInner::") and mentions_field(t, "outbound_request_layer") and (mentions_param(t, "self") or mentions_upvar(t, "self"))
                       and not term_has_call(t, ("BoxLayer::new", "Identity::new", "Default::default")),
                       f"peer/layer-arg/{own}", f"Peer::new layer argument in {c.body.path} is {show(t)[:100]}", c.body.path, c.body.loc(c.bb))
        check_constructed_only_in(ob, prog, "anemo::network::peer::Peer", ["anemo::network::peer::Peer::new", "<anemo::network::peer::Peer as core::clone::Clone>::clone"])
        nb = cx.body("anemo::network::peer::Peer::new")
        t = Origins(nb).of_local(0)
        ob.require(t[0] == "agg" and is_param(dict(zip(t[4], t[3]))["outbound_request_layer"], "outbound_request_layer"), "peer/new-stores", f"Peer::new builds {show(t)}", nb.path)
        # Peer::call: layered service called with the request; do_rpc only inside the closure given to service_fn
        cb = cx.impl_method("anemo::network::peer::Peer", "Service", "call")
        co = Origins(cb)
        # everything an outbound request waits for is waited for *inside* the layered service (hence under the deadline):
        # streams are opened by do_rpc only - waiting for stream credit outside the layer stack would not be covered
        check_callers(ob, prog, "anemo::connection::Connection::open_bi", ["anemo::network::peer::Peer::do_rpc"], crates=["anemo"], floor=1,
                      what="Connection::open_bi (outbound stream; must be opened under the request's deadline)", key="peer-call/stream-opened-under-deadline")
        lay = [c for c in cb.calls() if name_matches(c.fn, "tower_layer::Layer::layer") and not cb.is_cleanup(c.bb)]
        ob.floor(lay, 1, "Layer::layer in Peer::call", exact=True)
        ob.require(mentions_field(arg_origin(lay[0], 0, co), "outbound_request_layer"), "peer-call/layer", "Peer::call does not apply self.outbound_request_layer", cb.path)
        sc = [c for c in cb.calls() if name_matches(c.fn, "tower_service::Service::call") and not cb.is_cleanup(c.bb)]
        ob.floor(sc, 1, "Service::call in Peer::call", exact=True)
        r0 = strip_identity(co.of_local(0))
        ob.require(term_has_call(arg_origin(sc[0], 0, co), "tower_layer::Layer::layer") and is_param(arg_origin(sc[0], 1, co), "request")
                   and r0[0] == "call" and r0[3] == sc[0].bb,
                   "peer-call/calls-layered", f"Peer::call invokes {show(arg_origin(sc[0], 0, co))[:100]}", cb.path)
        inner_t = arg_origin(lay[0], 1, co)
        ob.require(term_has_call(inner_t, "service_fn"), "peer-call/inner-is-do_rpc-closure", f"layer applied to {show(inner_t)[:100]}", cb.path)
        check_callers(ob, prog, "anemo::network::peer::Peer::do_rpc", [cb.path], exact=1, what="Peer::do_rpc")
        # Peer::rpc goes through call(); NetworkInner::rpc goes through Peer::rpc
        rb = cx.coroutine("anemo::network::peer::Peer::rpc")
        ob.require(any(name_matches(c.fn, "tower_service::Service::call") for c in rb.calls()) and not rb.calls_to("anemo::network::peer::Peer::do_rpc"),
                   "peer-rpc/through-call", "Peer::rpc bypasses Service::call", rb.path)
        nr = cx.coroutine("anemo::network::NetworkInner::rpc")
        n_rpc = len(nr.calls_to("anemo::network::peer::Peer::rpc"))
        n_new = len(call_sites_through(prog, nr, lambda c: name_matches(c.fn, "anemo::network::peer::Peer::new"), depth=2))
        bypass = call_sites_through(prog, nr, lambda c: name_matches(c.fn, ("anemo::network::peer::Peer::do_rpc", "anemo::connection::Connection::open_bi")), depth=1)
        ob.require(n_rpc == 1 and n_new == 1 and not bypass, "network-rpc/through-peer",
                   f"NetworkInner::rpc does not go through exactly one Peer (built by Peer::new) and its rpc() (Peer::rpc sites {n_rpc}, Peer::new reached {n_new}, bypass {len(bypass)})", nr.path)

    with cx.ob("C11.5", "R-CALLERS", "an unparsable timeout header is never an error of the request: every user of try_parse_timeout maps its Err to 'absent' (unwrap_or_else(|_| None) / ok().flatten() / unwrap_or), none propagates it") as ob:
        sites = prog.callers_of(f"{TO}::try_parse_timeout", crates=["anemo"])
        ob.floor(sites, 3, "call sites of try_parse_timeout (two middlewares, Request::timeout)")
        for c in sites:
            bd = c.body
            o = Origins(bd)
            users = []
            for c2 in bd.calls():
                if bd.is_cleanup(c2.bb) or c2 is c:
                    continue
                for i_, a_ in enumerate(c2.args):
                    t_ = strip_identity(o.of_operand(a_))
                    if t_[0] == "call" and name_matches(t_[1], f"{TO}::try_parse_timeout") and t_[3] == c.bb:
                        users.append(c2)
            okk = bool(users) and all(name_matches(u.fn, ("Result::unwrap_or_else", "Result::unwrap_or", "Result::ok", "Result::unwrap_or_default")) for u in users)
            sws = list(find_switch_on(bd, lambda s_: s_[0] == "discr" and strip_identity(s_[1])[0] == "call" and name_matches(strip_identity(s_[1])[1], f"{TO}::try_parse_timeout"), o))
            sw = []
            if sws and not users:
                # an explicit `match try_parse_timeout(..) { Ok(t) => .., Err(_) => <absent> }`: fine when nothing that only the
                # Err arm reaches returns an error
                okk = True
                for sw_, subj, labels in sws:
                    et = [t_ for t_, ls in labels.items() if ls == {"Err"}]
                    ot = [t_ for t_, ls in labels.items() if ls == {"Ok"}]
                    if len(et) != 1 or len(ot) != 1:
                        okk = False
                        continue
                    only_err = bd.reachable_from(et[0]) - bd.reachable_from(ot[0])
                    for i_ in only_err:
                        if any(st["k"] == "assign" and st["lhs"] == 0 and st["rv"]["k"] == "agg" and st["rv"].get("variant") == "Err" for st in bd.blocks[i_]["s"]):
                            okk = False
                        c3 = bd.call_at(i_)
                        if c3 is not None and name_matches(c3.fn, ("FromResidual::from_residual", "core::panicking::panic", "core::panicking::panic_fmt")):
                            okk = False
            elif sws:
                sw = sws
            ob.require(okk and not sw, f"parse-error-absorbed/{owner_path(prog, bd)}",
                       f"{bd.path}: the result of try_parse_timeout is used by {[u.fn.split('::')[-1] for u in users] or 'a match / `?`'} - an unparsable header must count as absent, not fail the request", bd.path, bd.loc(c.bb))

    with cx.ob("C11.6", "R-SHAPE", "one layer out: cloning a Timeout service keeps its default (field-by-field Clone) and poll_ready is the inner service's readiness only") as ob:
        for ty in ("anemo::middleware::timeout::inbound::Timeout", "anemo::middleware::timeout::outbound::Timeout"):
            check_fieldwise_clone(ob, prog, ty)
            check_poll_ready_delegates(ob, prog, ty)
        check_fieldwise_clone(ob, prog, "anemo::network::peer::Peer")          # a cloned Peer keeps the outbound layer (with the timeout) and the config
        check_derived(ob, prog, "anemo::config::Config", "core::default::Default")
        check_builder_setters(ob, prog, "anemo::network::Builder", {"config": ("config", "config"), "outbound_request_layer": ("outbound_request_layer", "layer")})

    with cx.ob("C11.7", "R-WRITERS", "one layer out: the configured request timeouts are never rewritten after the Config was built; the handler runs as part of the request future (no spawn on the request path, C08.7 re-evaluated), so dropping that future at the deadline drops the handler") as ob:
        check_config_immutable(ob, prog, ["inbound_request_timeout_ms", "outbound_request_timeout_ms"], repo=cx.repo)
        from . import c08
        sub = cx.__class__("C11", prog, cx.tier, cx.config, cx.tree, repo=cx.repo)
        c08.run(sub)
        w = [x for x in sub.obs if x.oid == "C08.7"]
        ob.count(sum(x.evals for x in w))
        bad = [v for x in w for v in x.violations]
        ob.require(len(w) == 1 and not bad, "handler-dropped-at-deadline/no-spawn-on-request-path", "the handler can be detached from the request future (a timeout then answers but no longer stops it): " + "; ".join(str(v.msg) for v in bad)[:300], "anemo::rpc::server::Rpc::unary")

    with cx.ob("C11.8", "R-DROP", "one layer out: nothing that can sit under the deadline blocks the executor - no synchronous lock guard (std / parking_lot / DashMap shard guard) is alive across an await in the library's async code: a task waiting for such a lock cannot be polled, so neither its timer nor anybody else's fires on that thread") as ob:
        GUARDS = ("MutexGuard", "RwLockReadGuard", "RwLockWriteGuard", "dashmap::mapref", "dashmap::lock", "std::sync::poison", "parking_lot::")
        n_co = 0
        for b_ in prog.bodies.values():
            if b_.crate not in ("anemo", "anemo_tower") or not b_.coroutine:
                continue
            n_co += 1
            for l_ in range(1, len(b_.locals)):
                ty = str(b_.local_ty(l_) or "")
                head_ = ty.split("<")[0]
                if not any(g_ in head_ for g_ in GUARDS) or ty.startswith("&") or "tokio::sync" in head_:
                    continue
                ys = owned_live_at_yield(b_, l_)
                if ys:
                    ob.fail("refuted", f"lock-guard-across-await/{owner_path(prog, b_)}/{ty.split('<')[0].split('::')[-1]}",
                            f"{b_.path}: a `{ty[:80]}` is still alive at a suspension point (bb{ys[0]}): a synchronous lock is held across an await", b_.path, b_.loc(ys[0]))
        ob.floor(n_co, 40, "coroutine bodies inspected for lock guards held across awaits")
        ob.count(n_co)

