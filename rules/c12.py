"""C12 — Abandoned RPCs are cancelled remotely and leak nothing."""
from .engine import AnchorLost, Undecidable
from .lib import *
from .mir import Origins, show, strip_identity, walk, name_matches, term_has_call, place_local

CONN = "anemo::connection"
PEER = "anemo::network::peer::Peer"
RH = "anemo::network::request_handler"
WIRE = "anemo::network::wire"

EXPLANATION = """
Cancellation propagates because of RAII/ownership facts that are visible statically: anemo's
SendStream wrapper has a Drop impl whose every path calls quinn::SendStream::reset on the wrapped
stream, every quinn send stream anemo obtains is wrapped before leaving connection.rs and no wrapper is
ever forgotten / ManuallyDrop'd / unwrapped; on the caller side nothing reachable from
Peer::rpc/call/do_rpc or the outbound timeout layer spawns a task, so both stream halves are locals of
the do_rpc coroutine and die with the RPC future (resetting the send side, stopping the receive side);
on the callee side do_handle creates the `stopped` future of its own send stream after the service
future and polls both in the same select!, and the `stopped` arm leads to an Err return that does not
pass write_response (the handler future, a coroutine local, is dropped there); after a response the
handler finishes the stream and awaits `stopped`; request tasks live in a JoinSet local to the
connection handler, which is shut down on every path from loop exit to return.
Nothing on the request path, including the typed-RPC layer, spawns (closed world of task creation, C08.7 re-evaluated).
What an abandoning caller makes fail on the serving side is returned as an error, never a panic (C06.1a/C06.2 re-evaluated for the request path).
The tower layers never take a resource out of RAII's hands (no forget / add_permits): what a dropped request future held is released by destructors only.
"""
TRUSTED = ["quinn: reset()/stop propagate to the peer's stopped()/read", "tokio JoinSet aborts its tasks when dropped or shut down"]
NOT_DECIDED = ["promptness of remote cancellation", "QUIC stream-credit accounting over long histories", "abandonment at every instant (schedule quantifier)"]
ASSUMPTIONS = []


def run(cx):
    prog = cx.prog
    A = ["anemo"]

    with cx.ob("C12.1", "R-MUSTPASS", "SendStream wrapper resets on drop (all paths); every obtained quinn send stream is wrapped; wrappers are never forgotten or unwrapped") as ob:
        d = cx.impl_method(f"{CONN}::SendStream", "Drop", "drop")
        o = Origins(d)
        rs = d.calls_to("quinn::send_stream::SendStream::reset")
        ob.floor(rs, 1, "reset in Drop for SendStream", exact=True)
        t = arg_origin(rs[0], 0, o)
        ob.require(mentions_field(t, "0") and mentions_param(t, "self"), "drop/resets-own-stream", f"reset called on {show(t)}", d.path)
        must_pass(ob, d, [rs[0].bb], key="drop/reset-on-all-paths", what="return")
        check_constructed_only_in(ob, prog, f"{CONN}::SendStream", [f"{CONN}::Connection::open_uni", f"{CONN}::Connection::open_bi", f"{CONN}::Connection::accept_bi"], crates=A, floor=2)          # (open_uni + the bi-stream wrapping, which the two bi functions may share)
        # positions where a quinn SendStream leaves a quinn call: all inside connection.rs wrappers (C02.1) -- here: field .0 never moved out
        acc = [a for a in field_accesses(prog, f"{CONN}::SendStream", "0", crates=A) if a[2] == "move" and not a[0].is_cleanup(a[1])]
        for bb_, i, kind, _ in acc:
            ob.fail("refuted", f"unwrap/{owner_path(prog, bb_)}", f"the raw stream is moved out of the wrapper in {bb_.path}", bb_.path, bb_.loc(i))
        ob.count()
        check_no_calls(ob, prog, ("core::mem::forget", "mem::manually_drop::ManuallyDrop::new", "alloc::boxed::Box::leak", "core::mem::replace", "core::mem::take"),
                       crates=A, what="forget/ManuallyDrop/leak",
                       within={p for p, b in prog.bodies.items() if b.crate == "anemo" and ("connection.rs" in b.file or "peer.rs" in b.file or "request_handler.rs" in b.file or "wire.rs" in b.file)})
        # positive control for the zero rule: the same matcher finds mem::take in KnownPeers::remove_all
        ob.require(len(prog.callers_of("core::mem::take", crates=A)) >= 1, "positive-control", "mem::take matcher is blind", "anemo")

    with cx.ob("C12.2", "R-CALLERS", "caller side: nothing on the RPC path spawns; stream halves are locals of the do_rpc future") as ob:
        entries = [cx.impl_method(PEER, "Service", "call").path, cx.coroutine(f"{PEER}::rpc").path, cx.body(f"{PEER}::do_rpc").path,
                   cx.impl_method("anemo::middleware::timeout::outbound::Timeout", "Service", "call").path,
                   cx.impl_method("anemo::middleware::timeout::outbound::ResponseFuture", "Future", "poll").path,
                   cx.coroutine("anemo::network::NetworkInner::rpc").path]
        reach = prog.reachable_bodies(entries)
        ob.count(len(reach))
        for p in reach:
            b = prog.body(p)
            for c in b.calls():
                if name_matches(c.fn, ("tokio::task::spawn::spawn", "tokio::task::spawn::spawn_local", "tokio::task::join_set::JoinSet::spawn", "tokio::runtime::handle::Handle::spawn",
                                       "tokio::task::blocking::spawn_blocking")):
                    ob.fail("refuted", f"caller-spawn/{p}", f"{p} spawns a task on the RPC path (the RPC would outlive its caller)", p, b.loc(c.bb))
        co = cx.coroutine(f"{PEER}::do_rpc")
        fw = [i for i, l in enumerate(co.locals) if l["ty"].startswith("tokio_util::codec::framed_write::FramedWrite<anemo::connection::SendStream")]
        fr = [i for i, l in enumerate(co.locals) if l["ty"].startswith("tokio_util::codec::framed_read::FramedRead<quinn::recv_stream::RecvStream")]
        ob.require(bool(fw) and bool(fr), "caller/streams-are-locals", "do_rpc does not hold its framed streams as coroutine locals", co.path)
        # they are only borrowed by calls (never moved into another owner)
        for L in fw + fr:
            moved = [i for i, bl in enumerate(co.blocks) if not bl.get("cleanup") and bl["t"]["k"] == "call"
                     and any(op.get("k") == "move" and place_local(op["pl"]) == L and not place_proj(op["pl"]) for op in bl["t"]["args"])]
            ob.require(not moved, f"caller/stream-moved/_{L}", f"framed stream local _{L} is moved into a call in do_rpc", co.path)

    with cx.ob("C12.3", "R-EDGE", "callee side: `stopped` of the own send stream races the service future; its arm returns Err without writing a response") as ob:
        co = cx.coroutine(f"{RH}::BiStreamRequestHandler::do_handle")
        o = Origins(co)
        # the service future: whatever is built from self.service and the decoded request (oneshot, or call after ready)
        SVC = ("tower::util::ServiceExt::oneshot", "tower_service::Service::call")
        one = [c for c in co.calls() if name_matches(c.fn, SVC) and not co.is_cleanup(c.bb) and mentions_field(o.of_operand(c.args[0]), "service") and mentions_upvar(o.of_operand(c.args[0]), "self")]
        st = [c for c in co.calls_to("quinn::send_stream::SendStream::stopped")]
        ob.floor(one, 1, "service future (oneshot / call on self.service)", exact=True)
        ob.floor(st, 2, "stopped() sites in do_handle", exact=True)
        race = [c for c in st if not any(co.dominates(w.bb, c.bb) for w in co.calls_to(f"{WIRE}::write_response"))]
        ob.floor(race, 1, "stopped() created before the response", exact=True)
        # every suspension point of the request task is one where abandonment is observed: IO on the request's own
        # stream (fails on reset/stop) or the select! that polls `stopped`. Anything else (service readiness, sleeps,
        # locks, channels) would be an unwatched wait during which the caller can walk away unnoticed.
        WATCHED = (f"{WIRE}::read_request", f"{WIRE}::write_response", "quinn::send_stream::SendStream::stopped")
        n_y = 0
        live_ = co.reachable_from(0)
        for yb, bl in enumerate(co.blocks):
            if bl.get("cleanup") or bl["t"]["k"] != "yield" or yb not in live_:
                continue
            n_y += 1
            seen_, fr, found = set(), [yb], None
            for _ in range(8):
                nx = []
                for x in fr:
                    for y in co.succ(x):
                        if y in seen_:
                            continue
                        seen_.add(y)
                        cc = co.call_at(y)
                        if cc is not None and name_matches(cc.fn, "future::future::Future::poll"):
                            found = cc
                            break
                        nx.append(y)
                    if found:
                        break
                if found or not nx:
                    break
                fr = nx
            tgt = await_target(found) if found is not None else None
            is_select = found is not None and (found.exp or "").endswith("tokio::select!")
            ob.require(found is not None and (is_select or (tgt is not None and name_matches(tgt, WATCHED))), f"race/unwatched-wait/{tgt or 'unknown'}",
                       f"do_handle suspends on `{tgt or (found.res if found else '?')}` at {co.loc(yb)} outside the select! that watches `stopped`: an RPC abandoned during this wait is not cancelled", co.path, co.loc(yb))
        ob.floor(n_y, 4, "suspension points of do_handle")
        t = arg_origin(race[0], 0, o)
        ob.require(mentions_field(t, "send_stream") and mentions_upvar(t, "self"), "race/own-stream", f"stopped() on {show(t)}", co.path)
        # both futures are in the tuple captured by the select! poll_fn closure
        futs = [s for bl in co.blocks if not bl.get("cleanup") for s in bl["s"] if s["k"] == "assign" and s["rv"]["k"] == "agg" and s["rv"]["ak"] == "tuple"
                and any(term_has_call(o.of_operand(x), SVC) for x in s["rv"]["ops"])]
        ob.floor(futs, 1, "select! futures tuple")
        idx_stop = None
        for f_ in futs:
            ops = [o.of_operand(x) for x in f_["rv"]["ops"]]
            ok = len(ops) == 2 and any(term_has_call(x, "SendStream::stopped") for x in ops)
            ob.require(ok, "race/same-select", f"select! races {[show(x)[:40] for x in ops]}", co.path)
            if ok:
                idx_stop = [i for i, x in enumerate(ops) if term_has_call(x, "SendStream::stopped")][0]
        pf = co.calls_to("core::future::poll_fn::poll_fn")
        ob.floor(pf, 1, "poll_fn (select!) in do_handle", exact=True)
        # the arm for the stopped branch: switch on discriminant of the select output
        sws = find_switch_on(co, lambda s: s[0] == "discr" and term_has_call(s[1], "poll_fn::poll_fn") and not any(x[0] == "variant" and x[2].startswith("_") for x in walk(s[1]))
                             and any(x[0] == "variant" and x[2] == "Ready" for x in walk(s[1])), o)
        sws = [s for s in sws if any(l.startswith("_") for ls in s[2].values() for l in ls)]
        ob.floor(sws, 1, "match on select! output", exact=True)
        sw, _, labels = sws[0]
        arm = [t_ for t_, ls in labels.items() if f"_{idx_stop}" in ls]
        ob.require(len(arm) == 1, "race/stopped-arm", f"no arm for select branch _{idx_stop}: {labels}", co.path)
        if arm:
            wr = co.calls_to(f"{WIRE}::write_response")
            # feasible paths from the stopped arm (an `Err` built in the arm and propagated with `?` cannot take the
            # Continue edge): none writes a response, all return Err
            def arm_call(c, o_):
                return "write_response" if name_matches(c.fn, f"{WIRE}::write_response") else None

            def arm_stmt(bb_, s_, o_):
                if s_["lhs"] == 0 and s_["rv"]["k"] == "agg" and s_["rv"].get("variant") in ("Ok", "Err"):
                    return "ret=" + s_["rv"]["variant"]
                return None
            aws = {fmt_word(w) for w in words_of(co, arm_call, None, arm_stmt, start=arm[0], drop_suspend=False)}
            ob.count(len(aws))
            ob.require(bool(wr) and not any("write_response" in w.split() for w in aws), "race/stopped-arm-no-response", f"the stopped arm can still reach write_response: {sorted(aws)[:3]}", co.path)
            ob.require(bool(aws) and all(w.endswith("<return>") and ("ret=Err" in w.split() or "!err" in w.split()) and "ret=Ok" not in w.split() for w in aws),
                       "race/stopped-arm-returns-err", f"the stopped arm does not return Err: {sorted(aws)[:3]}", co.path)
            ob.set_sample({"stopped_arm_words": sorted(aws)})
        # the service future is a coroutine local (dropped when the coroutine returns): it is not spawned / boxed away
        ob.require(not [c for c in co.calls() if name_matches(c.fn, ("tokio::task::spawn::spawn", "JoinSet::spawn"))], "race/handler-not-spawned", "do_handle spawns the service future", co.path)

    with cx.ob("C12.4", "R-MUSTPASS", "connection handler: request tasks live in a local JoinSet that is shut down on every path from loop exit to return") as ob:
        co = cx.coroutine(f"{RH}::InboundRequestHandler::start")
        o = Origins(co)
        js = [i for i, l in enumerate(co.locals) if l["ty"].startswith("tokio::task::join_set::JoinSet<") and l.get("name")]
        ob.floor(js, 1, "JoinSet local in handler loop", exact=True)
        sp = co.calls_to("tokio::task::join_set::JoinSet::spawn")
        ob.floor(sp, 1, "spawn site", exact=True)
        t = strip_identity(o.of_operand(sp[0].args[0]))
        ob.require(t[0] == "call" and name_matches(t[1], "JoinSet::new"), "tasks/spawned-on-local-set", f"request task spawned on {show(t)}", co.path)
        sh = co.calls_to("tokio::task::join_set::JoinSet::shutdown")
        ob.floor(sh, 1, "JoinSet::shutdown in handler", exact=True)
        ts = strip_identity(o.of_operand(sh[0].args[0]))
        ob.require(ts == t, "tasks/shutdown-same-set", f"shutdown on {show(ts)}", co.path)
        cyc = co.cyclic_blocks()
        rets = co.return_blocks()
        ob.require(sh[0].bb not in cyc and all(co.all_paths_pass(0, [r], [sh[0].bb], succ=co.succ_noawait) for r in rets), "tasks/shutdown-on-all-exits",
                   "a path from the handler loop to return skips inflight_requests.shutdown()", co.path)
        # and it is awaited
        aw = [c for c in co.calls() if await_target(c) and await_target(c).endswith("JoinSet::shutdown")]
        ob.require(len(aw) == 1, "tasks/shutdown-awaited", "shutdown() future is not awaited", co.path)
        check_no_calls(ob, prog, ("tokio::task::spawn::spawn", "tokio::task::spawn::spawn_local"), crates=A, what="detached spawn in request_handler",
                       within={p for p, b in prog.bodies.items() if "request_handler.rs" in b.file})

    with cx.ob("C12.5", "R-MUSTPASS", "after the response the handler finishes its stream and awaits `stopped` (no lingering task per request)") as ob:
        co = cx.coroutine(f"{RH}::BiStreamRequestHandler::do_handle")

        def call_sym(c, oo):
            aw = await_target(c)
            if aw is not None:
                return "await(stopped)" if aw.endswith("SendStream::stopped") else None
            if name_matches(c.fn, f"{WIRE}::write_response"):
                return "write_response"
            if name_matches(c.fn, "quinn::send_stream::SendStream::finish"):
                return "finish" if mentions_field(oo.of_operand(c.args[0]), "send_stream") else "finish(?)"
            return None

        def stmt_sym(bbi, s, oo):
            if s["lhs"] == 0 and s["rv"]["k"] == "agg" and s["rv"].get("adt") == "core::result::Result":
                return "ret=" + s["rv"]["variant"]
            return None
        wr = co.calls_to(f"{WIRE}::write_response")
        ob.floor(wr, 1, "write_response", exact=True)
        ws = seq_words(co, call_sym, stmt_sym, None, strict=False, start=wr[0].bb)
        okw = {fmt_word(w) for w in ok_words(ws)}
        ob.require(okw == {"write_response finish await(stopped) ret=Ok <return>"}, "tail/order", f"after-response paths: {sorted(okw)}", co.path)
        # BiStreamRequestHandler::handle swallows the error (ends only its own task)
        hb = cx.coroutine(f"{RH}::BiStreamRequestHandler::handle")
        r = [s for bl in hb.blocks if not bl.get("cleanup") for s in bl["s"] if s["k"] == "assign" and s["lhs"] == 0]
        ob.require(hb.local_ty(0) == "()" and not [c for c in hb.calls() if name_matches(c.fn, PANIC_CALLS) and not hb.is_cleanup(c.bb) and not is_tracing(c)],
                   "handle/returns-unit", "BiStreamRequestHandler::handle can fail or panic on a request error", hb.path)

    with cx.ob("C12.6", "R-CALLERS", "abandoning one RPC never affects the others: nothing on the per-request path (either side) closes the connection or removes the peer") as ob:
        per_request = [f"{RH}::BiStreamRequestHandler::handle", f"{RH}::BiStreamRequestHandler::do_handle", f"{WIRE}::read_request", f"{WIRE}::write_response",
                       f"{WIRE}::write_request", f"{WIRE}::read_response", f"{PEER}::do_rpc", cx.impl_method(PEER, "Service", "call").path, cx.impl_method(f"{CONN}::SendStream", "Drop", "drop").path]
        for e in per_request:
            cx.body(e)
        reach = prog.reachable_bodies(per_request, extra_edges=drop_edges(prog))
        ob.count(len(reach))
        bad = 0
        for p in reach:
            b = prog.body(p)
            for c in b.calls():
                if name_matches(c.fn, (f"{CONN}::Connection::close", "anemo::endpoint::Endpoint::close", "quinn::connection::Connection::close", "quinn::endpoint::Endpoint::close",
                                       "anemo::network::connection_manager::ActivePeers::remove", "anemo::network::connection_manager::ActivePeers::remove_with_stable_id")):
                    bad += 1
                    ob.fail("refuted", f"per-request-close/{p}/{c.fn.split('::')[-1]}", f"{p} calls {c.fn}: one (abandoned or malformed) RPC would take down every other RPC on the connection", p, b.loc(c.bb))
        if not bad:
            ob.matched += 1

    with cx.ob("C12.7", "R-CALLERS", "nothing between the stream and the handler detaches work: no spawn anywhere on the request path including the typed-RPC layer (closed world of task creation, C08.7 re-evaluated)") as ob:
        from . import c08
        sub = cx.__class__("C12", prog, cx.tier, cx.config, cx.tree, repo=cx.repo)
        c08.run(sub)
        w = [x for x in sub.obs if x.oid in ['C08.7']]
        ob.count(sum(x.evals for x in w))
        bad = [v for x in w for v in x.violations]
        ob.require(len(w) == 1 and not bad, "detached-handler/no-spawn-on-request-path", "a task is spawned outside the sets that cancellation / shutdown reach (dropping the request future no longer drops the handler): " + "; ".join(str(v.msg) for v in bad)[:300], "anemo::rpc::server::Rpc::unary")

    with cx.ob("C12.8", "R-SHAPE", "one layer out: closed world of destructors (the only per-request destructor is the stream wrapper's reset)") as ob:
        check_drop_impls_closed(ob, prog, ["anemo::connection::SendStream", "anemo::network::connection_manager::ConnectionManager"])
        # ... so whatever a dropped request future held is given back by its owner's destructor: the tower layers never take a
        # resource out of RAII's hands (a forgotten permit that is "released" by a callback is lost when the future is dropped)
        check_no_calls(ob, prog, ("tokio::sync::semaphore::SemaphorePermit::forget", "tokio::sync::semaphore::OwnedSemaphorePermit::forget", "core::mem::forget",
                                  "mem::manually_drop::ManuallyDrop::new", "alloc::boxed::Box::leak", "tokio::sync::semaphore::Semaphore::add_permits", "Semaphore::forget_permits"),
                       crates=["anemo_tower"], what="resource taken out of RAII (forget / add_permits)")

    with cx.ob("C12.9", "R-PANIC", "an abandoned RPC ends only its own request task: whatever the abandoning caller makes fail on the serving side (a write after STOP_SENDING, a read after RESET) is an error the task returns, not a panic - a panic is re-raised by the connection handler and the manager and takes every other RPC down (C06.1a, C06.2 re-evaluated)") as ob:
        from . import c06
        sub = cx.__class__("C12", prog, cx.tier, cx.config, cx.tree, repo=cx.repo)
        c06.run(sub)
        w = [x for x in sub.obs if x.oid in ("C06.1a", "C06.2")]
        ob.count(sum(x.evals for x in w))
        bad = [v for x in w for v in x.violations if x.oid == "C06.2" or "request_handler" in v.key or "network::wire" in v.key]
        ob.require(len(w) == 2 and not bad, "abandoned-rpc/ends-only-its-task", "a failure caused by an abandoned RPC can panic on the serving side: " + "; ".join(str(v.msg) for v in bad)[:300],
                   "anemo::network::request_handler::BiStreamRequestHandler::do_handle")

