"""C01 — Peer identity is cryptographically authenticated."""
from .engine import AnchorLost, Undecidable
from .lib import *
from .mir import Origins, show, strip_identity, walk, name_matches, term_has_call, strip_generics

CR = "anemo::crypto"
CV = f"{CR}::CertVerifier"
EV = f"{CR}::ExpectedCertVerifier"
SRV = "rustls::verify::ServerCertVerifier"
CLI = "rustls::verify::ClientCertVerifier"

EXPLANATION = """
Decides that the chain "TLS proves possession of a key ⇒ PeerId is that key ⇒ handlers and callers see
that PeerId" has no bypass in anemo's own code: the only rustls verifier impls in the workspace are
CertVerifier (server+client) and ExpectedCertVerifier (server); all six verify_tls1{2,3}_signature bodies
return exactly rustls' own signature verification of their own (message, cert, dss) against the static
SUPPORTED_ALGORITHMS, which (with SUPPORTED_SIG_ALGS) evaluates to Ed25519 only;
HandshakeSignatureValid::assertion is never called and {Server,Client}CertVerified::assertion occur once
each, reachable only after webpki verify_for_usage succeeded on the presented end-entity certificate
with that same certificate as its one and only trust anchor (self-signed policy); client
authentication is mandatory and both quinn configs are built with these verifiers; PeerId(..) is minted
only from the SPKI of a certificate (plus serde value decoding), Connection.peer_id only from the
certificate the same quinn connection presented; raw wire headers carry no extensions or PeerId; the
inbound handler and the outbound RPC path insert Connection::peer_id() as the PeerId extension after
decoding, so nothing in a message can influence it; and the extension maps form a closed world: library
code only ever inserts into them (PeerId only at those verified sites, with the connection's id), never
extends/removes/clears/clones them, and the `extensions` fields are mutably reachable only through the two
accessor methods - nothing can overwrite the authenticated id after it was attached.
The certificate-to-PeerId extraction answers only with the key parsed from the certificate handed in and touches no shared state (no memo written from unverified input).
Every dial that knows whom it expects - the background dials of known peers included - is pinned to that identity (C03.7 shared).
"""
TRUSTED = ["rustls/webpki/ring/x509-parser cryptography and DER parsing", "quinn::Connection::peer_identity returns the chain rustls verified",
           "rustls rejects an empty client certificate chain when client auth is mandatory"]
NOT_DECIDED = ["single-byte-mutation robustness of third-party DER parsers (input-space exploration)", "correctness of the cryptographic primitives"]
ASSUMPTIONS = []


def run(cx):
    prog = cx.prog
    A = ["anemo"]

    with cx.ob("C01.1", "R-SHAPE", "the workspace's rustls verifier impls are exactly CertVerifier (server, client) and ExpectedCertVerifier (server)") as ob:
        ims = [(im["self_ty"], im["trait"]) for im in prog.impls if im["trait"] in (SRV, CLI)]
        ob.floor(ims, 3, "rustls verifier impls")
        want = {(CV, SRV), (CV, CLI), (EV, SRV)}
        for x in ims:
            ob.require(x in want, f"verifier-impl/{x[0]}/{x[1].split('::')[-1]}", f"unexpected certificate verifier impl {x[1]} for {x[0]}", x[0])
        ob.require(set(ims) == want, "verifier-impls/complete", f"verifier impls are {sorted(ims)}", CR)

    with cx.ob("C01.2", "R-MUSTPASS", "all six verify_tls1{2,3}_signature bodies return rustls' verification of their own (message, cert, dss) with SUPPORTED_ALGORITHMS") as ob:
        n = 0
        for ty, tr in ((CV, "ClientCertVerifier"), (CV, "ServerCertVerifier"), (EV, "ServerCertVerifier")):
            for ver in ("12", "13"):
                b = cx.impl_method(ty, tr, f"verify_tls{ver}_signature")
                n += 1
                t = Origins(b).of_local(0)
                ok = t[0] == "call" and name_matches(t[1], f"rustls::webpki::verify::verify_tls{ver}_signature") and len(t[2]) == 4 \
                    and is_param(t[2][0], "message") and is_param(t[2][1], "cert") and is_param(t[2][2], "dss") \
                    and strip_identity(t[2][3]) == ("static", f"{CR}::SUPPORTED_ALGORITHMS")
                ob.require(ok, f"sigverify/{ty.split('::')[-1]}/{tr}/tls{ver}", f"{b.path} returns {show(t)[:160]}", b.path, b.loc())
                rets = [s for bl in b.blocks if not bl.get("cleanup") for s in bl["s"] if s["k"] == "assign" and s["lhs"] == 0]
                # (the result may be handed on through a temporary - `let r = verify(..); r`, or a helper inlined here - but is
                # never built here: the origin above is that one call and not a join of alternatives)
                rets = [s for s in rets if not (s["rv"]["k"] == "use" and s["rv"]["op"].get("k") in ("move", "copy"))]
                ob.require(not rets and len([c for c in b.calls() if not b.is_cleanup(c.bb)]) == 1, f"sigverify/{ty.split('::')[-1]}/{tr}/tls{ver}/only-path",
                           f"{b.path} has another way to produce its result", b.path, b.loc())
        ob.floor(n, 6, "signature verification bodies", exact=True)

    with cx.ob("C01.3", "R-CALLERS", "HandshakeSignatureValid::assertion never called; {Server,Client}CertVerified::assertion once each, inside CertVerifier") as ob:
        check_no_calls(ob, prog, "rustls::verify::HandshakeSignatureValid::assertion", what="HandshakeSignatureValid::assertion")
        sv = cx.impl_method(CV, "ServerCertVerifier", "verify_server_cert")
        cl = cx.impl_method(CV, "ClientCertVerifier", "verify_client_cert")
        check_callers(ob, prog, "rustls::verify::ServerCertVerified::assertion", [sv.path], exact=1, what="ServerCertVerified::assertion")
        check_callers(ob, prog, "rustls::verify::ClientCertVerified::assertion", [cl.path], exact=1, what="ClientCertVerified::assertion")
        # positive control for the zero-match rule: the same matcher finds the sibling assertion
        ob.require(len(prog.callers_of("rustls::verify::ServerCertVerified::assertion")) == 1, "positive-control", "matcher for assertion() calls is blind", CR)

    with cx.ob("C01.4", "R-CONST", "supported algorithms are Ed25519 only") as ob:
        b = cx.body(f"{CR}::SUPPORTED_SIG_ALGS")
        t = strip_identity(Origins(b).of_local(0))
        ok = t[0] == "agg" and t[1] == "array" and len(t[3]) == 1 and strip_identity(t[3][0]) == ("static", "webpki::ring_algs::ED25519")
        ob.require(ok, "SUPPORTED_SIG_ALGS", f"SUPPORTED_SIG_ALGS = {show(t)}", b.path)
        b = cx.body(f"{CR}::SUPPORTED_ALGORITHMS")
        t = Origins(b).of_local(0)
        ok = t[0] == "agg" and t[2].endswith("WebPkiSupportedAlgorithms::WebPkiSupportedAlgorithms")
        if ok:
            f = dict(zip(t[4], t[3]))
            allv = strip_identity(f["all"])
            mp = strip_identity(f["mapping"])
            ok = allv == ("static", f"{CR}::SUPPORTED_SIG_ALGS") and mp[0] == "agg" and mp[1] == "array" and len(mp[3]) == 1
            if ok:
                pair = mp[3][0]
                ok = pair[0] == "agg" and pair[1] == "tuple" and pair[3][0][0] == "agg" and pair[3][0][2].endswith("SignatureScheme::ED25519") \
                    and strip_identity(pair[3][1]) == ("static", f"{CR}::SUPPORTED_SIG_ALGS")
        ob.require(ok, "SUPPORTED_ALGORITHMS", f"SUPPORTED_ALGORITHMS = {show(t)}", b.path)
        for ty, tr in ((CV, "ClientCertVerifier"), (CV, "ServerCertVerifier"), (EV, "ServerCertVerifier")):
            b = cx.impl_method(ty, tr, "supported_verify_schemes")
            t = Origins(b).of_local(0)
            ok = t[0] == "call" and name_matches(t[1], "WebPkiSupportedAlgorithms::supported_schemes") and strip_identity(t[2][0]) == ("static", f"{CR}::SUPPORTED_ALGORITHMS")
            ob.require(ok, f"supported_verify_schemes/{ty.split('::')[-1]}/{tr}", f"{b.path} returns {show(t)}", b.path)

    with cx.ob("C01.5", "R-EDGE", "assertion() only after verify_for_usage succeeded on the presented certificate with itself as the only trust anchor") as ob:
        for b, usage in ((sv, "server_auth"), (cl, "client_auth")):
            o = Origins(b)
            vf = b.calls_to("webpki::end_entity::EndEntityCert::verify_for_usage")
            ob.floor(vf, 1, f"verify_for_usage in {b.path}", exact=True)
            c = vf[0]
            a = [o.of_operand(x) for x in c.args]

            def from_prepare(t, idx):
                s = strip_identity(t)
                # field idx of Continue payload of prepare_for_self_signed(end_entity, intermediates)
                return any(x[0] == "field" and x[2] == str(idx) and x[1][0] == "field" and x[1][1][0] == "variant" and x[1][1][2] == "Continue"
                           and term_has_call(x, f"{CR}::prepare_for_self_signed") for x in walk(t))
            pcs = b.calls_to(f"{CR}::prepare_for_self_signed")
            ob.floor(pcs, 1, f"prepare_for_self_signed in {b.path}", exact=True)
            ob.require(is_param(arg_origin(pcs[0], 0, o), "end_entity") and is_param(arg_origin(pcs[0], 1, o), "intermediates"),
                       f"{usage}/prepare-args", f"prepare_for_self_signed({show(arg_origin(pcs[0], 0, o))}, ..)", b.path)
            ob.require(from_prepare(a[0], 0), f"{usage}/cert", f"verify_for_usage receiver is {show(a[0])[:100]}", b.path, b.loc(c.bb))
            ob.require(strip_identity(a[1]) == ("static", f"{CR}::SUPPORTED_SIG_ALGS"), f"{usage}/algs", f"verify_for_usage algorithms: {show(a[1])}", b.path, b.loc(c.bb))
            ob.require(from_prepare(a[2], 2), f"{usage}/roots", f"verify_for_usage trust roots: {show(a[2])[:100]}", b.path, b.loc(c.bb))
            ob.require(from_prepare(a[3], 1), f"{usage}/chain", f"verify_for_usage intermediates: {show(a[3])[:100]}", b.path, b.loc(c.bb))
            ob.require(is_param(a[4], "now"), f"{usage}/time", f"verify_for_usage time: {show(a[4])}", b.path, b.loc(c.bb))
            ku = strip_identity(a[5])
            ob.require(ku[0] == "call" and name_matches(ku[1], f"webpki::verify_cert::KeyUsage::{usage}"), f"{usage}/key-usage", f"key usage: {show(ku)}", b.path, b.loc(c.bb))
            # the assertion site consumes the Continue payload of (verify_for_usage(..).map_err(..))?
            asserts = [x for k in [b] + prog.children(b) for x in k.calls() if name_matches(x.fn, ("ServerCertVerified::assertion", "ClientCertVerified::assertion"))]
            ob.floor(asserts, 1, f"assertion site for {usage}", exact=True)
            ac = asserts[0]
            if ac.body is b:
                # direct: every path from entry to the assertion passes the Continue edge of the verify_for_usage `?`
                sws = find_switch_on(b, lambda s: s[0] == "discr" and strip_identity(s[1])[0] == "call" and name_matches(strip_identity(s[1])[1], "Try::branch")
                                     and term_has_call(s, "EndEntityCert::verify_for_usage"), o)
                ob.floor(sws, 1, "`?` on verify_for_usage", exact=True)
                cont = [t for t, ls in sws[0][2].items() if "Continue" in ls]
                ob.require(len(cont) == 1 and b.dominates(cont[0], ac.bb), f"{usage}/assert-after-verify", f"{b.path}: assertion() not dominated by verify_for_usage success", b.path, b.loc(ac.bb))
            else:
                # via Result::map(closure): receiver chain must contain the verified cert's name check
                maps = [x for x in b.calls_to("core::result::Result::map") if o.of_operand(x.args[1])[0] == "agg" and o.of_operand(x.args[1])[2] == ac.body.path]
                ob.floor(maps, 1, "Result::map(|_| assertion())", exact=True)
                rt = o.of_operand(maps[0].args[0])
                ok = term_has_call(rt, "EndEntityCert::verify_is_valid_for_subject_name") and term_has_call(rt, "EndEntityCert::verify_for_usage") \
                    and any(x[0] == "variant" and x[2] == "Continue" and term_has_call(x, "EndEntityCert::verify_for_usage") for x in walk(rt)) and maps[0].dest == 0
                ob.require(ok, f"{usage}/assert-after-verify", f"{b.path}: assertion() mapped over {show(rt)[:120]}", b.path, b.loc(maps[0].bb))
                ob.require(len([x for x in ac.body.calls() if not ac.body.is_cleanup(x.bb)]) == 1, f"{usage}/assert-closure", "assertion closure does more than assert", ac.body.path)
        # prepare_for_self_signed: EndEntityCert and the only trust anchor both come from the same presented certificate
        pb = cx.body(f"{CR}::prepare_for_self_signed")
        po = Origins(pb)
        tf = [c for c in pb.calls() if name_matches(c.fn, "TryFrom::try_from") and c.ga and c.ga[0].startswith("webpki::end_entity::EndEntityCert")]
        an = pb.calls_to("webpki::trust_anchor::anchor_from_trusted_cert")
        ob.floor(tf, 1, "EndEntityCert::try_from", exact=True)
        ob.floor(an, 1, "anchor_from_trusted_cert", exact=True)
        ob.require(is_param(arg_origin(tf[0], 0, po), "end_entity") and is_param(arg_origin(an[0], 0, po), "end_entity"), "prepare/same-cert",
                   "end-entity cert and trust anchor are not derived from the same certificate", pb.path)
        rets = [s for bl in pb.blocks if not bl.get("cleanup") for s in bl["s"] if s["k"] == "assign" and s["lhs"] == 0 and s["rv"].get("variant") == "Ok"]
        ob.floor(rets, 1, "Ok return in prepare_for_self_signed", exact=True)
        t = po.of_rvalue(rets[0]["rv"])[3][0]
        ok = t[0] == "agg" and t[1] == "tuple" and term_has_call(t[3][0], "TryFrom::try_from") and is_param(t[3][1], "intermediates")
        ob.require(ok, "prepare/returns", f"prepare_for_self_signed returns {show(t)[:160]}", pb.path)
        # roots vector: built from exactly one element = that anchor (vec![root])
        arrs = [s for bl in pb.blocks if not bl.get("cleanup") for s in bl["s"] if s["k"] == "assign" and s["rv"]["k"] == "agg" and s["rv"]["ak"] == "array"]
        ok = len(arrs) == 1 and len(arrs[0]["rv"]["ops"]) == 1 and term_has_call(po.of_operand(arrs[0]["rv"]["ops"][0]), "anchor_from_trusted_cert")
        ob.require(ok, "prepare/single-anchor", "trust roots are not exactly vec![anchor of the presented certificate]", pb.path)
        ob.require(not [c for c in pb.calls() if name_matches(c.fn, ("Vec::push", "Vec::extend", "Vec::append", "Vec::insert", "Vec::extend_from_slice"))],
                   "prepare/no-extra-roots", "prepare_for_self_signed adds further trust roots", pb.path)

    with cx.ob("C01.6", "R-CONST", "client auth offered and mandatory; both TLS configs are built with anemo's verifiers") as ob:
        for m in ("client_auth_mandatory", "offer_client_auth"):
            b = cx.impl_method(CV, "ClientCertVerifier", m)
            rets = [s for bl in b.blocks if not bl.get("cleanup") for s in bl["s"] if s["k"] == "assign" and s["lhs"] == 0]
            ok = rets and all(s["rv"]["k"] == "use" and s["rv"]["op"].get("k") == "const" and s["rv"]["op"].get("int") == 1 for s in rets) \
                and not [c for c in b.calls() if not b.is_cleanup(c.bb)]
            ob.require(ok, f"{m}/true", f"{b.path} does not return the constant true", b.path, b.loc())
        check_no_calls(ob, prog, ("with_no_client_auth",), what="with_no_client_auth")
        wc = prog.callers_of("with_client_cert_verifier", crates=A)
        ob.floor(wc, 1, "with_client_cert_verifier sites", exact=True)
        casts = []
        for c in wc:
            ob.require(c.body.path == "anemo::config::EndpointConfigBuilder::server_config", "server-verifier/site", f"with_client_cert_verifier in {c.body.path}", c.body.path)
            t = arg_origin(c, 1)
            ob.require(any(x[0] == "cast" and is_param(x[1], "cert_verifier") for x in walk(t)) or is_param(t, "cert_verifier"), "server-verifier/arg",
                       f"client cert verifier is {show(t)}", c.body.path, c.body.loc(c.bb))
            ob.require(c.body.local_ty(2 + 1) == f"alloc::sync::Arc<{CV}>" if c.body.local_name(3) == "cert_verifier" else
                       any(l.get("name") == "cert_verifier" and l["ty"] == f"alloc::sync::Arc<{CV}>" for l in c.body.locals), "server-verifier/type",
                       "cert_verifier parameter is not Arc<CertVerifier>", c.body.path)
        wv = prog.callers_of("with_custom_certificate_verifier", crates=A)
        ob.floor(wv, 2, "with_custom_certificate_verifier sites", exact=True)
        for c in wv:
            o = Origins(c.body)
            t = o.of_operand(c.args[1])
            cs = [x for x in walk(t) if x[0] == "cast"]
            src = None
            # source type(s) of the unsize coercion (a helper taking `Arc<dyn ServerCertVerifier>` re-coerces the trait object:
            # that step has no concrete source and is skipped)
            srcs = []
            for bl in c.body.blocks:
                for s in bl["s"]:
                    if s["k"] == "assign" and s["rv"]["k"] == "cast" and "Unsize" in s["rv"]["ck"] and "ServerCertVerifier" in s["rv"]["to"] and "dyn " not in str(s["rv"]["from"]):
                        srcs.append(s["rv"]["from"])
            src = srcs[0] if srcs and all(x_ in (f"alloc::sync::Arc<{CV}>", f"alloc::sync::Arc<{EV}>") for x_ in srcs) else (srcs[-1] if srcs else None)
            ob.require(src in (f"alloc::sync::Arc<{CV}>", f"alloc::sync::Arc<{EV}>"), f"client-verifier/type/{owner_path(prog, c.body)}",
                       f"{c.body.path}: server cert verifier has type {src}", c.body.path, c.body.loc(c.bb))
        # every rustls config anemo builds goes through its verifiers on every successful path
        for bname, vname in (("rustls::client::client_conn::ClientConfig::builder_with_provider", "with_custom_certificate_verifier"),
                             ("rustls::server::server_conn::ServerConfig::builder_with_provider", "with_client_cert_verifier")):
            for c in prog.callers_of((bname, bname.replace("builder_with_provider", "builder"), bname.replace("builder_with_provider", "builder_with_protocol_versions")), crates=A):
                bdy = c.body
                vs = bdy.calls_to(vname)
                goods = []
                for i, bl in enumerate(bdy.blocks):
                    if bl.get("cleanup") or bl["t"]["k"] != "return":
                        continue
                    goods.append(i)
                # returns reachable from the builder call without passing a verifier installation, that produce a config (not an Err propagation)
                reach = bdy.reachable_from(c.bb, avoid=[v.bb for v in vs])
                leaking = []
                for i in reach:
                    for s_ in bdy.blocks[i]["s"]:
                        if s_["k"] == "assign" and s_["lhs"] == 0 and s_["rv"]["k"] == "agg" and s_["rv"].get("variant") == "Ok":
                            leaking.append(i)
                    t_ = bdy.blocks[i]["t"]
                    if t_["k"] == "call" and t_.get("dest") == 0 and not name_matches(strip_generics(t_["func"].get("fn", "")), "FromResidual::from_residual"):
                        leaking.append(i)
                ob.require(bool(vs) and not leaking, f"tls-config/verifier-on-all-paths/{owner_path(prog, bdy)}",
                           f"{bdy.path}: a TLS config is produced without {vname} on some path", bdy.path, bdy.loc(c.bb))
        check_no_calls(ob, prog, ("with_root_certificates", "with_webpki_verifier", "with_platform_verifier"), crates=A, what="CA-based verifier")
        # the only quinn endpoint anemo creates is the one in Endpoint::new (no second listener with other verifiers)
        for ctor in ("quinn::endpoint::Endpoint::new", "quinn::endpoint::Endpoint::server", "quinn::endpoint::Endpoint::client", "quinn::endpoint::Endpoint::new_with_abstract_socket"):
            for c in prog.callers_of(ctor, crates=A):
                ob.require(c.body.path == "anemo::endpoint::Endpoint::new", f"endpoint-ctor/{owner_path(prog, c.body)}", f"a quinn endpoint is created in {c.body.path}", c.body.path, c.body.loc(c.bb))
        for c in prog.callers_of(("quinn::endpoint::Endpoint::set_server_config", "quinn::endpoint::Endpoint::set_default_client_config"), crates=A):
            ob.fail("refuted", f"endpoint-reconfig/{owner_path(prog, c.body)}", f"{c.body.path} replaces the endpoint's TLS configuration", c.body.path, c.body.loc(c.bb))
        # server_config is what Endpoint::new installs
        eb = cx.body("anemo::endpoint::Endpoint::new")
        qn = eb.calls_to("quinn::endpoint::Endpoint::new")
        ob.floor(qn, 1, "quinn::Endpoint::new", exact=True)
        t = arg_origin(qn[0], 1)
        ob.require(term_has_call(t, "anemo::config::EndpointConfig::server_config"), "endpoint/server-config", f"quinn endpoint server config is {show(t)[:100]}", eb.path)

    with cx.ob("C01.7", "R-WRITERS", "PeerId minted only from a certificate's SPKI; Connection.peer_id only from the same quinn connection's verified chain") as ob:
        check_constructed_only_in(ob, prog, "anemo::types::peer_id::PeerId",
                                  [f"{CR}::peer_id_from_certificate", "<anemo::types::peer_id::PeerId as serde_core::de::Deserialize<'de>>::deserialize",
                                   "<anemo::types::peer_id::PeerId as serde::de::Deserialize<'de>>::deserialize", "<anemo::types::peer_id::PeerId as core::clone::Clone>::clone"],
                                  crates=["anemo"])
        check_field_writers(ob, prog, "anemo::types::peer_id::PeerId", "0", [], crates=["anemo"], kinds=("mutref", "write"))
        pb = cx.body(f"{CR}::peer_id_from_certificate")
        po = Origins(pb)
        aggs = [s for bl in pb.blocks if not bl.get("cleanup") for s in bl["s"] if s["k"] == "assign" and s["rv"]["k"] == "agg" and s["rv"].get("adt") == "anemo::types::peer_id::PeerId"]
        ob.floor(aggs, 1, "PeerId(..) in peer_id_from_certificate", exact=True)
        t = po.of_rvalue(aggs[0]["rv"])[3][0]
        ok = t[0] == "call" and name_matches(t[1], "ed25519::pkcs8::PublicKeyBytes::to_bytes") and term_has_call(t, "DecodePublicKey::from_public_key_der") \
            and term_has_call(t, "TbsCertificate::public_key") and term_has_call(t, "FromDer::from_der") and mentions_param(t, "certificate")
        ob.require(ok, "peer_id_from_certificate/flow", f"PeerId built from {show(t)[:160]}", pb.path)
        # ... and that is the only thing the function ever answers with: a pure function of the certificate handed in (no memo,
        # no table keyed by some other part of the certificate, no state written from unverified input)
        r0 = po.of_local(0)
        okv = [x for x in walk(r0) if x[0] == "agg" and str(x[2]).endswith("Result::Ok")]
        pure = bool(okv) and all(strip_identity(x[3][0])[0] == "agg" and str(strip_identity(x[3][0])[2]).endswith("PeerId::PeerId") and mentions_param(x[3][0], "certificate")
                                 and term_has_call(x[3][0], "TbsCertificate::public_key") for x in okv)
        ob.require(pure, "peer_id_from_certificate/only-answer", f"peer_id_from_certificate can answer with something other than the key parsed from this certificate: {show(r0)[:200]}", pb.path)
        statics = [c for b_ in [pb] + list(prog.children(pb)) for c in b_.calls() if not b_.is_cleanup(c.bb) and name_matches(c.fn, ("OnceLock::get_or_init", "LazyLock::force", "Lazy::force", "OnceCell::get_or_init", "Mutex::lock", "RwLock::read", "RwLock::write"))]
        ob.require(not statics, "peer_id_from_certificate/stateless", f"peer_id_from_certificate touches shared state ({[c.fn.split('::')[-1] for c in statics][:3]})", pb.path)
        # Connection
        check_constructed_only_in(ob, prog, "anemo::connection::Connection", ["anemo::connection::Connection::new", "<anemo::connection::Connection as core::clone::Clone>::clone"])
        check_field_writers(ob, prog, "anemo::connection::Connection", "peer_id", [], kinds=("mutref", "write"))
        nb = cx.body("anemo::connection::Connection::new")
        no = Origins(nb)
        aggs = [s for bl in nb.blocks if not bl.get("cleanup") for s in bl["s"] if s["k"] == "assign" and s["rv"]["k"] == "agg" and s["rv"].get("adt") == "anemo::connection::Connection"]
        ob.floor(aggs, 1, "Connection aggregate", exact=True)
        t = no.of_rvalue(aggs[0]["rv"])
        f = dict(zip(t[4], t[3]))
        pid = f["peer_id"]
        # on every way of producing it (a join of alternatives is accepted only if each one is the id read from this connection)
        palts = list(strip_identity(pid)[1]) if strip_identity(pid)[0] == "phi" else [pid]
        ok = is_param(f["inner"], "inner") and all(term_has_call(a_, "anemo::connection::Connection::try_peer_id") and mentions_param(a_, "inner")
                                                   and any(x[0] == "variant" and x[2] in ("Continue", "Ok") for x in walk(a_)) for a_ in palts)
        ob.require(ok, "Connection::new/peer-id-of-same-connection", f"Connection::new builds {show(t)[:200]}", nb.path)
        tb = cx.body("anemo::connection::Connection::try_peer_id")
        to = Origins(tb)
        pc = tb.calls_to(f"{CR}::peer_id_from_certificate")
        ob.floor(pc, 1, "peer_id_from_certificate in try_peer_id", exact=True)
        t = strip_identity(arg_origin(pc[0], 0, to))
        ok = t[0] == "call" and name_matches(t[1], "ops::index::Index::index") and int_of(t[2][1]) == 0 and term_has_call(t, "quinn::connection::Connection::peer_identity") \
            and mentions_param(t, "connection")
        ob.require(ok, "try_peer_id/first-cert-of-peer-identity", f"try_peer_id derives the id from {show(t)[:160]}", tb.path)
        # returns exactly what peer_id_from_certificate returned (Ok ↦ Ok(that id), Err ↦ Err), whether written `let x = f()?; Ok(x)`,
        # `f().map_err(Into::into)` or a match
        tab = function_cases(prog, tb, lambda t_: ("pid", "result") if t_[0] == "call" and name_matches(t_[1], f"{CR}::peer_id_from_certificate") else None)
        ok = table_lookup(tab, pid="Ok") == {"Ok"} and table_lookup(tab, pid="Err") == {"Err"}
        r0 = to.of_local(0)
        oks = [x for x in walk(r0) if x[0] == "agg" and str(x[2]).endswith("Result::Ok")]
        ok = ok and all(term_has_call(x, f"{CR}::peer_id_from_certificate") for x in oks) and term_has_call(r0, f"{CR}::peer_id_from_certificate")
        ob.require(ok, "try_peer_id/returns", f"try_peer_id returns something else: cases {sorted((sorted(k), sorted(v)) for k, v in tab.items())}", tb.path)
        gb = cx.body("anemo::connection::Connection::peer_id")
        t = strip_identity(Origins(gb).of_local(0))
        ob.require(t[0] == "field" and t[2] == "peer_id" and is_param(t[1], "self"), "Connection::peer_id/getter", f"Connection::peer_id returns {show(t)}", gb.path)
        check_callers(ob, prog, "anemo::connection::Connection::try_peer_id", ["anemo::connection::Connection::new"], exact=1, what="Connection::try_peer_id")

    with cx.ob("C01.8", "R-SHAPE", "raw wire headers carry no extensions / PeerId; decoded headers start with default (empty) extensions") as ob:
        from . import c07
        sub = cx.__class__("C01", prog, cx.tier, cx.config, cx.tree, repo=cx.repo)
        c07.run(sub)
        w = [x for x in sub.obs if x.oid == "C07.4"]
        ob.count(w[0].evals if w else 0)
        ob.require(bool(w) and not w[0].violations, "raw-headers", "raw header shape / from_raw rules of C07.4 are refuted: " + "; ".join(v.msg for v in (w[0].violations if w else []))[:300],
                   "anemo::types::request::RawRequestHeader")

    with cx.ob("C01.9", "R-MUSTPASS", "the PeerId extension seen by handlers/callers is Connection::peer_id(), inserted after decoding and before dispatch/return") as ob:
        hb = cx.coroutine("anemo::network::request_handler::BiStreamRequestHandler::do_handle")
        ho = Origins(hb)
        ins = [c for c in hb.calls() if name_matches(c.fn, "http::extensions::Extensions::insert") and c.ga == ["anemo::types::peer_id::PeerId"] and not hb.is_cleanup(c.bb)]
        if not ins:
            ob.refute_and_stop("inbound/peer-id-attached", "do_handle never attaches the authenticated sender (Extensions::insert::<PeerId>) to the decoded request: handlers and "
                               "authorization layers see no peer id at all", hb.path)
        ob.floor(ins, 1, "Extensions::insert::<PeerId> in do_handle", exact=True)
        v = strip_identity(arg_origin(ins[0], 1, ho))
        ok = v[0] == "call" and name_matches(v[1], "anemo::connection::Connection::peer_id") and mentions_field(v, "connection") and mentions_upvar(v, "self")
        ob.require(ok, "inbound/value", f"inbound PeerId extension value is {show(v)}", hb.path, hb.loc(ins[0].bb))
        tgt = arg_origin(ins[0], 0, ho)
        ob.require(term_has_call(tgt, "Request::extensions_mut") and term_has_call(tgt, "anemo::network::wire::read_request"), "inbound/target",
                   f"PeerId inserted into {show(tgt)[:100]}", hb.path)
        one = hb.calls_to("tower::util::ServiceExt::oneshot")
        ob.floor(one, 1, "oneshot in do_handle", exact=True)
        ob.require(hb.dominates(ins[0].bb, one[0].bb), "inbound/before-dispatch", "PeerId insert does not dominate the service call", hb.path, hb.loc(one[0].bb))
        rq = arg_origin(one[0], 1, ho)
        ob.require(term_has_call(rq, "anemo::network::wire::read_request"), "inbound/dispatches-decoded-request", f"oneshot request is {show(rq)[:100]}", hb.path)
        # no other PeerId insert between the authenticated insert and dispatch (later inserts would override)
        between = [c for c in hb.calls() if name_matches(c.fn, ("Extensions::insert", "Extensions::remove", "Extensions::clear", "Extensions::extend", "Extensions::get_mut"))
                   and c is not ins[0] and ("PeerId" in str(c.ga)) and not hb.is_cleanup(c.bb)]
        ob.require(not between, "inbound/no-override", f"another PeerId extension write in do_handle at {[hb.loc(c.bb) for c in between]}", hb.path)
        # outbound: do_rpc inserts self.peer_id() into the decoded response before returning Ok
        rb = cx.coroutine("anemo::network::peer::Peer::do_rpc")
        ro = Origins(rb)
        ins = [c for c in rb.calls() if name_matches(c.fn, "http::extensions::Extensions::insert") and c.ga == ["anemo::types::peer_id::PeerId"] and not rb.is_cleanup(c.bb)]
        ob.floor(ins, 1, "Extensions::insert::<PeerId> in do_rpc", exact=True)
        v = strip_identity(arg_origin(ins[0], 1, ro))
        ob.require(v[0] == "call" and name_matches(v[1], "anemo::network::peer::Peer::peer_id") and mentions_upvar(v, "self"), "outbound/value",
                   f"response PeerId extension value is {show(v)}", rb.path)
        tgt = arg_origin(ins[0], 0, ro)
        ob.require(term_has_call(tgt, "Response::extensions_mut") and term_has_call(tgt, "anemo::network::wire::read_response"), "outbound/target",
                   f"PeerId inserted into {show(tgt)[:100]}", rb.path)
        # every place that wraps the decoded response into the Ok result (directly into the return slot, or in a helper whose
        # result is returned) comes after the insert
        oks = [i for i, bl in enumerate(rb.blocks) if not bl.get("cleanup") for s in bl["s"]
               if s["k"] == "assign" and s["rv"]["k"] == "agg" and s["rv"].get("variant") == "Ok" and str(s["rv"].get("adt", "")).endswith("result::Result")
               and (s["lhs"] == 0 or term_has_call(ro.of_rvalue(s["rv"]), "anemo::network::wire::read_response"))]
        # (an Ok that only re-wraps the payload of another Ok built in this body - `helper(..).await?` after inlining - is judged
        # at that inner site: dominance cannot see that the `?` continues only on the helper's Ok)
        def rewraps(i_):
            for s_ in rb.blocks[i_]["s"]:
                if s_["k"] == "assign" and s_["rv"]["k"] == "agg" and s_["rv"].get("variant") == "Ok":
                    return any(x[0] == "agg" and str(x[2]).endswith("Result::Ok") for op_ in s_["rv"]["ops"] for x in walk(ro.of_operand(op_)))
            return False
        oks = [k_ for k_ in oks if not rewraps(k_)]
        ob.require(len(oks) >= 1 and all(rb.dominates(ins[0].bb, k_) for k_ in oks), "outbound/before-return", "PeerId insert does not dominate Ok(response)", rb.path)
        pb = cx.body("anemo::network::peer::Peer::peer_id")
        t = strip_identity(Origins(pb).of_local(0))
        ob.require(t[0] == "call" and name_matches(t[1], "anemo::connection::Connection::peer_id") and mentions_field(t, "connection"), "Peer::peer_id",
                   f"Peer::peer_id returns {show(t)}", pb.path)
        # Peer::call: request extension = self.peer_id() too
        cb = cx.impl_method("anemo::network::peer::Peer", "Service", "call")
        co = Origins(cb)
        ins = [c for c in cb.calls() if name_matches(c.fn, "http::extensions::Extensions::insert") and c.ga == ["anemo::types::peer_id::PeerId"] and not cb.is_cleanup(c.bb)]
        ob.floor(ins, 1, "Extensions::insert::<PeerId> in Peer::call", exact=True)
        v = strip_identity(arg_origin(ins[0], 1, co))
        ob.require(v[0] == "call" and name_matches(v[1], "anemo::network::peer::Peer::peer_id"), "outbound-request/value", f"outbound request PeerId is {show(v)}", cb.path)
        # accessor reads the PeerId extension
        for p in ("anemo::types::request::Request::peer_id", "anemo::types::response::Response::peer_id"):
            b = cx.body(p)
            gets = [c for c in b.calls() if name_matches(c.fn, "Extensions::get")]
            ob.require(len(gets) == 1 and gets[0].ga == ["anemo::types::peer_id::PeerId"], f"{p}/accessor", f"{p} does not read Extensions::get::<PeerId>", b.path)

    with cx.ob("C01.10", "R-CALLERS", "closed world of extension writes: library code only ever *inserts* into request/response extensions, PeerId only at the three verified sites; no extend/remove/clear/replace that could overwrite the authenticated id") as ob:
        EXT = "http::extensions::Extensions::"
        READ_ONLY = ("get", "new", "is_empty", "len")
        PEERID_SITES = ("anemo::network::peer::Peer::do_rpc", "anemo::network::request_handler::BiStreamRequestHandler::do_handle",
                        "<anemo::network::peer::Peer as tower_service::Service")
        n = 0
        for p, b in prog.bodies.items():
            if b.crate not in ("anemo", "anemo_tower"):
                continue
            for c in b.calls():
                if b.is_cleanup(c.bb) or not c.callee.startswith(EXT):
                    continue
                m = c.callee[len(EXT):]
                if m in READ_ONLY:
                    continue
                n += 1
                if m != "insert":
                    ob.fail("refuted", f"ext-write/{owner_path(prog, b)}/{m}", f"{p} calls Extensions::{m}: extension entries (incl. the authenticated PeerId) can be overwritten or removed wholesale",
                            p, b.loc(c.bb))
                    continue
                ty = c.ga[0] if c.ga else "?"
                if ty == "anemo::types::peer_id::PeerId":
                    ob.require(p.startswith(PEERID_SITES), f"ext-write/{owner_path(prog, b)}/insert-PeerId", f"{p} inserts a PeerId extension outside the three verified sites", p, b.loc(c.bb))
                    v = strip_identity(arg_origin(c, 1, Origins(b)))
                    ob.require(v[0] == "call" and name_matches(v[1], ("anemo::connection::Connection::peer_id", "anemo::network::peer::Peer::peer_id")),
                               f"ext-write/{owner_path(prog, b)}/insert-PeerId-value", f"{p} inserts PeerId extension value {show(v)[:100]} (not the connection's authenticated id)", p, b.loc(c.bb))
                elif "::" not in ty:
                    # a value type chosen by whoever instantiates the helper: fine in user-invoked builders/middleware
                    # (the application's own doing), never on the transport path itself
                    transport = p.startswith(("anemo::network::", "<anemo::network::"))
                    ob.require(not transport, f"ext-write/{owner_path(prog, b)}/insert-generic",
                               f"{p} (transport path) inserts an extension of generic type {ty} (could be PeerId)", p, b.loc(c.bb))
                else:
                    ob.count(1)
        ob.floor(n, 14, "extension writes inspected")
        # the extension maps themselves are reachable mutably only through the two accessor methods
        for adt, acc in (("anemo::types::request::RequestHeader", "anemo::types::request::Request::extensions_mut"),
                         ("anemo::types::response::ResponseHeader", "anemo::types::response::Response::extensions_mut")):
            check_field_writers(ob, prog, adt, "extensions", [acc], kinds=("mutref", "write"))
        # Clone of an Extensions map is the other way to transplant a PeerId: never in library code
        cl = [(p, b.loc(c.bb)) for p, b in prog.bodies.items() if b.crate in ("anemo", "anemo_tower")
              for c in b.calls() if not b.is_cleanup(c.bb) and name_matches(c.fn, "Clone::clone") and c.ga and c.ga[0] == "http::extensions::Extensions"]
        ob.require(not cl, "ext-clone", f"Extensions map cloned at {cl[:3]}", cl[0][0] if cl else "")

    with cx.ob("C01.11", "R-MUSTPASS", "a dial that names an identity is reported established only after the pinned handshake: the connect API always sends the ConnectRequest (as C03.10) and the manager's mailbox arm always dials it (C08.2 re-evaluated)") as ob:
        from .c03 import check_connect_always_dials, check_dials_pinned, check_pin_verifier
        # the pin is compared with the key of the end-entity certificate - the one whose private key the handshake signature
        # proves - before anything is delegated (C03.3): a pin satisfied by some other certificate of the chain admits its replayer
        check_pin_verifier(ob, cx)
        check_connect_always_dials(ob, cx)
        # ... and every dial that knows whom it expects - the background dials of known peers included - is pinned to that
        # identity (C03.7): an answerer that cannot prove the expected key is never admitted under that dial
        check_dials_pinned(ob, cx)
        from . import c08
        sub = cx.__class__("C01", prog, cx.tier, cx.config, cx.tree, repo=cx.repo)
        c08.run(sub)
        w = [x for x in sub.obs if x.oid == "C08.2"]
        ob.count(sum(x.evals for x in w))
        bad = [v for x in w for v in x.violations if "loop/mailbox" in v.key]
        ob.require(len(w) == 1 and not bad, "pinned-dial/always-handshakes", "a pinned dial can be answered without the handshake that proves the key: " + "; ".join(str(v.msg) for v in bad)[:300], "anemo::network::connection_manager::ConnectionManager::start")
