"""C19 — Per-peer rate limit admits no more than the quota."""
from .engine import AnchorLost, Undecidable
from .lib import *
from .mir import Origins, show, strip_identity, walk, name_matches, term_has_call

M = "anemo_tower::rate_limit"

EXPLANATION = """
Decides that every request passes the keyed limiter before the wrapped service and that refusals never
forward: in RateLimit::call's future the limiter key is the request's authenticated sender, the
limiter is the layer's shared Arc<RateLimiter<PeerId, ..>> (a keyed limiter: per-peer state; layer()
clones the Arc, never builds a new limiter), Block ↦ await until_key_ready(sender) then inner.call,
ReturnError ↦ check_key(sender): the Err(e) edge returns Err(Status(TooManyRequests).with_header(
"wait-nanos", e.wait_time_from(clock.now()).as_nanos())) and cannot reach inner.call, the Ok edge
proceeds; inner.call occurs exactly once and only behind those edges; a missing sender is an internal
error before anything else.
One layer out: clones share the keyed limiter and clock, poll_ready only delegates, PeerId equality/hash are derived.
Generated servers stack a per-method layer on those already installed (add_layer_for_* of the code generated from the current templates).
"""
TRUSTED = ["governor's GCRA quota arithmetic and keyed state store", "governor NotUntil::wait_time_from is positive for a refused cell"]
NOT_DECIDED = ["the numeric quota bound over time windows (governor)", "positivity of the wait hint", "concurrent arrival interleavings inside governor"]
ASSUMPTIONS = []


def run(cx):
    prog = cx.prog
    call = cx.impl_method(f"{M}::RateLimit", "Service", "call")
    kids = [k for k in prog.children(call) if k.coroutine]
    co = kids[0] if len(kids) == 1 else None

    with cx.ob("C19.1", "R-FLOW", "limiter is the layer's shared keyed limiter; key = the request's authenticated sender") as ob:
        ob.floor(kids, 1, "async block of RateLimit::call", exact=True)
        o = Origins(co)
        n = 0
        for c in co.calls_to(("governor::state::keyed::future::until_key_ready", "governor::state::keyed::check_key")):
            n += 1
            k = strip_identity(arg_origin(c, 1, o))
            kr = payload_root(k)
            ok = kr[0] == "call" and name_matches(kr[1], "anemo::types::request::Request::peer_id") and mentions_upvar(kr, "req") and kr is not k
            ob.require(ok, f"key/{c.fn.split('::')[-1]}", f"{c.fn.split('::')[-1]} key is {show(k)[:100]}", co.path, co.loc(c.bb))
            ob.require(mentions_upvar(arg_origin(c, 0, o), "limiter"), f"limiter/{c.fn.split('::')[-1]}", f"limiter is {show(arg_origin(c, 0, o))}", co.path)
        ob.floor(n, 2, "limiter check sites", exact=True)
        oc = Origins(call)
        agg = [s for bl in call.blocks if not bl.get("cleanup") for s in bl["s"] if s["k"] == "assign" and s["rv"]["k"] == "agg" and s["rv"]["ak"] == "coroutine"]
        ob.floor(agg, 1, "coroutine construction in call()", exact=True)
        t = oc.of_rvalue(agg[0]["rv"])
        names = [u["name"] for u in sorted(co.upvars, key=lambda u: u["place"]["p"][0]["f"])]
        cap = dict(zip(names, t[3]))
        ob.require(mentions_field(cap.get("limiter", ("u",)), "limiter") and mentions_param(cap["limiter"], "self") and term_has_call(cap["limiter"], "Clone::clone"),
                   "capture/limiter", f"captured limiter: {show(cap.get('limiter'))}", call.path)
        ob.require(mentions_field(cap.get("clock", ("u",)), "clock"), "capture/clock", f"captured clock: {show(cap.get('clock'))}", call.path)
        ob.require(mentions_field(cap.get("wait_mode", ("u",)), "wait_mode") and is_param(cap.get("req", ("u",)), "req"), "capture/mode-req", "wait_mode/req not captured from self/param", call.path)
        lb = cx.impl_method(f"{M}::RateLimitLayer", "Layer", "layer")
        t = Origins(lb).of_local(0)
        f = dict(zip(t[4], t[3])) if t[0] == "agg" else {}
        lim = f.get("limiter", ("u",))
        ok = mentions_field(lim, "limiter") and mentions_param(lim, "self") and term_has_call(lim, "Clone::clone") and not any(
            x[0] == "call" and ("keyed" in x[1] or "RateLimiter" in x[1]) for x in walk(lim))
        ob.require(ok, "layer/shared-limiter", f"layer() gives the service limiter {show(lim)}", lb.path)
        ob.require(is_param(f.get("inner", ("u",)), "inner") and mentions_field(f.get("wait_mode", ("u",)), "wait_mode"), "layer/config", f"layer() builds {show(t)[:120]}", lb.path)
        a = cx.adt(f"{M}::RateLimit")
        lt = [x["ty"] for x in a["variants"][0]["fields"] if x["name"] == "limiter"]
        ob.require(len(lt) == 1 and lt[0].startswith("alloc::sync::Arc<governor::state::RateLimiter<anemo::types::peer_id::PeerId,"), "shape/keyed-by-peer",
                   f"limiter type is {lt}", a["path"])
        nb = cx.body(f"{M}::RateLimitLayer::new")
        t = Origins(nb).of_local(0)
        f = dict(zip(t[4], t[3])) if t[0] == "agg" else {}
        lim = strip_identity(f.get("limiter", ("u",)))
        ob.require(lim[0] == "call" and name_matches(lim[1], ("governor::state::keyed::keyed", "governor::state::keyed::dashmap", "governor::state::keyed::dashmap_with_clock"))
                   and is_param(lim[2][0], "quota"), "layer-new/keyed-quota", f"RateLimitLayer::new limiter = {show(lim)}", nb.path)

    with cx.ob("C19.2", "R-TABLE", "Block ↦ await until_key_ready; ReturnError ↦ check_key, Err ⇒ TooManyRequests+wait-nanos and no forward; inner.call once behind the check") as ob:
        def call_sym(c, o):
            aw = await_target(c)
            if aw is not None:
                if aw.endswith("until_key_ready"):
                    return "await(until_ready)"
                if "tower_service::Service" in aw or aw.startswith("type:"):
                    return "await(inner)"
                return f"await(?{aw})"
            if name_matches(c.fn, "anemo::types::request::Request::peer_id"):
                return "sender?"
            if name_matches(c.fn, "anemo::rpc::Status::internal"):
                return "internal"
            if name_matches(c.fn, "governor::state::keyed::future::until_key_ready"):
                return "until_ready"
            if name_matches(c.fn, "governor::state::keyed::check_key"):
                return "check"
            if c.fn and c.fn.startswith("governor::") and not name_matches(c.fn, ("Clock::now", "NotUntil::wait_time_from")):
                return "gov?" + c.fn.split("::")[-1]
            if name_matches(c.fn, "tower_service::Service::call"):
                ok = strip_identity(o.of_operand(c.args[0])) == ("upvar", "inner") and strip_identity(o.of_operand(c.args[1])) == ("upvar", "req")
                return "inner.call(req)" if ok else "inner.call(?)"
            return None

        def extra(a, bb, subj, labels, o):
            lab = "|".join(sorted(labels))
            if subj[0] == "discr":
                r = strip_identity(subj[1])
                if r == ("upvar", "wait_mode"):
                    return "mode=" + lab
                if r[0] == "call" and name_matches(r[1], "governor::state::keyed::check_key"):
                    return "check=" + lab
            return None

        def stmt_sym(bbi, s, o):
            if s["lhs"] == 0:
                t = o.of_rvalue(s["rv"])
                if any(x[0] == "variant" and x[2] == "Ready" for x in walk(t)) and term_has_call(t, "tower_service::Service::call"):
                    return "ret=inner-result"
                if t[0] == "agg" and t[2].endswith("Result::Err"):
                    e = deep_payload(t[3][0])          # (also when a helper hands the refusal back as `Some(status)` / `Err(status)`)
                    ok = e[0] == "call" and name_matches(e[1], "anemo::rpc::Status::with_header")
                    if ok:
                        st, key, val = e[2]
                        st = strip_identity(st)
                        ok = st[0] == "call" and name_matches(st[1], "anemo::rpc::Status::new") and strip_identity(st[2][0])[0] == "agg" and strip_identity(st[2][0])[2].endswith("StatusCode::TooManyRequests")
                        kk = strip_identity(key)
                        ok = ok and kk[0] == "named" and kk[1].endswith("WAIT_NANOS_HEADER") and kk[2] == '"wait-nanos"'
                        pieces = format_term(co, o, val)
                        vs_ = strip_identity(val)
                        if pieces is None and vs_[0] == "call" and name_matches(vs_[1], ("alloc::string::ToString::to_string", "string::ToString::to_string")):
                            pieces = [("to_string", vs_[2][0])]         # `n.to_string()` == `format!("{}", n)`
                        ok = ok and pieces is not None and len(pieces) == 1 and isinstance(pieces[0], tuple)
                        if ok:
                            v = strip_identity(pieces[0][1])
                            ok = v[0] == "call" and name_matches(v[1], "Duration::as_nanos") and term_has_call(v, "NotUntil::wait_time_from") and term_has_call(v, "Clock::now") \
                                and mentions_upvar(v, "clock") and any(x[0] == "variant" and x[2] == "Err" and term_has_call(x, "check_key") for x in walk(v))
                    if not ok and e[0] == "call" and name_matches(e[1], "anemo::rpc::Status::internal"):
                        return None         # the missing-sender arm written out (`None => return Err(Status::internal(..))`): an error exit
                    return "ret=Err(TooManyRequests+wait-nanos)" if ok else "ret=Err(?)"
                return "ret=?"
            return None
        ws = {fmt_word(w) for w in seq_words(co, call_sym, stmt_sym, extra)}
        want = {
            "sender? internal !err <return>",
            "sender? mode=Block until_ready await(until_ready) inner.call(req) await(inner) ret=inner-result <return>",
            "sender? mode=ReturnError check check=Err ret=Err(TooManyRequests+wait-nanos) <return>",
            "sender? mode=ReturnError check check=Ok inner.call(req) await(inner) ret=inner-result <return>",
        }
        ob.count(len(ws))
        for w in sorted(ws - want):
            ob.fail("refuted", "call/unexpected-path/" + w.replace(" ", "_")[:150], f"{co.path}: unexpected behaviour `{w}`", co.path, co.loc(), path=w)
        for w in sorted(want - ws):
            ob.fail("refuted", "call/missing-path/" + w.replace(" ", "_")[:150], f"{co.path}: required behaviour `{w}` missing", co.path, co.loc(), path=w)
        if ws == want:
            ob.matched += len(ws)
        ob.set_sample({"body": co.path, "words": sorted(ws)})
        o = Origins(co)
        # (a missing sender is answered with Status::internal: the `internal` event of the first word above, whether the arm is
        #  an ok_or_else closure or a written-out `None => return Err(..)`)
        hb = cx.body(f"{M}::WAIT_NANOS_HEADER")
        ob.require(const_of(Origins(hb).of_local(0)) == '"wait-nanos"', "header-const", "WAIT_NANOS_HEADER != \"wait-nanos\"", hb.path)

    with cx.ob("C19.5", "R-SHAPE", "one layer out: clones of the rate limiter share the keyed limiter and its clock (field-by-field Clone) and poll_ready is the inner service's readiness only") as ob:
        for ty in ("anemo_tower::rate_limit::RateLimit", "anemo_tower::rate_limit::RateLimitLayer"):
            check_fieldwise_clone(ob, prog, ty)
        check_poll_ready_delegates(ob, prog, "anemo_tower::rate_limit::RateLimit")
        check_peer_id_identity_derived(ob, prog)
        check_generated_layer_stacking(ob, prog)          # (a per-method layer installed on a generated server stays installed)
