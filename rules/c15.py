"""C15 — Message size limits are exact, symmetric and confined to the RPC."""
import json
import os
import re
import subprocess

from .engine import AnchorLost, Undecidable
from .lib import *
from .mir import Origins, show, strip_identity, walk, name_matches, term_has_call
from . import facts

WIRE = "anemo::network::wire"
CODEC = f"{WIRE}::network_message_frame_codec"

EXPLANATION = """
Decides that the configured maximum frame size reaches the length-delimited codec exactly and
symmetrically: all four Framed{Read,Write} constructors (caller write/read in Peer::do_rpc, callee
read/write in BiStreamRequestHandler::new) take network_message_frame_codec(config) of the network's
own Config; inside that function the Some(n) edge calls Builder::max_frame_length with the payload
unchanged (no arithmetic) on the builder that produces the codec; on the None edge the rule demands
that tokio-util's built-in default limit (read from the dependency's source: Builder::new sets
max_frame_len) is lifted — this instance is refuted on the pinned tree and reported as a known
finding (documented 'no limit', actual 8 MiB). Confinement: no path from the RPC read/write functions
reaches Connection::close / Endpoint::close, and codec errors leave do_rpc / do_handle only through
`?` (the RPC's own Result).
One layer out: Config.max_frame_size is never rewritten after the Config was built and its accessor is a pure projection.
The codec's limit is never read back for a second size check outside the codec.
"""
TRUSTED = ["tokio-util enforces max_frame_len on both encode and decode (n > max ⇒ error)", "dropping anemo's SendStream wrapper resets the stream (C12)"]
NOT_DECIDED = ["exact boundary inside tokio-util (> vs >=)", "header-vs-body accounting", "latency of the failure"]
ASSUMPTIONS = []


def tokio_util_default_limit(repo=None):
    """Evaluate `max_frame_len: <expr>` in tokio-util's Builder::new from the dependency source the build uses."""
    r = subprocess.run(["cargo", "metadata", "--format-version", "1", "--offline"], cwd=repo or facts.REPO, stdout=subprocess.PIPE, stderr=subprocess.DEVNULL, text=True)
    if r.returncode != 0:
        raise Undecidable("cargo metadata failed")
    md = json.loads(r.stdout)
    pk = [p for p in md["packages"] if p["name"] == "tokio-util"]
    if len(pk) != 1:
        raise Undecidable(f"tokio-util packages in the build: {len(pk)}")
    src = os.path.join(os.path.dirname(pk[0]["manifest_path"]), "src", "codec", "length_delimited.rs")
    text = open(src).read()
    m = re.search(r"pub fn new\(\) -> Builder \{.*?max_frame_len:\s*([0-9_ *]+),", text, re.S)
    if not m:
        raise Undecidable("cannot find max_frame_len default in tokio-util Builder::new")
    expr = m.group(1).replace("_", "")
    val = 1
    for f in expr.split("*"):
        val *= int(f.strip())
    return val, pk[0]["version"]


def run(cx):
    prog = cx.prog

    with cx.ob("C15.1", "R-CALLERS", "all four Framed{Read,Write} constructors take network_message_frame_codec(own config)") as ob:
        sites = []
        for ctor in ("tokio_util::codec::framed_read::FramedRead::new", "tokio_util::codec::framed_write::FramedWrite::new"):
            sites += prog.callers_of(ctor, crates=["anemo"])
        ob.floor(sites, 4, "Framed{Read,Write}::new sites", exact=True)
        owners = sorted(owner_path(prog, c.body) for c in sites)
        ob.require(owners == sorted(["anemo::network::peer::Peer::do_rpc"] * 2 + ["anemo::network::request_handler::BiStreamRequestHandler::new"] * 2), "framed/owners",
                   f"Framed constructors are in {owners}", "anemo::network")
        for c in sites:
            o = Origins(c.body)
            t = strip_identity(arg_origin(c, 1, o))
            ok = t[0] == "call" and name_matches(t[1], CODEC)
            ob.require(ok, f"framed/codec/{owner_path(prog, c.body)}/{c.fn.split('::')[-2]}", f"{c.site()}: codec is {show(t)[:80]}", c.body.path, c.body.loc(c.bb))
            if ok:
                cfg = t[2][0]
                own = (mentions_field(cfg, "config") and mentions_upvar(cfg, "self")) or is_param(cfg, "config")
                ob.require(own, f"framed/config/{owner_path(prog, c.body)}/{c.fn.split('::')[-2]}", f"{c.site()}: codec config is {show(cfg)[:80]}", c.body.path, c.body.loc(c.bb))
        # BiStreamRequestHandler::new's config parameter is the handler's own config
        st = prog.callers_of("anemo::network::request_handler::BiStreamRequestHandler::new")
        ob.floor(st, 1, "BiStreamRequestHandler::new call", exact=True)
        t = arg_origin(st[0], 0)
        ob.require(mentions_field(t, "config") and mentions_upvar(t, "self"), "handler/config", f"BiStreamRequestHandler::new config is {show(t)[:80]}", st[0].body.path)
        ap = cx.body("anemo::network::connection_manager::ConnectionManager::add_peer")
        hn = ap.calls_to("anemo::network::request_handler::InboundRequestHandler::new")
        t = arg_origin(hn[0], 0)
        ob.require(mentions_field(t, "config") and mentions_param(t, "self"), "handler/manager-config", f"InboundRequestHandler::new config is {show(t)[:80]}", ap.path)
        check_callers(ob, prog, CODEC, ["anemo::network::peer::Peer::do_rpc", "anemo::network::request_handler::BiStreamRequestHandler::new"], exact=2, what="network_message_frame_codec")      # (each of the four constructor sites is checked above; a site may share one codec-producing closure)

    b = None
    with cx.ob("C15.2", "R-FLOW", "configured limit reaches Builder::max_frame_length unchanged, on the builder that makes the codec") as ob:
        b = cx.body(CODEC)
        o = Origins(b)

        def call_sym(c, oo):
            if name_matches(c.fn, "length_delimited::Builder::max_frame_length"):
                v = strip_identity(oo.of_operand(c.args[1]))
                r = strip_identity(oo.of_operand(c.args[0]))
                onb = r[0] == "call" and name_matches(r[1], "LengthDelimitedCodec::builder")
                if v[0] == "field" and v[1][0] == "variant" and v[1][2] == "Some" and term_has_call(v, "anemo::config::Config::max_frame_size") and onb:
                    return "max_frame_length(limit)"
                iv = int_of(v)
                if iv is None and v[0] == "named":
                    iv = int_of(v)
                if onb and (str(v).find("usize::MAX") >= 0 or (iv is not None and iv >= 2 ** 32 - 1)):
                    return "max_frame_length(unbounded)"
                return f"max_frame_length(?{show(v)[:40]})"
            if name_matches(c.fn, "length_delimited::Builder::new_codec"):
                r = oo.of_operand(c.args[0])
                return "ret=new_codec" if c.dest == 0 and term_has_call(r, "LengthDelimitedCodec::builder") else "new_codec(?)"
            if name_matches(c.fn, ("LengthDelimitedCodec::new", "LengthDelimitedCodec::set_max_frame_length")):
                return "codec?" + c.fn.split("::")[-1]
            return None

        def extra(a, bb, subj, labels, oo):
            if subj[0] == "discr" and term_has_call(subj[1], "anemo::config::Config::max_frame_size"):
                return "limit=" + "|".join(sorted(labels))
            return None
        ws = {fmt_word(w) for w in seq_words(b, call_sym, None, extra)}
        some = {w for w in ws if w.startswith("limit=Some")}
        ob.require(some == {"limit=Some max_frame_length(limit) ret=new_codec <return>"}, "codec/some-edge", f"configured-limit paths: {sorted(some)}", b.path, b.loc())
        ms = b.calls_to("anemo::config::Config::max_frame_size")
        ob.require(len(ms) == 1 and is_param(arg_origin(ms[0], 0, o), "config"), "codec/reads-config", "limit is not read from the config parameter", b.path)
        gb = cx.body("anemo::config::Config::max_frame_size")
        t = strip_identity(Origins(gb).of_local(0))
        ob.require(t[0] == "field" and t[2] == "max_frame_size" and is_param(t[1], "self"), "config/getter", f"Config::max_frame_size returns {show(t)}", gb.path)
        ob.set_sample({"body": b.path, "words": sorted(ws)})

    with cx.ob("C15.3", "R-MUSTPASS", "with no limit configured, the codec's built-in default limit is lifted (documented: no limit)") as ob:
        if b is None:
            raise AnchorLost("codec body")
        none = {w for w in ws if w.startswith("limit=None")}
        default, ver = tokio_util_default_limit(cx.repo)
        ob.note(f"tokio-util {ver}: Builder::new() max_frame_len = {default}")
        ob.count(len(none))
        lifted = none == {"limit=None max_frame_length(unbounded) ret=new_codec <return>"}
        unbounded_default = default >= 2 ** 32 - 1
        if not (lifted or unbounded_default):
            ob.fail("refuted", f"{CODEC}/none-edge-default-limit",
                    f"{b.path}: on the `max_frame_size() == None` edge the codec is built with tokio-util's default max_frame_len = {default} bytes "
                    f"(paths: {sorted(none)}); Config::max_frame_size documents 'If unspecified, there will be no limit'",
                    b.path, b.loc())
        else:
            ob.matched += 1

    with cx.ob("C15.4", "R-CALLERS", "size/codec errors stay inside the RPC: no close() reachable from the RPC read/write paths; errors leave only via `?`") as ob:
        entries = ["anemo::network::peer::Peer::do_rpc", "anemo::network::request_handler::BiStreamRequestHandler::do_handle",
                   f"{WIRE}::read_request", f"{WIRE}::read_response", f"{WIRE}::write_request", f"{WIRE}::write_response",
                   f"{WIRE}::read_version_frame", f"{WIRE}::write_version_frame", CODEC]
        for e in entries:
            cx.body(e)
        reach = prog.reachable_bodies(entries)
        ob.count(len(reach))
        for bad in ("anemo::connection::Connection::close", "anemo::endpoint::Endpoint::close", "anemo::network::connection_manager::ActivePeers::remove",
                    "anemo::network::connection_manager::ActivePeers::remove_with_stable_id"):
            ob.require(bad not in reach, f"confinement/{bad.split('::')[-2]}::{bad.split('::')[-1]}", f"{bad} is reachable from the RPC path via {reach.get(bad)}", bad)
        for p in reach:
            bb_ = prog.body(p)
            for c in bb_.calls():
                if name_matches(c.fn, ("quinn::connection::Connection::close", "quinn::endpoint::Endpoint::close")):
                    ob.fail("refuted", f"confinement/raw-close/{p}", f"{p} closes the connection/endpoint", p, bb_.loc(c.bb))
        # do_rpc / do_handle: results of the codec functions are consumed by `?` (Try::branch), nothing else
        for fn, steps in (("anemo::network::peer::Peer::do_rpc", ("write_request", "read_response")),
                          ("anemo::network::request_handler::BiStreamRequestHandler::do_handle", ("read_request", "write_response"))):
            co = cx.coroutine(fn)
            o = Origins(co)
            for st_ in steps:
                brs = [c for c in co.calls_to("Try::branch") if term_has_call(o.of_operand(c.args[0]), f"{WIRE}::{st_}")
                       and strip_identity(o.of_operand(c.args[0]))[0] in ("field", "variant")]
                if not brs:
                    # written out: `match step(..).await { Ok(v) => v, Err(e) => return Err(e) }` - on the Err arm nothing of the
                    # exchange continues (no further codec step, no dispatch) before the function returns
                    arms = []
                    for i_, bl_ in enumerate(co.blocks):
                        t_ = bl_["t"]
                        if bl_.get("cleanup") or t_["k"] != "switch":
                            continue
                        sj = o.of_operand(t_["discr"])
                        x_ = strip_identity(sj[1]) if sj[0] == "discr" else ("?",)
                        is_res = x_[0] == "field" and x_[2] == "0" and x_[1][0] == "variant" and x_[1][2] == "Ready"      # the awaited step's Result (0 = Ok, 1 = Err)
                        if is_res:
                            # ... of this step itself (not of a select! / join whose futures merely use the step's value)
                            pc_ = strip_identity(x_[1][1])
                            for _ in range(4):
                                # an inlined async helper hands the step's result on as `Poll::Ready(<result>)`: look through it
                                if pc_[0] == "agg" and str(pc_[2]).endswith("Poll::Ready") and len(pc_[3]) == 1:
                                    in_ = strip_identity(pc_[3][0])
                                    if in_[0] == "field" and in_[2] == "0" and in_[1][0] == "variant" and in_[1][2] == "Ready":
                                        pc_ = strip_identity(in_[1][1])
                                        continue
                                break
                            fut_ = strip_identity(pc_[2][0], extra=("Pin::new_unchecked", "IntoFuture::into_future", "pin::Pin::new")) if pc_[0] == "call" and pc_[2] else ("?",)
                            is_res = fut_[0] == "call" and name_matches(fut_[1], f"{WIRE}::{st_}")
                        if sj[0] == "discr" and is_res and term_has_call(sj[1], f"{WIRE}::{st_}") and not term_has_call(sj[1], "Try::branch") \
                                and not any(term_has_call(sj[1], f"{WIRE}::{x_}") for x_ in steps if x_ != st_):
                            labs = {str(l_) for l_, _ in t_["arms"]}
                            errs = [tg for l_, tg in t_["arms"] if str(l_) in ("Err", "1")]
                            if errs:
                                arms.append((i_, errs[0]))
                    cont = ("futures_util::sink::SinkExt::send", "futures_util::stream::stream::StreamExt::next", "tower::util::ServiceExt::oneshot", "tower_service::Service::call")
                    okm = bool(arms) and all(not any(c_.fn and (c_.fn.startswith(WIRE + "::") or name_matches(c_.fn, cont)) for bb_ in co.reachable_from(tg, succ=co.succ)
                                                     if not co.is_cleanup(bb_) for c_ in [co.call_at(bb_)] if c_ is not None) for _, tg in arms)
                    ob.require(okm, f"propagate/{fn.split('::')[-1]}/{st_}", f"{fn}: an error of {st_} does not end the exchange (neither `?` nor a match whose Err arm returns)", co.path)
                    continue
                ob.require(len(brs) >= 1, f"propagate/{fn.split('::')[-1]}/{st_}", f"{fn}: result of {st_} is not propagated with `?`", co.path)

    with cx.ob("C15.4b", "R-CALLERS", "the codec is the only place where sizes are compared with the limit: library code never reads the codec's limit back (max_frame_length getter) to run a size check of its own - a second check has its own boundary (`>=` vs `>`) and its own placement") as ob:
        rd = [c for c in prog.all_calls(crates=["anemo"]) if not c.body.is_cleanup(c.bb) and c.fn and name_matches(c.fn, "tokio_util::codec::length_delimited::LengthDelimitedCodec::max_frame_length")]
        for c in rd:
            ob.fail("refuted", f"limit-read-back/{owner_path(prog, c.body)}", f"{c.body.path} reads the codec's max_frame_length (a size check outside the codec)", c.body.path, c.body.loc(c.bb))
        st_ = [c for c in prog.all_calls(crates=["anemo"]) if not c.body.is_cleanup(c.bb) and c.fn and name_matches(c.fn, "tokio_util::codec::length_delimited::Builder::max_frame_length")]
        ob.floor(st_, 1, "Builder::max_frame_length (positive control of the matcher)")
        ob.count(len(st_))

    with cx.ob("C15.5", "R-CALLERS", "every header/body byte goes through the length-limited codec: raw stream reads/writes only for the 8-byte version preamble") as ob:
        n = 0
        for c in prog.all_calls(crates=["anemo"]):
            if c.body.is_cleanup(c.bb) or not c.fn:
                continue
            raw_w = name_matches(c.fn, "re:^tokio::io::util::async_write_ext::AsyncWriteExt::") or name_matches(c.fn, ("quinn::send_stream::SendStream::write", "quinn::send_stream::SendStream::write_all",
                                                                                                                   "quinn::send_stream::SendStream::write_chunk", "quinn::send_stream::SendStream::write_chunks"))
            raw_r = name_matches(c.fn, "re:^tokio::io::util::async_read_ext::AsyncReadExt::") or name_matches(c.fn, ("quinn::recv_stream::RecvStream::read", "quinn::recv_stream::RecvStream::read_exact",
                                                                                                                  "quinn::recv_stream::RecvStream::read_chunk", "quinn::recv_stream::RecvStream::read_to_end"))
            if not (raw_w or raw_r):
                continue
            n += 1
            own = owner_path(prog, c.body)
            ok = own == (f"{WIRE}::write_version_frame" if raw_w else f"{WIRE}::read_version_frame")
            ob.require(ok, f"raw-io/{own}/{c.fn.split('::')[-1]}", f"{c.body.path} does raw stream IO ({c.fn.split('::')[-1]}) outside the version preamble — bytes that bypass the frame codec are not size-limited",
                       c.body.path, c.body.loc(c.bb))
        ob.floor(n, 2, "raw stream IO sites (write_all / read_exact of the preamble)")
        # and the four message codecs send/receive exactly header frame + body frame (C07.3)
        from . import c07
        sub = cx.__class__("C15", prog, cx.tier, cx.config, cx.tree, repo=cx.repo)
        c07.run(sub)
        w = [x for x in sub.obs if x.oid.startswith("C07.3")]
        bad = [v for x in w for v in x.violations]
        ob.count(sum(x.evals for x in w))
        ob.require(len(w) == 4 and not bad, "framed-header-and-body", "a message codec does not send/receive header and body as two codec frames: " + "; ".join(v.msg for v in bad)[:300], WIRE)

    with cx.ob("C15.7", "R-WRITERS", "one layer out: the configured maximum reaches the codecs as configured - Config.max_frame_size is never written after the Config was built and its accessor is a pure projection") as ob:
        check_config_immutable(ob, prog, ["max_frame_size"], repo=cx.repo)
        check_pure_accessor(ob, prog, "anemo::config::Config::max_frame_size", "max_frame_size")
        check_derived(ob, prog, "anemo::config::Config", "core::default::Default")          # unset really means None
        check_builder_setters(ob, prog, "anemo::network::Builder", {"config": ("config", "config")})
