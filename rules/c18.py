"""C18 — Per-peer in-flight limit holds and never leaks capacity."""
from .engine import AnchorLost, Undecidable
from .lib import *
from .mir import Origins, show, strip_identity, walk, name_matches, term_has_call, place_local, op_place

M = "anemo_tower::inflight_limit"

EXPLANATION = """
Decides the structural facts that bound per-peer concurrency and make leaks impossible: the
semaphore used by a request is `inflight.entry(*req.peer_id()).or_insert_with(|| Arc::new(Semaphore::
new(max_inflight)))` of the map shared by all services created from one layer (layer() clones the
layer's Arc, it does not create a map), keyed by the authenticated sender, with a missing sender
answered by Status::internal before anything else; the wait-mode table is Block ↦ await
Semaphore::acquire, ReturnError ↦ Semaphore::try_acquire with NoPermits ↦ TooManyRequests and Closed ↦
InternalServerError; inner.call is reachable only through the success edge of the selected
acquisition and occurs once; the acquired permit lives in a coroutine local that is assigned on every
path to inner.call and is neither dropped nor moved on any path until the awaited inner call has
completed (so it is released on completion, on error and when the future is dropped — RAII), and the
crate never forgets, leaks, adds or closes permits.
One layer out: clones share the semaphore map, poll_ready only delegates, the configured maximum is stored as given, PeerId equality/hash are derived.
Generated servers stack a per-method layer on those already installed (add_layer_for_* of the code generated from the current templates).
The network drops a handler (and its permit) with its request: stopped-arm and handler-exit rules of C12 re-evaluated.
"""
TRUSTED = ["tokio Semaphore counting and SemaphorePermit release-on-drop", "DashMap entry API atomicity"]
NOT_DECIDED = ["fairness / wake-up order of blocked requests", "counting over long histories (follows per request from the permit's RAII lifetime)"]
ASSUMPTIONS = []


def run(cx):
    prog = cx.prog
    call = cx.impl_method(f"{M}::InflightLimit", "Service", "call")
    kids = [k for k in prog.children(call) if k.coroutine]
    co = kids[0] if len(kids) == 1 else None

    with cx.ob("C18.1", "R-FLOW", "semaphore = shared per-layer map entry keyed by the request's authenticated sender, created with the configured maximum") as ob:
        ob.floor(kids, 1, "async block of InflightLimit::call", exact=True)
        o = Origins(co)
        en = co.calls_to("dashmap::DashMap::entry")
        ob.floor(en, 1, "DashMap::entry", exact=True)
        k = strip_identity(arg_origin(en[0], 1, o))
        kr = payload_root(k)
        ok = kr[0] == "call" and name_matches(kr[1], "anemo::types::request::Request::peer_id") and mentions_upvar(kr, "req") and kr is not k
        ob.require(ok, "key/sender", f"semaphore key is {show(k)[:100]}", co.path, co.loc(en[0].bb))
        ob.require(mentions_upvar(arg_origin(en[0], 0, o), "inflight"), "map/captured", f"map is {show(arg_origin(en[0], 0, o))}", co.path)
        oi = co.calls_to("dashmap::mapref::entry::Entry::or_insert_with")
        ob.floor(oi, 1, "or_insert_with", exact=True)
        cl = arg_origin(oi[0], 1, o)
        kb = prog.body(cl[2]) if cl[0] == "agg" else None
        ok = False
        if kb is not None:
            t = strip_identity(Origins(kb).of_local(0))
            ok = t[0] == "call" and name_matches(t[1], "tokio::sync::semaphore::Semaphore::new") and (
                strip_identity(t[2][0]) == ("upvar", "max_inflight") or
                # (the closure may sit in an extracted helper: what it captured is then the helper's argument, i.e. the task's own capture)
                strip_identity(expand_upvars(prog, kb, t[2][0])) == ("upvar", "max_inflight") or
                (mentions_field(expand_upvars(prog, kb, t[2][0]), "max_inflight") and mentions_param(expand_upvars(prog, kb, t[2][0]), "self")))
        ob.require(ok, "semaphore/created-with-max", "new semaphores are not created with the captured max_inflight", co.path)
        # the acquisitions use the semaphore obtained from that entry
        for c in co.calls_to(("tokio::sync::semaphore::Semaphore::acquire", "tokio::sync::semaphore::Semaphore::try_acquire")):
            t = arg_origin(c, 0, o)
            ob.require(term_has_call(t, "Entry::or_insert_with") and term_has_call(t, "DashMap::entry"), f"acquire-on-entry/{c.fn.split('::')[-1]}",
                       f"{c.fn.split('::')[-1]} on {show(t)[:80]}", co.path, co.loc(c.bb))
        # captured values come from self
        oc = Origins(call)
        agg = [s for bl in call.blocks if not bl.get("cleanup") for s in bl["s"] if s["k"] == "assign" and s["rv"]["k"] == "agg" and s["rv"]["ak"] == "coroutine"]
        ob.floor(agg, 1, "coroutine construction in call()", exact=True)
        caps = {u["name"]: None for u in co.upvars}
        t = oc.of_rvalue(agg[0]["rv"])
        names = [u["name"] for u in sorted(co.upvars, key=lambda u: u["place"]["p"][0]["f"])]
        cap = dict(zip(names, t[3]))
        ob.require(mentions_field(cap.get("inflight", ("u",)), "inflight") and mentions_param(cap["inflight"], "self"), "capture/inflight", f"captured map: {show(cap.get('inflight'))}", call.path)
        ob.require(mentions_field(cap.get("max_inflight", ("u",)), "max_inflight"), "capture/max", f"captured max: {show(cap.get('max_inflight'))}", call.path)
        ob.require(mentions_field(cap.get("wait_mode", ("u",)), "wait_mode"), "capture/mode", f"captured mode: {show(cap.get('wait_mode'))}", call.path)
        ob.require(is_param(cap.get("req", ("u",)), "req"), "capture/req", f"captured request: {show(cap.get('req'))}", call.path)
        # a peer's semaphore, once created, is never removed or replaced (outstanding permits would be orphaned and a
        # fresh semaphore with full capacity handed to the next request)
        for cc in prog.all_calls(crates=["anemo_tower"]):
            if cc.body.is_cleanup(cc.bb) or not cc.fn or not cc.fn.startswith("dashmap::"):
                continue
            if "inflight_limit.rs" not in cc.body.file:
                continue
            last = cc.fn.split("::")[-1]
            ok = (name_matches(cc.fn, ("dashmap::DashMap::entry", "dashmap::DashMap::new", "dashmap::mapref::entry::Entry::or_insert_with", "dashmap::mapref::one::RefMut::value",
                                       "dashmap::mapref::one::Ref::value", "dashmap::DashMap::get", "dashmap::DashMap::len", "dashmap::DashMap::contains_key",
                                       "dashmap::mapref::entry::Entry::or_insert", "dashmap::mapref::entry::Entry::or_default")))
            ob.require(ok, f"map/mutator/{last}/{owner_path(prog, cc.body)}", f"{cc.body.path} calls {cc.fn} on the per-peer semaphore map: semaphores must never be removed or replaced", cc.body.path, cc.body.loc(cc.bb))
        # layer(): shares the layer's map
        lb = cx.impl_method(f"{M}::InflightLimitLayer", "Layer", "layer")
        t = Origins(lb).of_local(0)
        f = dict(zip(t[4], t[3])) if t[0] == "agg" else {}
        inf = f.get("inflight", ("u",))
        ok = strip_identity(inf)[0] == "field" and mentions_field(inf, "inflight") and mentions_param(inf, "self") and term_has_call(inf, "Clone::clone") and not term_has_call(inf, "DashMap::new")
        ob.require(ok, "layer/shared-map", f"layer() gives the service map {show(inf)}", lb.path)
        ob.require(mentions_field(f.get("max_inflight", ("u",)), "max_inflight") and mentions_field(f.get("wait_mode", ("u",)), "wait_mode") and is_param(f.get("inner", ("u",)), "inner"),
                   "layer/config", f"layer() builds {show(t)[:160]}", lb.path)

    with cx.ob("C18.2", "R-TABLE", "missing sender ↦ internal error first; Block ↦ await acquire; ReturnError ↦ try_acquire; inner.call once, only after a successful acquisition") as ob:
        kidmap = {k.path: k for k in prog.children(co)}

        def closure_statuses(t):
            kb = kidmap.get(t[2]) if t[0] == "agg" else None
            if kb is None:
                return None
            out = set()
            for c in kb.calls():
                if kb.is_cleanup(c.bb):
                    continue
                if name_matches(c.fn, "anemo::rpc::Status::new"):
                    a = strip_identity(Origins(kb).of_operand(c.args[0]))
                    out.add(a[2].split("::")[-1] if a[0] == "agg" else "?")
                elif name_matches(c.fn, "anemo::rpc::Status::internal"):
                    out.add("internal")
            return out

        def try_acquire_map(t):
            """variant -> status for the closure mapping TryAcquireError"""
            kb = kidmap.get(t[2]) if t[0] == "agg" else (prog.bodies.get(t[1]) if t[0] == "fnptr" else None)      # closure, or a fn item used as the mapper
            if kb is None:
                return None
            ko = Origins(kb)

            def cs(c, oo):
                if name_matches(c.fn, "anemo::rpc::Status::new") and c.dest == 0:
                    a = strip_identity(oo.of_operand(c.args[0]))
                    return "ret=" + (a[2].split("::")[-1] if a[0] == "agg" else "?")
                return None

            def es(a, bb, subj, labels, oo):
                if subj[0] == "discr" and is_param(strip_identity(subj[1])):
                    return "e=" + "|".join(sorted(labels))
                return None
            return {fmt_word(w) for w in seq_words(kb, cs, None, es)}

        def call_sym(c, o):
            aw = await_target(c)
            if aw is not None:
                if aw.endswith("Semaphore::acquire"):
                    return "await(acquire)"
                if "tower_service::Service" in aw or aw.startswith("type:"):
                    return "await(inner)"
                return f"await(?{aw})"
            if name_matches(c.fn, "anemo::types::request::Request::peer_id"):
                return "sender?"
            if name_matches(c.fn, "anemo::rpc::Status::internal"):
                return "internal"               # (the missing-sender arm / closure: modelled as control flow by words_of)
            if name_matches(c.fn, ("anemo::rpc::Status::new", "anemo::rpc::Status::new_with_message")):
                a = strip_identity(o.of_operand(c.args[0]))
                return "status(" + (a[2].split("::")[-1] if a[0] == "agg" else "?") + ")"
            if name_matches(c.fn, "anemo::rpc::Status::unknown"):
                return "status(?unknown)"
            if name_matches(c.fn, "dashmap::DashMap::entry"):
                return "entry"
            if name_matches(c.fn, "tokio::sync::semaphore::Semaphore::acquire"):
                return "acquire"
            if name_matches(c.fn, "tokio::sync::semaphore::Semaphore::try_acquire"):
                return "try_acquire"
            if name_matches(c.fn, ("Semaphore::acquire_owned", "Semaphore::try_acquire_owned", "Semaphore::acquire_many", "Semaphore::try_acquire_many",
                                   "Semaphore::add_permits", "Semaphore::close", "SemaphorePermit::forget", "mem::forget", "ManuallyDrop::new")):
                return "sem?" + c.fn.split("::")[-1]
            # (map_err on the acquisition results is modelled as control flow by words_of: the mapping closure's events -
            #  which error variant, which status - appear in place, exactly as in a written-out match)
            if name_matches(c.fn, "tower_service::Service::call"):
                ok = strip_identity(o.of_operand(c.args[0])) == ("upvar", "inner") and strip_identity(o.of_operand(c.args[1])) == ("upvar", "req")
                return "inner.call(req)" if ok else "inner.call(?)"
            return None

        def extra(a, bb, subj, labels, o):
            if subj[0] == "discr" and strip_identity(subj[1]) == ("upvar", "wait_mode"):
                return "mode=" + "|".join(sorted(labels))
            if subj[0] == "discr" and labels <= {"Closed", "NoPermits"}:
                r = strip_identity(subj[1])
                if (r[0] == "field" and r[2] == "0" and r[1][0] == "variant" and r[1][2] == "Err" and term_has_call(r, "Semaphore::try_acquire")) or r[0] == "param":
                    return "e=" + "|".join(sorted(labels))
            return None

        def stmt_sym(bbi, s, o):
            if s["lhs"] == 0:
                t = o.of_rvalue(s["rv"])
                if any(x[0] == "variant" and x[2] == "Ready" for x in walk(t)) and term_has_call(t, "tower_service::Service::call"):
                    return "ret=inner-result"
                return "ret=?"
            return None
        ws = {fmt_word(w) for w in seq_words(co, call_sym, stmt_sym, extra)}
        want = {
            "sender? internal !err <return>",
            "sender? entry mode=Block acquire await(acquire) internal !err <return>",
            "sender? entry mode=Block acquire await(acquire) inner.call(req) await(inner) ret=inner-result <return>",
            "sender? entry mode=ReturnError try_acquire e=Closed status(InternalServerError) !err <return>",
            "sender? entry mode=ReturnError try_acquire e=NoPermits status(TooManyRequests) !err <return>",
            "sender? entry mode=ReturnError try_acquire inner.call(req) await(inner) ret=inner-result <return>",
        }
        ob.count(len(ws))
        for w in sorted(ws - want):
            ob.fail("refuted", "call/unexpected-path/" + w.replace(" ", "_")[:150], f"{co.path}: unexpected behaviour `{w}`", co.path, co.loc(), path=w)
        for w in sorted(want - ws):
            ob.fail("refuted", "call/missing-path/" + w.replace(" ", "_")[:150], f"{co.path}: required behaviour `{w}` missing", co.path, co.loc(), path=w)
        if ws == want:
            ob.matched += len(ws)
        ob.set_sample({"body": co.path, "words": sorted(ws)})
        # Status::internal / Status::new codes
        sb = cx.body("anemo::rpc::Status::internal")
        t = strip_identity(Origins(sb).of_local(0))
        ob.require(any(x[0] == "agg" and x[2].endswith("StatusCode::InternalServerError") for x in walk(t)), "Status::internal", f"Status::internal builds {show(t)[:80]}", sb.path)

    with cx.ob("C18.3", "R-DROP", "the acquired permit is held (not dropped / moved / forgotten) until the awaited inner call has completed") as ob:
        o = Origins(co)
        permits = [i for i, l in enumerate(co.locals) if l["ty"].startswith("tokio::sync::semaphore::SemaphorePermit")]
        ob.floor(permits, 1, "SemaphorePermit-typed locals")
        ic = co.calls_to("tower_service::Service::call")
        ob.floor(ic, 1, "inner.call site", exact=True)
        C = ic[0].bb
        # block where the awaited inner result is taken (Ready edge)
        ready = [i for i, bl in enumerate(co.blocks) if not bl.get("cleanup") for s in bl["s"] if s["k"] == "assign" and s["lhs"] == 0
                 and term_has_call(o.of_rvalue(s["rv"]), "tower_service::Service::call")]      # (explicit `return Err(..)` arms assign _0 too)
        # ... or, when the result is parked in a local first (`let result = fut.await; drop(permit); result`), the block
        # where the completed inner future's output is taken: that is where the inner call is over
        taken = []
        for i, bl in enumerate(co.blocks):
            if bl.get("cleanup"):
                continue
            for s in bl["s"]:
                if s["k"] != "assign" or s["lhs"] == 0:
                    continue
                tv = strip_identity(o.of_rvalue(s["rv"]))
                if tv[0] == "field" and tv[2] == "0" and tv[1][0] == "variant" and tv[1][2] == "Ready" and term_has_call(tv, "tower_service::Service::call") \
                        and strip_identity(tv[1][1])[0] == "call" and name_matches(strip_identity(tv[1][1])[1], "Future::poll"):
                    taken.append(i)
        if taken and len(set(taken)) == 1 and all(co.all_paths_pass(taken[0], [r_], [taken[0]]) for r_ in ready):
            ready = [taken[0]]
        ob.floor(ready, 1, "assignment of the inner result", exact=True)
        R = ready[0]
        holders = []
        for L in permits:
            A = [d[1] for d in co.defs().get(L, []) if d[0] != "partial"]
            if not A:
                continue
            if not co.all_paths_pass(0, [C], A):
                continue
            region = set()
            for a in A:
                region |= co.reachable_from(a, avoid=[R])
            bad = []
            for i in region:
                bl = co.blocks[i]
                if bl.get("cleanup"):
                    continue
                t = bl["t"]
                if t["k"] == "drop" and place_local(t["pl"]) == L and i not in A:
                    bad.append(("drop", i))
                for s in bl["s"]:
                    if s["k"] == "assign" and i not in A:
                        for op in rvalue_operands(s["rv"]):
                            if op.get("k") == "move" and place_local(op["pl"]) == L:
                                bad.append(("move", i))
                    if s["k"] == "dead" and s["l"] == L:
                        bad.append(("storage-dead", i))
                if t["k"] == "call":
                    for op in t["args"]:
                        if op.get("k") == "move" and place_local(op["pl"]) == L:
                            bad.append(("moved-into-call", i))
            if not bad and C in region:
                holders.append(L)
        ob.require(bool(holders), "permit/held-across-inner-call",
                   f"{co.path}: no SemaphorePermit local is assigned on every path to inner.call and kept alive until its completion (permit locals {permits})",
                   co.path, co.loc(C))
        ob.set_sample({"body": co.path, "permit_holder_locals": [f"_{h}:{co.local_name(h)}" for h in holders], "inner_call_bb": C, "ready_bb": R})
        check_no_calls(ob, prog, ("tokio::sync::semaphore::SemaphorePermit::forget", "core::mem::forget", "mem::manually_drop::ManuallyDrop::new", "alloc::boxed::Box::leak",
                                  "tokio::sync::semaphore::Semaphore::add_permits", "tokio::sync::semaphore::Semaphore::close", "Semaphore::forget_permits",
                                  "Semaphore::acquire_owned", "Semaphore::try_acquire_owned"), crates=["anemo_tower"], what="permit leak/adjust API")
        # positive control: the matcher sees the acquire calls
        ob.require(len(prog.callers_of("tokio::sync::semaphore::Semaphore::try_acquire", crates=["anemo_tower"])) == 1, "positive-control", "semaphore call matcher is blind", M)

    with cx.ob("C18.5", "R-SHAPE", "one layer out: clones of the limiter share the per-peer semaphore map (field-by-field Clone) and poll_ready is the inner service's readiness only (no permit taken there)") as ob:
        for ty in ("anemo_tower::inflight_limit::InflightLimit", "anemo_tower::inflight_limit::InflightLimitLayer"):
            check_fieldwise_clone(ob, prog, ty)
        check_poll_ready_delegates(ob, prog, "anemo_tower::inflight_limit::InflightLimit")
        check_peer_id_identity_derived(ob, prog)
        check_generated_layer_stacking(ob, prog)          # (a per-method layer installed on a generated server stays installed)
        # the configured maximum is stored and handed on as given (no clamp, no default substituted): constructors and layer()
        IL = "anemo_tower::inflight_limit"
        for fn_, want in ((f"{IL}::InflightLimitLayer::new", "param"), (f"{IL}::InflightLimit::new", "param"), (f"{IL}::InflightLimit::layer", "param"),
                          ("<Layer impl>", "self")):
            # (the Layer impl is found by type and trait: the name of its type parameter is free)
            fb = prog.bodies.get(fn_) if fn_ != "<Layer impl>" else cx.impl_method(f"{IL}::InflightLimitLayer", "Layer", "layer")
            if fb is None:
                raise AnchorLost(f"body {fn_}")
            if fn_ == "<Layer impl>":
                fn_ = f"{IL}::InflightLimitLayer::Layer::layer"
            t = strip_identity(Origins(fb).of_local(0))
            # (a constructor may delegate to another of these constructors)
            if t[0] == "call" and name_matches(t[1], (f"{IL}::InflightLimitLayer::new", f"{IL}::InflightLimit::new")):
                mx = [x for x in t[2] if is_param(x, "max_inflight")]
                ob.require(len(mx) == 1, f"max-stored-as-given/{fn_.split('::')[-2]}::{fn_.split('::')[-1]}", f"{fn_} passes {show(t)[:100]}", fb.path)
                continue
            f = dict(zip(t[4], t[3])) if t[0] == "agg" and len(t) > 4 else {}
            mx = strip_identity(f.get("max_inflight", ("?",)))
            okm = is_param(mx, "max_inflight") if want == "param" else (mx[0] == "field" and mx[2] == "max_inflight" and is_param(mx[1], "self"))
            ob.require(okm, f"max-stored-as-given/{fn_.split('::')[-2]}::{fn_.split('::')[-1]}", f"{fn_} stores max_inflight = {show(mx)[:80]}", fb.path)

    with cx.ob("C18.6", "R-EDGE", "one layer out: a permit is returned when its request goes away because the network drops the handler future then - the request task races the handler against the stream's end (any outcome of stopped(), C12.3) and the connection handler shuts its request tasks down when the connection ends (C12.4); re-evaluated") as ob:
        from . import c12
        sub = cx.__class__("C18", prog, cx.tier, cx.config, cx.tree, repo=cx.repo)
        c12.run(sub)
        w = [x for x in sub.obs if x.oid in ("C12.3", "C12.4")]
        ob.count(sum(x.evals for x in w))
        bad = [v for x in w for v in x.violations]
        ob.require(len(w) == 2 and not bad, "capacity/handler-dropped-with-its-request", "a handler (and the permit it holds) can outlive its request: " + "; ".join(str(v.msg) for v in bad)[:300],
                   "anemo::network::request_handler::BiStreamRequestHandler::do_handle")

