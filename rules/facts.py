"""Extraction orchestration and loading of mirfacts output.

The deciding step always inspects /repo's *current working tree*: a content hash
of all tracked + untracked non-ignored files keys the fact cache; a new hash
forces a re-extraction with the rustc_private driver (cargo fingerprints of the
workspace members are deleted first so cargo can never skip the driver).
"""
import fcntl
import glob
import hashlib
import json
import os
import shutil
import subprocess
import sys
import time

VERIF = os.path.dirname(os.path.dirname(os.path.abspath(__file__)))
REPO = os.environ.get("VERIF_REPO", "/repo")
CACHE = os.environ.get("VERIF_CACHE", os.path.join(VERIF, ".cache"))
DRIVER = os.path.join(VERIF, "driver", "target", "debug", "mirfacts")

MEMBERS = ["anemo", "anemo_tower", "anemo_build", "anemo_cli", "examples", "greeter", "greeter_cli"]
# floors counted on the pinned tree (bodies per crate); a fact file with fewer bodies
# means the driver did not see the real build -> fail closed.
BODY_FLOORS = {"anemo": 600, "anemo_tower": 300, "anemo_build": 60, "anemo_cli": 40, "examples": 40}

CONFIGS = {
    # name -> extra rustflags
    "dev": "",
    "nodebug": "-C debug-assertions=off",
}


class ExtractionError(Exception):
    pass


def _sh(cmd, **kw):
    return subprocess.run(cmd, shell=True, stdout=subprocess.PIPE, stderr=subprocess.STDOUT, text=True, **kw)


def sysroot():
    r = _sh("rustc +nightly --print sysroot")
    return r.stdout.strip()


def rustc_version():
    r = _sh("rustc +nightly -V")
    return r.stdout.strip()


def tree_hash(repo=None):
    """Content hash of the working tree (tracked + untracked, non-ignored), excluding target/."""
    repo = repo or REPO
    files = None
    if os.path.isdir(os.path.join(repo, ".git")) or os.path.isfile(os.path.join(repo, ".git")):
        r = subprocess.run(["git", "-C", repo, "ls-files", "-co", "--exclude-standard", "-z"],
                           stdout=subprocess.PIPE, stderr=subprocess.DEVNULL)
        if r.returncode == 0:
            files = [f for f in r.stdout.decode().split("\0") if f]
    if files is None:
        files = []
        for root, dirs, fs in os.walk(repo):
            dirs[:] = [d for d in dirs if d not in ("target", ".git")]
            for f in fs:
                files.append(os.path.relpath(os.path.join(root, f), repo))
    if "Cargo.lock" not in files and os.path.isfile(os.path.join(repo, "Cargo.lock")):
        files.append("Cargo.lock")
    h = hashlib.sha256()
    for f in sorted(files):
        if f.startswith("target/"):
            continue
        p = os.path.join(repo, f)
        if not os.path.isfile(p):
            h.update(b"D:" + f.encode() + b"\0")
            continue
        h.update(f.encode() + b"\0")
        with open(p, "rb") as fh:
            h.update(hashlib.sha256(fh.read()).digest())
    # the driver is part of what determines the facts
    try:
        with open(DRIVER, "rb") as fh:
            h.update(hashlib.sha256(fh.read()).digest())
    except OSError:
        pass
    return h.hexdigest()[:24]


def ensure_driver():
    if not os.path.isfile(DRIVER):
        r = _sh("cargo build --offline", cwd=os.path.join(VERIF, "driver"))
        if r.returncode != 0 or not os.path.isfile(DRIVER):
            raise ExtractionError("driver build failed:\n" + r.stdout[-4000:])


def extract(repo, out_dir, target_dir, config="dev", log=None):
    """Run the driver over the workspace in `repo`; facts go to out_dir."""
    ensure_driver()
    os.makedirs(out_dir, exist_ok=True)
    os.makedirs(target_dir, exist_ok=True)
    # never let cargo replay a fresh unit for workspace members
    for prof in ("debug",):
        fp = os.path.join(target_dir, prof, ".fingerprint")
        if os.path.isdir(fp):
            for d in os.listdir(fp):
                if d.startswith("anemo") or d.startswith("examples"):
                    shutil.rmtree(os.path.join(fp, d), ignore_errors=True)
    env = dict(os.environ)
    env["LD_LIBRARY_PATH"] = sysroot() + "/lib" + (":" + env["LD_LIBRARY_PATH"] if env.get("LD_LIBRARY_PATH") else "")
    env["CARGO_INCREMENTAL"] = "0"
    env["CARGO_NET_OFFLINE"] = "true"
    env["MIRFACTS_OUT"] = out_dir
    env["MIRFACTS_RUSTC_VERSION"] = rustc_version()
    env["RUSTFLAGS"] = ("-Zmir-opt-level=0 -Awarnings " + CONFIGS[config]).strip()
    env["RUSTC_WORKSPACE_WRAPPER"] = DRIVER
    env["CARGO_TARGET_DIR"] = target_dir
    env.pop("RUSTC_WRAPPER", None)
    t0 = time.time()
    r = subprocess.run(["cargo", "+nightly", "check", "--offline", "--workspace", "-q"],
                       cwd=repo, env=env, stdout=subprocess.PIPE, stderr=subprocess.STDOUT, text=True)
    if log:
        with open(log, "w") as fh:
            fh.write(r.stdout)
    if r.returncode != 0:
        raise ExtractionError("cargo check with driver failed (workspace does not type-check?):\n" + r.stdout[-6000:])
    return time.time() - t0


KEEP_SETS = 400     # ~15 MB each; a full self-test run touches ~260 trees


def _touch(d):
    """A cache hit refreshes the set's age, so that a concurrent prune never removes a set in use."""
    try:
        os.utime(d, None)
    except OSError:
        pass


def facts_dir(config="dev", repo=None, target=None):
    """Return the directory holding facts for the current tree of `repo`, extracting if needed.
    `target`: name of the cargo target dir under the cache to use (self-test workers use their own)."""
    repo = repo or REPO
    h = tree_hash(repo)
    base = os.path.join(CACHE, "facts")
    os.makedirs(base, exist_ok=True)
    d = os.path.join(base, f"{h}-{config}")
    ok = os.path.join(d, "OK")
    if os.path.isfile(ok):
        _touch(d)
        return d, h, 0.0
    tname = target or f"target-{config}"
    lock = open(os.path.join(CACHE, f"extract-{tname}.lock"), "w")
    fcntl.flock(lock, fcntl.LOCK_EX)
    try:
        if os.path.isfile(ok):
            _touch(d)
            return d, h, 0.0
        if os.path.isdir(d) and not os.path.isfile(ok):
            shutil.rmtree(d, ignore_errors=True)
        target_dir = os.path.join(CACHE, tname)
        if target is not None and not os.path.isdir(target_dir):
            # warm a worker target dir from the main one (dependencies are identical)
            src = os.path.join(CACHE, f"target-{config}")
            if os.path.isdir(src):
                subprocess.run(["cp", "-a", "--reflink=auto", src, target_dir], check=False)
        tmp = d + f".tmp-{os.getpid()}-{tname}"
        if os.path.isdir(tmp):
            shutil.rmtree(tmp)
        wall = extract(repo, tmp, target_dir, config, log=os.path.join(CACHE, f"extract-{tname}.log"))
        # tree must not have changed while we extracted
        if tree_hash(repo) != h:
            shutil.rmtree(tmp, ignore_errors=True)
            raise ExtractionError("working tree changed during extraction")
        with open(os.path.join(tmp, "OK"), "w") as fh:
            json.dump({"tree": h, "config": config, "wall_s": wall, "rustc": rustc_version()}, fh)
        if os.path.isdir(d):
            shutil.rmtree(tmp, ignore_errors=True)      # another worker produced the same tree meanwhile
        else:
            os.rename(tmp, d)
        # keep the cache small: drop fact sets of other trees (keep 40 newest)
        # (other workers prune concurrently: tolerate entries vanishing; never remove a set younger than 15 minutes,
        # it may just have been produced for a worker that is about to load it)
        def _mt(p_):
            try:
                return os.path.getmtime(p_)
            except OSError:
                return 0.0
        olds = sorted([(_mt(p_), p_) for p_ in glob.glob(os.path.join(base, "*-*")) if ".tmp" not in p_], reverse=True)
        now = time.time()
        for mt_, o in olds[KEEP_SETS:]:
            if mt_ and now - mt_ > 900:
                shutil.rmtree(o, ignore_errors=True)
        return d, h, wall
    finally:
        fcntl.flock(lock, fcntl.LOCK_UN)
        lock.close()


def load_dir(d):
    """Load all fact files of a directory; de-duplicate crates compiled twice (host + target)."""
    crates = {}
    for f in sorted(glob.glob(os.path.join(d, "*.json"))):
        with open(f) as fh:
            data = json.load(fh)
        name = data["crate"]
        if name in crates:
            # same source compiled for host and target: keep the one with more bodies
            if data["n_bodies"] <= crates[name]["n_bodies"]:
                continue
        crates[name] = data
    for name, floor in BODY_FLOORS.items():
        if name not in crates:
            raise ExtractionError(f"fact file for crate {name} missing in {d}")
        if crates[name]["n_bodies"] < floor:
            raise ExtractionError(f"crate {name}: only {crates[name]['n_bodies']} bodies (< floor {floor})")
    return crates


if __name__ == "__main__":
    cfg = sys.argv[1] if len(sys.argv) > 1 else "dev"
    d, h, w = facts_dir(cfg)
    cr = load_dir(d)
    print(d, h, f"{w:.1f}s", {k: v["n_bodies"] for k, v in cr.items()})
