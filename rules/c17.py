"""C17 — Generated typed clients reach the matching typed handlers."""
from .engine import AnchorLost, Undecidable
from .lib import *
from .mir import Origins, show, strip_identity, walk, name_matches, term_has_call, op_place, place_local
from . import quote as Q

AB = "anemo_build"
RPC = "anemo::rpc"

EXPLANATION = """
Decided at three levels. Generator level (quantifies over all service definitions): the route string
the client generator interpolates, the route literal the server generator matches on, the SERVICE_NAME it
emits and the router's "/<name>/*rest" pattern are decoded as terms from the `format!` templates and the
`quote!` token templates in anemo-build's MIR (P = Service::package, D = if P.is_empty() {""} else {"."},
S = Service::identifier, M = Method::identifier of the loop's current method) and required to satisfy
client ≡ server ≡ "/" P D S "/" M, name ≡ P D S, pattern ≡ "/" name "/*rest"; the client hole sits in the
statement that sets request.route_mut() before self.inner.unary(..), the server literal is the match-arm
pattern in `match req.route()` whose arm builds <M>Svc, whose call invokes the trait method named
Method::name — the same accessor the client fn and the trait method use. Instance level: in the
examples crate's generated code the route constant assigned by GreeterClient::say_hello equals the
constant GreeterServer::call compares req.route() with, lies under "/" + SERVICE_NAME + "/", its arm
constructs SayHelloSvc whose call invokes Greeter::say_hello, and the default arm answers NotFound.
Runtime helpers: client Rpc::unary maps encode/transport/non-success/decode failures to Err(Status) and
returns the decoded body otherwise; server Rpc::unary answers an undecodable request without calling the
service, else calls it exactly once; Status::into_response/from_response use the same header key for the
message; the rpc module's panic inventory is empty.
Headers and status travel untouched between handler and typed client (C07.4 / C07.6 re-evaluated).
"""
TRUSTED = ["quote!/format_ident! produce the tokens pushed in the order recorded", "serde/bincode/json codecs round-trip the user's message types",
           "the Rust type checker rejects wrong-typed generated code (exercised by compiling the example)"]
NOT_DECIDED = ["correctness of arbitrary user codecs", "instance-level agreement for services with many methods (only the repository's one generated service exists; the generator-level rule carries the quantifier)"]
ASSUMPTIONS = []


def canon_piece(body, o, t, item_ok):
    """canonical name of a format argument term"""
    s = strip_identity(t)
    if s[0] == "agg" and s[2].endswith("IdentFragmentAdapter::IdentFragmentAdapter") and len(s[3]) == 1:
        s = strip_identity(s[3][0])
    if s[0] == "call":
        for nm, sym in ((f"{AB}::manual::Service::package", "P"), (f"{AB}::manual::Service::identifier", "S"), (f"{AB}::manual::Service::name", "Sname")):
            if name_matches(s[1], nm) and is_param(s[2][0], "service"):
                return sym
        for nm, sym in ((f"{AB}::manual::Method::identifier", "M"), (f"{AB}::manual::Method::name", "Mname")):
            if name_matches(s[1], nm) and item_ok(s[2][0]):
                return sym
    if s[0] == "field":
        # the accessor's field read directly (inside a method of the same type): package() = &self.package,
        # identifier() = name() = &self.name for a Service; identifier() = &self.route_name, name() = &self.name for a Method
        base = strip_identity(s[1])
        if is_param(base, "service") and s[2] in ("package", "name"):
            return {"package": "P", "name": "S"}[s[2]]
        if item_ok(base) and s[2] in ("route_name", "name"):
            return {"route_name": "M", "name": "Mname"}[s[2]]
    return "?" + show(s)[:50]


def path_term(body, fmt_call_bb=None, which=0):
    """Decode the `format!` whose Arguments::new is the `which`-th in the body into canonical pieces."""
    o = Origins(body)
    fa = [c for c in body.calls_to("core::fmt::Arguments::new") if not body.is_cleanup(c.bb)]
    if len(fa) <= which:
        raise AnchorLost(f"format! #{which} in {body.path}")
    c = fa[which]

    def item_ok(t):
        s = strip_identity(t)
        if is_param(s, "method"):
            return True
        return s[0] == "field" and s[2] == "0" and s[1][0] == "variant" and s[1][2] == "Some" and term_has_call(s, "Iterator::next") \
            and term_has_call(s, f"{AB}::manual::Service::methods") and mentions_param(s, "service")
    return c, _decode_format(body, o, o.of_operand(c.args[0]), o.of_operand(c.args[1]), item_ok, 0)


def _array_elem_locals(body, o, arr_term):
    """Locals of the operands of the array aggregate whose origin term is `arr_term` (None if it cannot be located)."""
    for bl in body.blocks:
        if bl.get("cleanup"):
            continue
        for st in bl["s"]:
            if st["k"] == "assign" and st["rv"]["k"] == "agg" and st["rv"].get("ak") == "array" and strip_identity(o.of_rvalue(st["rv"])) == arr_term:
                out = []
                for op_ in st["rv"]["ops"]:
                    pl_ = op_place(op_)
                    out.append(place_local(pl_) if pl_ is not None else None)
                return out
    return None


def _phi_piece(body, o, loc, item_ok):
    """Canonical piece of a conditional string held in local `loc`: "D" for `if package.is_empty() { "" } else { "." }`."""
    if loc is None:
        return "?phi"
    ite = None
    for _ in range(10):
        ite = ite_of(body, o, loc)
        if ite is not None:
            break
        ds = [d for d in body.defs().get(loc, []) if d[0] == "assign" and d[3]["k"] in ("ref", "use")]
        if len(ds) != 1:
            break
        pl_ = ds[0][3]["pl"] if ds[0][3]["k"] == "ref" else op_place(ds[0][3]["op"])
        if pl_ is None:
            break
        loc = place_local(pl_)
        fs = [e["f"] for e in (pl_["p"] if not isinstance(pl_, int) else []) if isinstance(e, dict) and "f" in e]
        if fs:
            # projection out of a tuple aggregate: follow the selected operand
            ad = [d for d in body.defs().get(loc, []) if d[0] == "assign" and d[3]["k"] == "agg" and d[3]["ak"] == "tuple"]
            if len(ad) != 1 or fs[0] >= len(ad[0][3]["ops"]) or op_place(ad[0][3]["ops"][fs[0]]) is None:
                break
            loc = place_local(op_place(ad[0][3]["ops"][fs[0]]))
    if ite is None:
        return "?phi"
    cond = strip_identity(ite[1])
    okc = cond[0] == "call" and name_matches(cond[1], ("core::str::is_empty", "alloc::string::String::is_empty")) and canon_piece(body, o, cond[2][0], item_ok) == "P"
    return "D" if okc and ite[2] == '""' and ite[3] == '"."' else f"?ite({show(cond)[:30]},{ite[2]},{ite[3]})"


def _concat_pieces(body, o, val, item_ok):
    """Pieces of a String assembled with `[a, b, c].concat()`; None if `val` is not of that form."""
    cc = strip_identity(val, extra=("hint::must_use", "string::String::as_str", "ToString::to_string", "Deref::deref", "borrow::Borrow::borrow", "convert::AsRef::as_ref"))
    if not (cc[0] == "call" and (cc[1].endswith("::concat") or name_matches(cc[1], "slice::concat")) and len(cc[2]) == 1):
        return None
    arr2 = strip_identity(cc[2][0])
    if not (arr2[0] == "agg" and arr2[1] == "array"):
        return None
    locs = _array_elem_locals(body, o, arr2)
    out = []
    for i_, el in enumerate(arr2[3]):
        if strip_identity(el)[0] == "phi":
            out.append(_phi_piece(body, o, locs[i_] if locs else None, item_ok))
        elif const_of(el) is not None and str(const_of(el)).startswith('"'):
            out.append(str(const_of(el))[1:-1])
        else:
            out.append(canon_piece(body, o, el, item_ok))
    return out


def _decode_format(body, o, tpl_t, arr_t, item_ok, depth):
    tpl = decode_format_template(const_of(tpl_t))
    arr = strip_identity(arr_t)
    if tpl is None or not (arr[0] == "agg" and arr[1] == "array"):
        raise Undecidable(f"{body.path}: unsupported format! template")
    pieces = []
    k = 0
    for p in tpl:
        if p is not None:
            pieces.append(p)
            continue
        a = strip_identity(arr[3][k])
        k += 1
        if not (a[0] == "call" and name_matches(a[1], "fmt::rt::Argument::new_display")):
            raise Undecidable(f"{body.path}: format argument {show(a)[:40]}")
        val = a[2][0]
        sv = strip_identity(val)
        # a String built by an earlier format! in the same function (a hoisted, loop-invariant part): spliced in place
        inner = strip_identity(val, extra=("hint::must_use", "alloc::fmt::format", "string::String::as_str", "ToString::to_string", "Deref::deref"))
        if depth < 3 and inner[0] == "call" and name_matches(inner[1], "fmt::Arguments::new") and len(inner[2]) >= 2:
            pieces.extend(_decode_format(body, o, inner[2][0], inner[2][1], item_ok, depth + 1))
            continue
        # a String assembled with `[a, b, c].concat()` (instead of format!("{}{}{}", a, b, c)): its parts, spliced in place
        cp_ = _concat_pieces(body, o, val, item_ok) if depth < 3 else None
        if cp_ is not None:
            pieces.extend(cp_)
            continue
        if sv[0] == "phi":
            call = body.call_at(a[3])
            pieces.append(_phi_piece(body, o, place_local(op_place(call.args[0])), item_ok))
        else:
            pieces.append(canon_piece(body, o, val, item_ok))
    return pieces


def ident_term(body, o, t):
    """format_ident!(..) hole -> canonical pieces"""
    s = strip_identity(t)
    if not (s[0] == "call" and name_matches(s[1], "quote::__private::mk_ident")):
        return None
    pieces = format_term(body, o, s[2][0])
    if pieces is None:
        return None
    out = []
    for p in pieces:
        if isinstance(p, tuple):
            out.append(canon_piece(body, o, p[1], lambda x: is_param(strip_identity(x), "method") or (term_has_call(x, "Iterator::next") and term_has_call(x, f"{AB}::manual::Service::methods"))))
        else:
            out.append(p)
    return out


def split_statements(tokens):
    out = [[]]
    depth = 0
    for t in tokens:
        out[-1].append(t)
        if t in ("(", "{", "["):
            depth += 1
        elif t in (")", "}", "]"):
            depth -= 1
        elif t == ";":
            out.append([])
    return out


def let_rhs(toks, name):
    """Tokens of the initialiser of `let [mut] name = ...;` in a flattened template (None if there is no such binding)."""
    for i in range(len(toks) - 3):
        if toks[i] != "let":
            continue
        j = i + 1
        if toks[j] == "mut":
            j += 1
        if toks[j] == name and toks[j + 1] == "=":
            out, depth, k = [], 0, j + 2
            while k < len(toks):
                t = toks[k]
                if t in ("(", "{", "["):
                    depth += 1
                elif t in (")", "}", "]"):
                    depth -= 1
                elif t == ";" and depth == 0:
                    return out
                out.append(t)
                k += 1
            return out
    return None


def run(cx):
    prog = cx.prog

    client_path = server_path = name_pieces = None
    with cx.ob("C17.1", "R-SIBLING", "generator: client route ≡ server route ≡ \"/\" P D S \"/\" M; SERVICE_NAME ≡ P D S; router pattern ≡ \"/\" name \"/*rest\"") as ob:
        gm = cx.body(f"{AB}::client::generate_methods")
        def route_format(b_):
            """the format! that mentions the method (a hoisted `<package>.<service>` part is a different, nested format!)"""
            n_ = len([c for c in b_.calls_to("core::fmt::Arguments::new") if not b_.is_cleanup(c.bb)])
            first = None
            for i_ in range(n_):
                try:
                    r_ = path_term(b_, which=i_)
                except (AnchorLost, Undecidable):
                    continue
                first = first or r_
                if "M" in r_[1] or "Mname" in r_[1]:
                    return r_
            if first is None:
                raise AnchorLost(f"route format! in {b_.path}")
            return first
        c1, client_path = route_format(gm)
        gr = cx.body(f"{AB}::server::generate_method_routes")
        c2, server_path = route_format(gr)
        sg = cx.body(f"{AB}::server::generate")
        c3, name_pieces = path_term(sg, which=len([c for c in sg.calls_to("core::fmt::Arguments::new") if not sg.is_cleanup(c.bb)]) - 1)
        # the service-name format is the one whose result goes to generate_transport
        so = Origins(sg)
        gt = sg.calls_to(f"{AB}::server::generate_transport")
        ob.floor(gt, 1, "generate_transport call", exact=True)
        tn = so.of_operand(gt[0].args[2])
        ok = [x[3] for x in walk(tn) if x[0] == "call" and name_matches(x[1], "fmt::Arguments::new")] == [c3.bb]
        if not ok:
            # find the right format! by identity
            fas = [c for c in sg.calls_to("core::fmt::Arguments::new") if not sg.is_cleanup(c.bb)]
            for i, c in enumerate(fas):
                if [x[3] for x in walk(tn) if x[0] == "call" and name_matches(x[1], "fmt::Arguments::new")] == [c.bb]:
                    c3, name_pieces = path_term(sg, which=i)
                    ok = True
        if not ok:
            # the name assembled without format! (`[package, sep, ident].concat()`)
            cp_ = _concat_pieces(sg, so, tn, lambda t_: False)
            if cp_ is not None:
                name_pieces, ok = cp_, True
        ob.require(ok, "service-name/flows-to-transport", f"generate_transport name argument is {show(tn)[:100]}", sg.path)
        want = ["/", "P", "D", "S", "/", "M"]
        ob.require(client_path == want, "client/route-term", f"client route = {client_path}, expected {want}", gm.path, gm.loc(c1.bb))
        ob.require(server_path == want, "server/route-term", f"server route = {server_path}, expected {want}", gr.path, gr.loc(c2.bb))
        ob.require(client_path == server_path, "client-server/agree", f"client route {client_path} ≠ server route {server_path}", f"{AB}")
        ob.require(name_pieces == ["P", "D", "S"], "service-name/term", f"SERVICE_NAME = {name_pieces}, expected ['P','D','S']", sg.path, sg.loc(c3.bb))
        ob.require(server_path == ["/"] + (name_pieces or []) + ["/", "M"], "server/under-service-prefix", f"server route {server_path} is not \"/\" + {name_pieces} + \"/\" + M", f"{AB}")
        ob.set_sample({"client": client_path, "server": server_path, "service_name": name_pieces})
        # router pattern (C16.5)
        rb = cx.body("anemo::routing::Router::add_rpc_service")
        ro = Origins(rb)
        rc = rb.calls_to("anemo::routing::Router::route")
        pieces = format_term(rb, ro, ro.of_operand(rc[0].args[1])) if rc else None
        ok = pieces is not None and len(pieces) == 3 and pieces[0] == "/" and pieces[2] == "/*rest" and isinstance(pieces[1], tuple) \
            and strip_identity(pieces[1][1])[0] == "named" and strip_identity(pieces[1][1])[1].endswith("RpcService::SERVICE_NAME")
        ob.require(ok, "router/pattern", f"add_rpc_service pattern pieces: {pieces}", rb.path)
        # both generators iterate the same method list
        for b in (gm, gr):
            o = Origins(b)
            ms = b.calls_to(f"{AB}::manual::Service::methods")
            ob.require(len(ms) == 1 and is_param(o.of_operand(ms[0].args[0]), "service"), f"iterates-methods/{b.path.split('::')[-1]}", f"{b.path} does not iterate service.methods()", b.path)

    with cx.ob("C17.2", "R-FLOW", "generator: the route string lands in the route assignment (client) / match-arm pattern (server) / SERVICE_NAME (transport)") as ob:
        gm = cx.body(f"{AB}::client::generate_methods")
        go = Origins(gm)
        gu = gm.calls_to(f"{AB}::client::generate_unary")
        ob.floor(gu, 1, "generate_unary call", exact=True)
        pt = go.of_operand(gu[0].args[1])
        # the argument IS the route string: the outermost format! in it is the route format decoded above (nested format!s are
        # its hoisted parts)
        fa_ = [x for x in walk(pt) if x[0] == "call" and name_matches(x[1], "fmt::Arguments::new")]
        ob.require(bool(fa_) and fa_[0][3] == c1.bb, "client/path-arg", f"generate_unary path argument: {show(pt)[:80]}", gm.path)
        mt = go.of_operand(gu[0].args[0])
        ob.require(term_has_call(mt, "Iterator::next") and term_has_call(mt, f"{AB}::manual::Service::methods"), "client/method-arg", f"generate_unary method argument: {show(mt)[:80]}", gm.path)
        ub = cx.body(f"{AB}::client::generate_unary")
        uo = Origins(ub)
        st, res = Q.streams(ub)
        toks = Q.flatten(st, res)
        holes = [t for t in toks if isinstance(t, Q.Hole) and is_param(strip_identity(t.term), "path")]
        ob.require(len(holes) == 1, "client/path-hole-once", f"route hole occurs {len(holes)} times in the client method template", ub.path)
        stmts = split_statements(toks)
        si = [i for i, s_ in enumerate(stmts) if any(t is holes[0] for t in s_)] if holes else []
        ui = [i for i, s_ in enumerate(stmts) if "unary" in s_ and "inner" in s_]
        ok = bool(si) and any(x in stmts[si[0]] for x in ("route_mut", "with_route", "set_route")) and "request" in stmts[si[0]] and bool(ui) and si[0] < ui[-1]
        ob.require(ok, "client/route-assignment", f"route hole statement: `{Q.render(stmts[si[0]]) if si else None}`", ub.path)
        # ... unconditionally: whatever request the caller hands in, the generated method sends it to its own route - no branch
        # in the method body before the call goes out
        if ui:
            flat_ = [t for s_ in stmts[:ui[-1] + 1] for t in s_ if isinstance(t, str)]
            try:
                flat_ = flat_[flat_.index("fn"):]
            except ValueError:
                pass
            kw = [t for t in flat_ if t in ("if", "match", "while", "loop", "else", "return", "for")]
            ob.require(not kw, "client/route-assignment-unconditional", f"the generated client method decides something before sending ({kw[:3]}): the route is not set on every call", ub.path)
        ob.require(bool(ui) and "request" in stmts[ui[-1]], "client/unary-sends-request", "client method does not pass `request` to self.inner.unary", ub.path)
        fn_hole = [t for i, t in enumerate(toks) if isinstance(t, Q.Hole) and i > 0 and toks[i - 1] == "fn"]
        ob.require(len(fn_hole) == 1 and ident_term(ub, uo, fn_hole[0].term) == ["Mname"], "client/fn-name", f"client fn name = {ident_term(ub, uo, fn_hole[0].term) if fn_hole else None}", ub.path)
        # server: literal => { generate_method_route(method) }
        gr = cx.body(f"{AB}::server::generate_method_routes")
        ro = Origins(gr)
        st, res = Q.streams(gr)
        toks = Q.flatten(st, res)
        lit = [i for i, t in enumerate(toks) if isinstance(t, Q.Hole) and term_has_call(t.term, "syn::lit::LitStr::new")]
        ok = len(lit) == 1 and toks[lit[0] + 1] == "=>" and toks[lit[0] + 2] == "{" and isinstance(toks[lit[0] + 3], Q.Hole) \
            and term_has_call(toks[lit[0] + 3].term, f"{AB}::server::generate_method_route")
        ob.require(ok, "server/arm-shape", f"server arm template: `{Q.render(toks)[:160]}`", gr.path)
        if ok:
            lt = toks[lit[0]].term
            fa_ = [x for x in walk(lt) if x[0] == "call" and name_matches(x[1], "fmt::Arguments::new")]
            ob.require(bool(fa_) and fa_[0][3] == c2.bb, "server/literal-is-route", f"arm pattern literal: {show(lt)[:80]}", gr.path)
            arm_m = [x for x in walk(toks[lit[0] + 3].term) if x[0] == "call" and name_matches(x[1], f"{AB}::server::generate_method_route")][0][2][0]
            ob.require(term_has_call(arm_m, "Iterator::next") and term_has_call(arm_m, f"{AB}::manual::Service::methods"), "server/arm-method", f"arm body generated for {show(arm_m)[:60]}", gr.path)
        # server::generate: match req.route() { #method_routes _ => NotFound }
        sg = cx.body(f"{AB}::server::generate")
        so = Origins(sg)
        st, res = Q.streams(sg)
        toks = Q.flatten(st, res)
        mi = [i for i in range(len(toks) - 6) if toks[i:i + 6] == ["match", "req", ".", "route", "(", ")"]]
        if not mi:
            # `let route = req.route(); match route { .. }`: the matched value is a local bound to req.route()
            for i_ in range(len(toks) - 3):
                if toks[i_] == "match" and isinstance(toks[i_ + 1], str) and toks[i_ + 2] == "{" and let_rhs(toks, toks[i_ + 1]) == ["req", ".", "route", "(", ")"]:
                    toks = toks[:i_] + ["match", "req", ".", "route", "(", ")"] + toks[i_ + 2:]
                    mi = [i_]
                    break
        ok = len(mi) == 1 and toks[mi[0] + 6] == "{" and isinstance(toks[mi[0] + 7], Q.Hole) and term_has_call(toks[mi[0] + 7].term, f"{AB}::server::generate_method_routes") \
            and toks[mi[0] + 8] == "_" and toks[mi[0] + 9] == "=>"
        ob.require(ok, "server/match-on-route", f"server call() template around match: `{Q.render(toks[mi[0]:mi[0] + 12]) if mi else None}`", sg.path)
        if ok:
            j = mi[0] + 10
            depth = 0
            arm = []
            while j < len(toks):
                arm.append(toks[j])
                if toks[j] in ("(", "{", "["):
                    depth += 1
                if toks[j] in (")", "}", "]"):
                    depth -= 1
                    if depth < 0:
                        break
                j += 1
            ob.require("NotFound" in arm and "into_response" in arm, "server/default-arm-notfound", f"default arm: `{Q.render(arm)[:120]}`", sg.path)
        ms_h = [t for t in toks if isinstance(t, Q.Hole) and term_has_call(t.term, f"{AB}::server::generate_method_services")]
        ob.require(len(ms_h) == 1, "server/method-services-emitted", "generated server does not contain the per-method services", sg.path)
        # transport: const SERVICE_NAME = #literal(name)
        tb = cx.body(f"{AB}::server::generate_transport")
        st, res = Q.streams(tb)
        toks = Q.flatten(st, res)
        si_ = [i for i, t in enumerate(toks) if t == "SERVICE_NAME"]
        ok = len(si_) == 1 and "=" in toks[si_[0]:si_[0] + 8]
        if ok:
            e = si_[0] + toks[si_[0]:si_[0] + 8].index("=")
            h = toks[e + 1]
            ok = isinstance(h, Q.Hole) and term_has_call(h.term, "syn::lit::LitStr::new") and mentions_param(h.term, "service_name")
        ob.require(ok, "transport/service-name", f"transport template: `{Q.render(toks)[:160]}`", tb.path)

    with cx.ob("C17.3", "R-SIBLING", "generator: arm for method m builds <M>Svc, whose call invokes the trait method <Mname>; client fn and trait method use the same name") as ob:
        rb = cx.body(f"{AB}::server::generate_method_route")
        ro = Origins(rb)
        st, res = Q.streams(rb)
        toks = Q.flatten(st, res)
        svc = [i for i, t in enumerate(toks) if isinstance(t, Q.Hole) and ident_term(rb, ro, t.term) == ["M", "Svc"]]
        # <M>Svc(h) with h bound to a clone of the server's shared handler (`let h = self.inner.clone();`), whatever h is called
        ok = len(svc) == 1 and toks[svc[0] + 1] == "(" and toks[svc[0] + 3] == ")" and isinstance(toks[svc[0] + 2], str) \
            and let_rhs(toks, toks[svc[0] + 2]) == ["self", ".", "inner", ".", "clone", "(", ")"]
        ob.require(ok, "arm/constructs-method-service", f"arm template: `{Q.render(toks)[:200]}`", rb.path)
        # rpc.unary(s, req) with s bound to the layered <M>Svc built above
        un = [i_ for i_ in range(len(toks) - 5) if toks[i_] == "unary" and toks[i_ + 1] == "(" and toks[i_ + 3] == "," and toks[i_ + 4] == "req" and toks[i_ + 5] == ")"]
        okd = len(un) == 1 and isinstance(toks[un[0] + 2], str) and svc and any(t_ is toks[svc[0]] for t_ in (let_rhs(toks, toks[un[0] + 2]) or []))
        ob.require(okd, "arm/dispatches", "arm does not call rpc.unary(<the layered method service>, req)", rb.path)
        sb = cx.body(f"{AB}::server::generate_method_service")
        so = Origins(sb)
        st, res = Q.streams(sb)
        toks = Q.flatten(st, res)
        sname = [i for i, t in enumerate(toks) if isinstance(t, Q.Hole) and i > 0 and toks[i - 1] == "struct"]
        ob.require(len(sname) == 1 and ident_term(sb, so, toks[sname[0]].term) == ["M", "Svc"], "service/struct-name", f"method service struct = {ident_term(sb, so, toks[sname[0]].term) if sname else None}", sb.path)
        inv = [i for i, t in enumerate(toks) if isinstance(t, Q.Hole) and ident_term(sb, so, t.term) == ["Mname"] and toks[i - 1] == "." and toks[i + 1] == "(" and toks[i + 2] == "request"]
        okv = len(inv) == 1 and toks[inv[0] - 5:inv[0] - 3] == ["(", "*"] and toks[inv[0] - 2] == ")" and isinstance(toks[inv[0] - 3], str) \
            and let_rhs(toks, toks[inv[0] - 3]) in (["self", ".", "0", ".", "clone", "(", ")"], ["self", ".", 'lit:"0"', ".", "clone", "(", ")"])
        ob.require(okv, "service/invokes-trait-method", f"method service call template does not invoke (*h).<Mname>(request) on h = self.0.clone()", sb.path)
        impl_for = [i for i, t in enumerate(toks) if t == "for" and isinstance(toks[i + 1], Q.Hole) and ident_term(sb, so, toks[i + 1].term) == ["M", "Svc"]]
        ob.require(len(impl_for) >= 1, "service/impl-for-same-struct", "Service impl is not for the <M>Svc struct", sb.path)
        tb = cx.body(f"{AB}::server::generate_trait_methods")
        to = Origins(tb)
        st, res = Q.streams(tb)
        toks = Q.flatten(st, res)
        fnn = [i for i, t in enumerate(toks) if isinstance(t, Q.Hole) and i > 0 and toks[i - 1] == "fn"]
        ob.require(len(fnn) == 1 and ident_term(tb, to, toks[fnn[0]].term) == ["Mname"], "trait/fn-name", f"trait method name = {ident_term(tb, to, toks[fnn[0]].term) if fnn else None}", tb.path)
        # generate_method_services iterates the same methods
        mb = cx.body(f"{AB}::server::generate_method_services")
        mo = Origins(mb)
        c = mb.calls_to(f"{AB}::server::generate_method_service")
        okpm = len(c) == 1 and term_has_call(mo.of_operand(c[0].args[0]), f"{AB}::manual::Service::methods")
        if not c:
            # `service.methods().iter().map(|m| generate_method_service(m, ..)).collect()`: the call sits in the closure of one
            # iterator adaptor over service.methods() and is applied to the closure's item
            kbs = [k for k in prog.children(mb) if k.calls_to(f"{AB}::server::generate_method_service")]
            if len(kbs) == 1:
                kb = kbs[0]
                kc = kb.calls_to(f"{AB}::server::generate_method_service")
                drv = [c_ for c_ in mb.calls() if name_matches(c_.fn, ("Iterator::map", "Iterator::for_each", "Iterator::flat_map", "Iterator::fold")) and not mb.is_cleanup(c_.bb)
                       and any(strip_identity(mo.of_operand(a_))[0] == "agg" and strip_identity(mo.of_operand(a_))[2] == kb.path for a_ in c_.args)]
                okpm = len(kc) == 1 and len(drv) == 1 and term_has_call(mo.of_operand(drv[0].args[0]), f"{AB}::manual::Service::methods") \
                    and any(x[0] == "param" and x[1] >= 2 for x in walk(Origins(kb).of_operand(kc[0].args[0])))
        ob.require(okpm, "services/per-method", "method services are not generated per service.methods() item", mb.path)
        # accessors
        for acc, fld in (("Method::name", "name"), ("Method::identifier", "route_name"), ("Service::identifier", "name"), ("Service::package", "package"), ("Service::name", "name")):
            ab = cx.body(f"{AB}::manual::{acc}")
            t = Origins(ab).of_local(0)
            ob.require(mentions_field(t, fld) and mentions_param(t, "self"), f"accessor/{acc}", f"{acc} returns {show(t)}", ab.path)

    with cx.ob("C17.4", "R-CONST", "instance: generated GreeterClient route == GreeterServer match literal, under \"/\"+SERVICE_NAME+\"/\", arm → SayHelloSvc → Greeter::say_hello; default arm NotFound") as ob:
        cl = [b for p, b in prog.bodies.items() if b.crate == "examples" and p.endswith("GreeterClient::say_hello::{closure#0}")]
        ob.floor(cl, 1, "generated client method body", exact=True)
        cb = cl[0]
        co = Origins(cb)
        rm = cb.calls_to("anemo::types::request::Request::route_mut")
        ob.floor(rm, 1, "route_mut in generated client", exact=True)
        # the string assigned through the returned &mut String
        lits = []
        for bl in cb.blocks:
            if bl.get("cleanup"):
                continue
            for s in bl["s"]:
                if s["k"] == "assign" and not isinstance(s["lhs"], int) and "*" in [e for e in s["lhs"]["p"] if isinstance(e, str)]:
                    base = co.of_local(s["lhs"]["l"])
                    if term_has_call(base, "Request::route_mut"):
                        v = strip_identity(co.of_rvalue(s["rv"]))
                        lits.append(const_of(v))
        ob.require(len(lits) == 1 and lits[0] is not None, "instance/client-route-literal", f"generated client assigns route {lits}", cb.path)
        route = lits[0].strip('"') if lits and lits[0] else None
        sv = [b for b in prog.impl_methods("examples::greeter::greeter_server::GreeterServer", "Service", "call")]
        ob.floor(sv, 1, "generated server call()", exact=True)
        sb = sv[0]
        so = Origins(sb)
        # string comparisons of req.route()
        cmp_l = set()
        for c in sb.calls():
            if sb.is_cleanup(c.bb):
                continue
            if name_matches(c.fn, ("cmp::PartialEq::eq", "str::traits::eq", "cmp::impls::eq")) or (c.res and c.res.endswith("::eq")):
                for a in c.args:
                    v = const_of(so.of_operand(a))
                    if v is not None and v.startswith('"'):
                        cmp_l.add(v.strip('"'))
        ob.require(cmp_l == {route}, "instance/routes-agree", f"client route {route!r} vs server literals {sorted(cmp_l)}", sb.path)
        nm = [b for p, b in prog.bodies.items() if b.crate == "examples" and "RpcService" in p and p.endswith("SERVICE_NAME")]
        ob.floor(nm, 1, "generated SERVICE_NAME", exact=True)
        sname = const_of(Origins(nm[0]).of_local(0))
        ob.require(sname is not None and route is not None and route.startswith("/" + sname.strip('"') + "/") and "/" not in route[len(sname.strip('"')) + 2:],
                   "instance/under-prefix", f"route {route!r} vs SERVICE_NAME {sname}", nm[0].path)
        kids = [k for k in prog.bodies.values() if k.path.startswith(sb.path + "::{")]
        mk = [c for k in kids for c in k.calls() if name_matches(c.fn, "examples::greeter::greeter_server::SayHelloSvc") or
              any(s["k"] == "assign" and s["rv"]["k"] == "agg" and str(s["rv"].get("adt", "")).endswith("SayHelloSvc") for bl in k.blocks for s in bl["s"])]
        ob.require(bool(mk), "instance/arm-builds-svc", "the matching arm does not construct SayHelloSvc", sb.path)
        svc_call = prog.impl_methods("examples::greeter::greeter_server::SayHelloSvc", "Service", "call")
        ob.floor(svc_call, 1, "SayHelloSvc::call", exact=True)
        sk = [k for k in prog.bodies.values() if k.path.startswith(svc_call[0].path + "::{")]
        inv = [c for k in sk for c in k.calls() if name_matches(c.fn, "examples::greeter::greeter_server::Greeter::say_hello")]
        ob.require(len(inv) == 1, "instance/svc-invokes-handler", f"SayHelloSvc::call invokes {len(inv)} Greeter::say_hello", svc_call[0].path)
        nf = [k for k in kids if any(s["k"] == "assign" and s["rv"]["k"] == "agg" and str(s["rv"].get("adt", "")).endswith("StatusCode") and s["rv"].get("variant") == "NotFound"
                                     for bl in k.blocks for s in bl["s"])]
        ob.require(len(nf) == 1, "instance/default-notfound", "generated default arm does not answer NotFound", sb.path)
        ob.set_sample({"route": route, "service_name": sname})

    with cx.ob("C17.5", "R-PATHSEQ", "runtime helpers: client unary maps every failure to Err(Status); server unary never calls the service on an undecodable request, else exactly once") as ob:
        cu = cx.coroutine(f"{RPC}::client::Rpc::unary")

        def csym(c, o):
            aw = await_target(c)
            if aw is not None:
                return None
            for nm, sym in ((f"{RPC}::codec::Encoder::encode", "encode"), ("tower_service::Service::call", "call"), (f"{RPC}::Status::from_error", "from_error"),
                            (f"{RPC}::Status::from_response", "from_response"), (f"{RPC}::codec::Decoder::decode", "decode"), ("StatusCode::is_success", None)):
                if name_matches(c.fn, nm):
                    return sym
            return None

        def cextra(a, bb, subj, labels, o):
            lab = "|".join(sorted(labels))
            s = subj
            neg = False
            while s[0] == "unop" and s[1] == "Not":
                neg = not neg
                s = s[2]
            s = strip_identity(s)
            if s[0] == "call" and name_matches(s[1], "StatusCode::is_success") and labels in ({"true"}, {"false"}):
                return "success=" + str((labels == {"true"}) != neg).lower()
            return None

        def cstmt(bbi, s, o):
            if s["lhs"] == 0 and s["rv"]["k"] == "agg" and s["rv"].get("adt") == "core::result::Result":
                return "ret=" + s["rv"]["variant"]
            return None
        ws = {fmt_word(w) for w in seq_words(cu, csym, cstmt, cextra, strict=False)}
        ob.count(len(ws))
        oks = {w for w in ws if w.endswith("ret=Ok <return>")}
        ob.require(all(w.startswith("encode") and "call" in w and "success=true" in w and "decode" in w and "from_response" not in w for w in oks) and len(oks) >= 1, "client-unary/ok-path",
                   f"client unary Ok paths: {sorted(oks)}", cu.path)
        ns = {w for w in ws if "success=false" in w}
        ob.require(len(ns) >= 1 and all("from_response" in w and ("ret=Err" in w or "!err" in w) and "decode" not in w.split("success=false")[1] for w in ns), "client-unary/non-success-is-status",
                   f"client unary non-success paths: {sorted(ns)}", cu.path)
        ob.require(not any(w.endswith("ret=Ok <return>") and "success=true" not in w for w in ws), "client-unary/no-ok-without-success", "an Ok return does not pass the success check", cu.path)
        ob.set_sample({"client_unary_words": sorted(ws)})
        su = cx.coroutine(f"{RPC}::server::Rpc::unary")

        def ssym(c, o):
            aw = await_target(c)
            if aw is not None:
                return None
            for nm, sym in ((f"{RPC}::codec::Decoder::decode", "decode"), ("tower_service::Service::call", "service.call"), (f"{RPC}::server::UnaryService::call", "service.call"),
                            (f"{RPC}::server::Rpc::map_response", "map_response"), (f"{RPC}::server::Rpc::map_request", "map_request")):
                if name_matches(c.fn, nm):
                    return sym
            return None
        def sextra(a, bb, subj, labels, o):
            if subj[0] == "discr" and term_has_call(subj[1], f"{RPC}::server::Rpc::map_request") and not term_has_call(subj[1], "UnaryService::call"):
                r = strip_identity(subj[1])
                if labels <= {"Ok", "Err"} and labels:
                    return "decoded=" + "|".join(sorted(labels))
            return None

        def sstmt(bbi, s, o):
            return None
        ws = {fmt_word(w) for w in seq_words(su, ssym, sstmt, sextra, strict=False)}
        ob.count(len(ws))
        want = {"map_request decoded=Err map_response <return>", "map_request decoded=Ok service.call map_response <return>"}
        ob.require(ws == want, "server-unary/words", f"server unary behaviours: {sorted(ws)} (expected {sorted(want)})", su.path)
        ob.set_sample({"server_unary_words": sorted(ws)})
        # map_response: Err(status) -> status.into_response(); encode error -> Status::internal(..).into_response()
        mb = cx.body(f"{RPC}::server::Rpc::map_response")
        mo = Origins(mb)
        irs = [c for c in mb.calls() if name_matches(c.fn, "IntoResponse::into_response") and not mb.is_cleanup(c.bb)]
        ob.require(len(irs) == 2 and all(c.dest == 0 for c in irs), "map_response/status-into-response", f"map_response has {len(irs)} status→response conversions", mb.path)
        kinds = set()
        for c in irs:
            t = strip_identity(mo.of_operand(c.args[0]))
            if t[0] == "field" and t[1][0] == "variant" and t[1][2] == "Err" and is_param(strip_identity(t[1][1]), "response"):
                kinds.add("handler-status")
            elif any(x[0] == "variant" and x[2] == "Err" for x in walk(t)) and term_has_call(t, "Encoder::encode"):
                kinds.add("encode-error")
        ob.require(kinds == {"handler-status", "encode-error"}, "map_response/sources", f"status sources: {sorted(kinds)}", mb.path)
        # map_request: decode error -> Err(Status::from_error) via `?`
        rq = cx.coroutine(f"{RPC}::server::Rpc::map_request")
        rws = {fmt_word(w) for w in seq_words(rq, lambda c, o: "decode" if name_matches(c.fn, f"{RPC}::codec::Decoder::decode") else None,
                                               lambda bbi, s, o: ("ret=" + s["rv"]["variant"]) if s["lhs"] == 0 and s["rv"]["k"] == "agg" and s["rv"].get("adt") == "core::result::Result" else None,
                                               None, strict=False)}
        rws = {w.replace("!err", "ret=Err") for w in rws}       # an error exit, propagated with `?` or written as `return Err(..)`
        ob.require(rws == {"decode ret=Err <return>", "decode ret=Ok <return>"}, "map_request/words", f"map_request behaviours: {sorted(rws)}", rq.path)

    with cx.ob("C17.6", "R-SIBLING", "Status::into_response / from_response agree on status, headers and the message header key; rpc panic inventory is empty") as ob:
        ib = cx.impl_method(f"{RPC}::Status", "IntoResponse", "into_response")
        fb = cx.body(f"{RPC}::Status::from_response")
        keys = {}
        for nm, b in (("into", ib), ("from", fb)):
            o = Origins(b)
            ks = set()
            for c in b.calls():
                if b.is_cleanup(c.bb):
                    continue
                for a in c.args:
                    t = strip_identity(o.of_operand(a))
                    if t[0] == "named" and "header::" in t[1]:
                        ks.add((t[1].split("::")[-1], t[2]))
            keys[nm] = ks
        ob.require(keys["into"] == keys["from"] and any(k[0] == "STATUS_MESSAGE" for k in keys["into"]), "status/message-header", f"header keys: into_response {sorted(keys['into'])} vs from_response {sorted(keys['from'])}", ib.path)
        ents = [p for p, b in prog.bodies.items() if b.crate == "anemo" and p.startswith("anemo::rpc::") and "__CALLSITE" not in p and b.kind in ("Fn", "AssocFn")]
        ents += [p for p, b in prog.bodies.items() if b.crate == "anemo" and p.startswith("<anemo::rpc::") and b.kind == "AssocFn"]
        reach, sites = panic_sites(prog, ents)
        ob.count(len(reach))
        for s in sites:
            b = prog.body(s["body"])
            if not s["body"].startswith(("anemo::rpc::", "<anemo::rpc::")):
                continue
            ob.fail("refuted", f"rpc-panic/{s['key']}", f"panic-capable construct `{s['what']}` in {s['body']}", s["body"], b.loc(s["bb"]))
        ob.matched += 1

    with cx.ob("C17.7", "R-PATHSEQ", "Status → Response → Status keeps code, every header and the message: into_response only adds (extend + insert), never replaces or removes; from_response reads all three back") as ob:
        ib = cx.impl_method(f"{RPC}::Status", "IntoResponse", "into_response")
        fb = cx.body(f"{RPC}::Status::from_response")
        HM = "std::collections::hash::map::HashMap"

        def on_response_headers(t):
            return term_has_call(t, "Response::headers_mut") and term_has_call(t, "IntoResponse::into_response")

        def call_sym(c, o):
            if name_matches(c.fn, "IntoResponse::into_response"):
                a = strip_identity(o.of_operand(c.args[0]))
                return "base(self.status)" if a[0] == "field" and a[2] == "status" and is_param(a[1], "self") else "base(?)"
            if name_matches(c.fn, "Response::headers_mut") or name_matches(c.fn, "alloc::str::to_owned") or name_matches(c.fn, "ToOwned::to_owned"):
                return None
            if name_matches(c.fn, "iter::traits::collect::Extend::extend"):
                ok = on_response_headers(o.of_operand(c.args[0])) and mentions_field(o.of_operand(c.args[1]), "headers") and mentions_param(o.of_operand(c.args[1]), "self")
                return "extend(self.headers)" if ok else "extend(?)"
            if loop_inserts and name_matches(c.fn, ("Iterator::next", "hash::map::IntoIter")) and term_has_call(o.of_operand(c.args[0]), "IntoIterator::into_iter"):
                return None             # loop control of that iteration
            if name_matches(c.fn, "IntoIterator::into_iter") and loop_inserts:
                a0 = o.of_operand(c.args[0])
                return "extend(self.headers)" if mentions_field(a0, "headers") and mentions_param(a0, "self") else "iterate(?)"
            if name_matches(c.fn, f"{HM}::insert") and c in loop_inserts:
                return None             # the body of `for (k, v) in self.headers { headers.insert(k, v) }` == extend(self.headers), named at the into_iter
            if name_matches(c.fn, f"{HM}::insert"):
                k = strip_identity(o.of_operand(c.args[1]))
                v = o.of_operand(c.args[2])
                ok = on_response_headers(o.of_operand(c.args[0])) and any(x[0] == "named" and x[1].endswith("header::STATUS_MESSAGE") for x in walk(k)) \
                    and mentions_field(v, "message") and mentions_param(v, "self")
                return "insert(STATUS_MESSAGE,self.message)" if ok else "insert(?)"
            if c.fn and (c.fn.startswith(HM + "::") or name_matches(c.fn, ("core::mem::replace", "core::mem::swap", "core::mem::take"))):
                if c.fn.split("::")[-1] in ("is_empty", "len", "get", "contains_key", "iter", "keys", "values"):
                    return None
                return f"mutate:{c.fn.split('::')[-1]}"
            return f"call:{c.fn.split('::')[-1]}" if c.fn else "call:?"

        # `for (k, v) in self.headers { response.headers_mut().insert(k, v) }`: an insert inside a loop whose key and value are
        # the two halves of the element of an iteration over self.headers
        io_ = Origins(ib)
        cyc_ = ib.cyclic_blocks()
        loop_inserts = []
        for c_ in ib.calls():
            if c_.bb in cyc_ and name_matches(c_.fn, f"{HM}::insert") and not ib.is_cleanup(c_.bb):
                k_, v_ = strip_identity(io_.of_operand(c_.args[1])), strip_identity(io_.of_operand(c_.args[2]))
                def half(t_, i_):
                    return t_[0] == "field" and t_[2] == str(i_) and term_has_call(t_, "Iterator::next") and term_has_call(t_, "IntoIterator::into_iter") \
                        and mentions_field(t_, "headers") and mentions_param(t_, "self")
                if on_response_headers(io_.of_operand(c_.args[0])) and half(k_, 0) and half(v_, 1):
                    loop_inserts.append(c_)

        def stmt_sym(bbi, s, o):
            lhs = s["lhs"]
            if isinstance(lhs, dict) and "*" in lhs["p"]:
                t = o.of_local(lhs["l"])
                if term_has_call(t, ("Response::headers_mut", "Response::status_mut", "Response::body_mut", "Response::inner_mut")):
                    return "overwrite-through:" + [x[1].split("::")[-1] for x in walk(t) if x[0] == "call" and name_matches(x[1], ("Response::headers_mut", "Response::status_mut", "Response::body_mut", "Response::inner_mut"))][0]
            return None

        def extra(a, bb, subj, labels, o):
            if subj[0] == "discr":
                r = strip_identity(subj[1])
                if r[0] == "field" and r[2] == "message" and is_param(r[1], "self"):
                    return "[" + "|".join(sorted(labels)) + "]"
            return None
        ws = {fmt_word(w) for w in seq_words(ib, call_sym, stmt_sym, extra, strict=True)}
        fam_a = {"base(self.status) extend(self.headers) [None] <return>", "base(self.status) extend(self.headers) [Some] insert(STATUS_MESSAGE,self.message) <return>"}
        fam_b = {"base(self.status) [None] extend(self.headers) <return>", "base(self.status) [Some] insert(STATUS_MESSAGE,self.message) extend(self.headers) <return>"}
        ob.count(len(ws))
        if ws not in (fam_a, fam_b):
            for w in sorted(ws - fam_a):
                ob.fail("refuted", "status-into-response/unexpected/" + w.replace(" ", "_")[:140], f"Status::into_response: path `{w}` is not 'status, plus all headers, plus the message header'", ib.path, ib.loc(), path=w)
            for w in sorted(fam_a - ws):
                ob.fail("refuted", "status-into-response/missing/" + w.replace(" ", "_")[:140], f"Status::into_response: required behaviour `{w}` missing", ib.path, ib.loc(), path=w)
        else:
            ob.matched += len(ws)
        ret = strip_identity(Origins(ib).of_local(0))
        ob.require(ret[0] == "call" and name_matches(ret[1], "IntoResponse::into_response"), "status-into-response/returns-base", f"into_response returns {show(ret)[:100]}", ib.path)
        # StatusCode::into_response: an empty response whose status is self
        sb = cx.impl_method("anemo::types::response::StatusCode", "IntoResponse", "into_response")
        so = Origins(sb)
        wr = [s for bl in sb.blocks if not bl.get("cleanup") for s in bl["s"] if s["k"] == "assign" and isinstance(s["lhs"], dict) and "*" in s["lhs"]["p"]]
        ok = sets_status_to_self(prog, sb)
        ob.require(ok, "statuscode-into-response/sets-status", "StatusCode::into_response does not store self as the response status", sb.path)
        # from_response: Status { status: parts.status, headers: parts.headers, message: headers.get(STATUS_MESSAGE).cloned(), .. }
        fo = Origins(fb)
        aggs = [s for bl in fb.blocks if not bl.get("cleanup") for s in bl["s"] if s["k"] == "assign" and s["rv"]["k"] == "agg" and s["rv"].get("adt") == f"{RPC}::Status"]
        ob.floor(aggs, 1, "Status aggregate in from_response", exact=True)
        t = fo.of_rvalue(aggs[0]["rv"])
        f = dict(zip(t[4], t[3]))

        def part(x, fld):
            x = strip_identity(x)
            return x[0] == "field" and x[2] == fld and term_has_call(x, "Response::into_parts") and mentions_param(x, "response")
        msg = f.get("message", ("u",))
        gets = [x for x in walk(msg) if x[0] == "call" and name_matches(x[1], f"{HM}::get")]
        okm = len(gets) == 1 and part(gets[0][2][0], "headers") and any(y[0] == "named" and y[1].endswith("header::STATUS_MESSAGE") for y in walk(gets[0][2][1])) \
            and term_has_call(msg, ("Option::cloned", "Option::map", "Clone::clone"))
        ob.require(part(f.get("status", ("u",)), "status") and part(f.get("headers", ("u",)), "headers") and okm, "status-from-response/fields",
                   f"from_response builds {show(t)[:200]}", fb.path)

    with cx.ob("C17.8", "R-CALLERS", "the built-in payload decoders are total: closed world of callees (slice-based deserialisers only - no reader-based bincode, which allocates the announced length before checking it)") as ob:
        ALLOWED = ("serde_json::de::from_slice", "serde_json::de::from_str", "bincode::deserialize", "serde_json::ser::to_vec", "bincode::serialize",
                   "core::ops::deref::Deref::deref", "core::ops::try_trait::Try::branch", "core::ops::try_trait::FromResidual::from_residual",
                   "core::convert::Into::into", "core::convert::From::from", "core::convert::AsRef::as_ref", "core::result::Result::map_err", "core::result::Result::map",
                   "bytes::bytes::Bytes::from", "bytes::bytes::Bytes::as_ref", "core::clone::Clone::clone", "core::default::Default::default")
        n = 0
        decs = [b for p, b in prog.bodies.items() if b.crate == "anemo" and "rpc::codec" in p and b.kind == "AssocFn" and p.split("::")[-1] in ("decode", "encode")]
        ob.floor(decs, 6, "encode/decode bodies of the built-in codecs")
        for b in decs:
            for c, chain in call_sites_through(prog, b, lambda c_: True, depth=3):
                callee = c.fn or c.callee or ""
                if callee in prog.bodies or (c.res and c.res in prog.bodies):
                    continue                # a local helper: its own calls are visited through the chain
                n += 1
                if b.path.endswith("::encode"):
                    if name_matches(callee, ALLOWED + ("bytes::bytes_mut::BytesMut::new", "bytes::bytes_mut::BytesMut::with_capacity", "bytes::buf::buf_mut::BufMut::writer",
                                                       "bytes::bytes_mut::BytesMut::freeze", "bincode::serialize_into", "serde_json::ser::to_writer", "bytes::buf::writer::Writer::into_inner",
                                                       "core::ops::deref::DerefMut::deref_mut", "core::ops::function::FnOnce::call_once", "alloc::vec::Vec::new", "alloc::vec::Vec::with_capacity")):
                        continue
                ob.require(name_matches(callee, ALLOWED), f"codec-callee/{owner_path(prog, b).split('::')[-3] if '::' in owner_path(prog, b) else '?'}/{callee.split('::')[-1]}",
                           f"{b.path} calls {callee}: not one of the slice-based (bounded) (de)serialisers - a reader-based decoder can panic or over-allocate on a hostile length prefix",
                           chain[-1], prog.bodies[chain[-1]].loc(c.bb) if chain[-1] in prog.bodies else None)
        ob.floor(n, 8, "calls inspected")

    with cx.ob("C17.9", "R-CALLERS", "status, message and headers travel untouched between handler and typed client: header conversions are field-to-field and the codec path calls nothing that could rewrite them (C07.4, C07.6 re-evaluated)") as ob:
        from . import c07
        sub = cx.__class__("C17", prog, cx.tier, cx.config, cx.tree, repo=cx.repo)
        c07.run(sub)
        w = [x for x in sub.obs if x.oid in ['C07.4', 'C07.6']]
        ob.count(sum(x.evals for x in w))
        bad = [v for x in w for v in x.violations]
        ob.require(len(w) == 2 and not bad, "headers-intact/codec-path-does-not-rewrite", "the wire path between handler and client can alter headers or status: " + "; ".join(str(v.msg) for v in bad)[:300], "anemo::types::response::RawResponseHeader::from_header")
