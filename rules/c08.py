"""C08 — Shutdown always completes, releases everything and never panics."""
from .engine import AnchorLost, Undecidable
from .lib import *
from .mir import Origins, show, strip_identity, walk, name_matches, term_has_call, place_local

CM = "anemo::network::connection_manager"
MGR = f"{CM}::ConnectionManager"
NI = "anemo::network::NetworkInner"
EP = "anemo::endpoint::Endpoint"

EXPLANATION = """
Decides the structural conditions of a bounded, complete, panic-free teardown: (1) order —
ConnectionManager::shutdown closes the endpoint, shuts down pending connections, drains the connection
handlers, waits for idle inside tokio::time::timeout(config.shutdown_idle_timeout(), ..) and rebinds
the socket twice, each step dominating the next and the return; start() reaches shutdown() on every
path out of the event loop and then answers the shutdown notifier; Drop closes the endpoint;
(2) sticky-value arms of the event loop — the mailbox's None and Shutdown leave the loop, and the
endpoint's accept() == None (returned forever once the endpoint driver is gone) must not be re-polled
without passing a yield point; join results propagate panics only (a cancelled task is not a panic);
(3) error discipline — connect()/shutdown() map a closed mailbox and a dropped reply to Err, is_closed
is the mailbox's is_closed, NetworkRef::upgrade yields Some only when not closed, and
peers/subscribe/disconnect/peer go through the weak peer-map reference; (4) ownership — the user
service is owned only by task-owned structs, NetworkInner holds no service clone and only a weak
ActivePeers, the only broadcast Sender lives in ActivePeersInner (so subscribers see end-of-stream);
(5) panic inventory of the manager / teardown / API code with re-checked justifications; (6) ownership
across suspension points - no future other than the tasks shutdown() itself terminates owns the strong
peer map (and with it the event sender) or a clone of the user's service while suspended at an await. The assert
on an empty peer map in shutdown() is not dischargeable and is reported as a known finding; (7) closed world of task
creation - every spawn in the library is the manager task or goes onto one of the three JoinSets shutdown terminates.
(8) no library type stores a handle to the bound UDP socket and the socket is never duplicated, so the endpoint's own socket is the only thing keeping the address bound.
(7b) the connection handler awaits the shutdown of the set its request tasks run on before it returns (dropping a JoinSet does not wait).
(2b) no arm of the manager loop's select! is switched off by a precondition (a disabled mailbox arm would not see shutdown).
"""
TRUSTED = ["tokio: JoinSet::shutdown/abort semantics, yield_now returns Pending once, mpsc/oneshot close semantics", "quinn: Endpoint::close / wait_idle / rebind"]
NOT_DECIDED = ["latency ('within the configured bound' — only the presence of the bound is decided)", "OS socket re-bindability", "remote peers observing the disconnect",
               "tokio behaviour when the runtime is torn down at an arbitrary instant, beyond the structural hazards listed"]
ASSUMPTIONS = ["tokio::select!-generated arithmetic asserts operate on compile-time constants"]


def loop_body(cx):
    """the coroutine holding the manager's event loop (inside #[instrument]'s wrapper)"""
    prog = cx.prog
    cs = prog.callers_of(f"{MGR}::handle_connecting_result")
    if len(cs) != 1:
        raise AnchorLost("event loop of ConnectionManager::start")
    return cs[0].body


def run(cx):
    prog = cx.prog

    with cx.ob("C08.1", "R-MUSTPASS", "teardown order: close → pending.shutdown → drain handlers → bounded wait_idle → rebind ×2; start() always reaches shutdown then answers the notifier") as ob:
        co = cx.coroutine(f"{MGR}::shutdown")
        o = Origins(co)
        cl = co.calls_to(f"{EP}::close")
        ps = [c for c in co.calls_to("tokio::task::join_set::JoinSet::shutdown") if mentions_field(o.of_operand(c.args[0]), "pending_connections")]
        jn = [c for c in co.calls_to("tokio::task::join_set::JoinSet::join_next") if mentions_field(o.of_operand(c.args[0]), "connection_handlers")]
        wi = co.calls_to(f"{EP}::wait_idle")
        rb = co.calls_to(f"{EP}::rebind")
        ob.floor(cl, 1, "Endpoint::close in shutdown", exact=True)
        ob.floor(ps, 1, "pending_connections.shutdown()", exact=True)
        ob.floor(jn, 1, "connection_handlers.join_next()", exact=True)
        ob.floor(wi, 1, "wait_idle", exact=True)
        ob.floor(rb, 2, "rebind calls", exact=True)
        chain = [cl[0].bb, ps[0].bb, jn[0].bb, wi[0].bb, rb[0].bb, rb[1].bb]
        ob.require(all(co.dominates(a, b) for a, b in zip(chain, chain[1:])), "shutdown/order", "teardown steps are not in dominance order close→shutdown→drain→wait_idle→rebind→rebind", co.path)
        ob.require(all(co.dominates(rb[1].bb, r) for r in co.return_blocks()), "shutdown/complete-before-return", "shutdown() can return before the socket is released", co.path)
        ob.require(jn[0].bb in co.cyclic_blocks(), "shutdown/drain-is-loop", "connection handlers are not drained in a loop", co.path)
        for nm, c in (("pending.shutdown", ps[0]), ("wait_idle", wi[0])):
            aw = [x for x in co.calls() if await_target(x) and await_target(x).endswith(c.fn.split("::")[-1]) and co.dominates(c.bb, x.bb)]
            ob.require(bool(aw), f"shutdown/{nm}-awaited", f"{nm} future is not awaited", co.path)
        t = arg_origin(wi[0], 1, o)
        ob.require(term_has_call(t, "anemo::config::Config::shutdown_idle_timeout") and mentions_field(t, "config"), "shutdown/idle-bound", f"wait_idle bound is {show(t)[:80]}", co.path)
        check_ms_getter(ob, prog, "anemo::config::Config::shutdown_idle_timeout", "shutdown_idle_timeout_ms")
        wb = cx.coroutine(f"{EP}::wait_idle")
        wo = Origins(wb)
        to = wb.calls_to("tokio::time::timeout::timeout")
        ob.floor(to, 1, "timeout in wait_idle", exact=True)
        ob.require(strip_identity(wo.of_operand(to[0].args[0])) == ("upvar", "max_timeout") and term_has_call(wo.of_operand(to[0].args[1]), "quinn::endpoint::Endpoint::wait_idle"),
                   "wait_idle/bounded", f"wait_idle = timeout({show(wo.of_operand(to[0].args[0]))}, {show(wo.of_operand(to[0].args[1]))[:60]})", wb.path)
        qa = [c for c in wb.calls() if await_target(c) and "wait_idle" in await_target(c) and "timeout" not in await_target(c).lower()]
        ob.require(not qa, "wait_idle/no-unbounded-await", "quinn wait_idle is awaited outside the timeout", wb.path)
        # start(): shutdown on every exit of the loop, then notifier
        lb = loop_body(cx)
        lo = Origins(lb)
        sd = lb.calls_to(f"{MGR}::shutdown")
        ob.floor(sd, 1, "shutdown() call in start", exact=True)
        rets = lb.return_blocks()
        ob.require(all(lb.all_paths_pass(0, [r], [sd[0].bb], succ=lb.succ_noawait) for r in rets) and sd[0].bb not in lb.cyclic_blocks(), "start/always-shuts-down",
                   "start() can finish without running shutdown()", lb.path)
        ns = lb.calls_to("tokio::sync::oneshot::Sender::send")
        ob.require(len(ns) == 1 and lb.dominates(sd[0].bb, ns[0].bb), "start/notify-after-shutdown", "shutdown notifier is answered before shutdown() completed", lb.path)
        d = cx.impl_method(MGR, "Drop", "drop")
        ob.require(len(d.calls_to(f"{EP}::close")) == 1, "drop/closes-endpoint", "Drop for ConnectionManager does not close the endpoint", d.path)
        must_pass(ob, d, [d.calls_to(f"{EP}::close")[0].bb] if d.calls_to(f"{EP}::close") else [], key="drop/close-on-all-paths")

    with cx.ob("C08.2", "R-STICKY", "event loop: terminal values leave the loop (mailbox None/Shutdown) or pass a yield point (accept None); join arms propagate panics only") as ob:
        lb = loop_body(cx)
        sites = select_sites(prog, lb)
        ob.floor(sites, 1, "select! in the manager loop", exact=True)
        site = sites[0]
        ob.require(len(site["arms"]) == 5, "loop/arms", f"select! arms: {site['polled']}", lb.path)
        # no arm is switched off by a condition: while an arm is disabled the loop sees neither a shutdown request / closed
        # mailbox, nor an incoming connection, nor a finished task - shutdown could be postponed for as long as the condition holds
        check_no_select_preconditions(ob, prog, lb, "loop")

        def call_sym(c, o):
            if is_tracing(c):
                return None
            aw = await_target(c)
            if aw is not None:
                return "await(yield_now)" if aw.endswith("yield_now") else "await(" + aw.split("::")[-1] + ")"
            # (the forwarder handle_incoming is always inlined: an accepted connection is handed to handle_incoming_task on pending_connections)
            if name_matches(c.fn, "tokio::task::join_set::JoinSet::spawn") and term_has_call(o.of_operand(c.args[1]), f"{MGR}::handle_incoming_task"):
                return "incoming" if mentions_field(o.of_operand(c.args[0]), "pending_connections") else "incoming(?)"
            for nm, sym in ((f"{MGR}::handle_connectivity_check", "check"), (f"{MGR}::dial_peer", "connect_request"),
                            (f"{MGR}::handle_connecting_result", "connecting_result"), (f"{MGR}::shutdown", "shutdown"), ("panic::resume_unwind", "reraise"),
                            ("result::Result::unwrap", "unwrap!"), ("result::Result::expect", "expect!")):
                if name_matches(c.fn, nm):
                    return sym
            if name_matches(c.fn, ("core::panicking::panic_fmt", "core::panicking::panic")) and (c.exp or "").split("::")[-1] != "select!":
                return "panic"
            return None

        def extra(a, bb, subj, labels, o):
            lab = "|".join(sorted(labels))
            jt = join_error_test(subj, labels)
            if jt is not None:
                return jt[0] + "=" + str(jt[1]).lower()
            if subj[0] == "discr":
                r = strip_identity(subj[1])
                if r[0] in ("field", "variant") and any(x[0] == "variant" for x in walk(r)):
                    return "[" + lab + "]"
            return None
        kinds = {"Interval::tick": "tick", "Receiver::recv": "mailbox", "endpoint::Accept": "accept", "JoinSet::join_next": "join"}
        n_join = 0
        for idx, tgt in sorted(site["arms"].items()):
            fut = site["polled"].get(idx, "?")
            kind = next((k for n, k in kinds.items() if n in fut), None)
            ob.require(kind is not None, f"loop/arm{idx}/future", f"select arm {idx} polls {fut}", lb.path)
            if kind is None:
                continue
            ws = {fmt_word(w) for w in arm_words(lb, site, idx, call_sym, extra)}
            ob.count(len(ws))
            if kind == "tick":
                exp = {"check <stop>"}
            elif kind == "mailbox":
                # None and Shutdown leave the loop and run shutdown(); ConnectRequest continues
                exp = {"[None] shutdown await(shutdown) <return>", "[None] shutdown await(shutdown) [Some] <return>", "[None] shutdown await(shutdown) [None] <return>",
                       "[Some] [Shutdown] shutdown await(shutdown) [Some] <return>", "[Some] [Shutdown] shutdown await(shutdown) [None] <return>",
                       "[Some] [ConnectRequest] connect_request <stop>"}
                bad = {w for w in ws if not (w in exp)}
                # the notifier Option is a phi; accept either labelling but require: None/Shutdown never reach <stop>
                for w in sorted(ws):
                    leaves = w.endswith("<return>") and "shutdown" in w
                    cont = w.endswith("<stop>")
                    if w.startswith("[None]") or w.startswith("[Some] [Shutdown]"):
                        ob.require(leaves and not cont, f"loop/mailbox/terminal-leaves/{w.split(' ')[0]}", f"mailbox arm: `{w}` does not leave the loop through shutdown()", lb.path, lb.loc(tgt), path=w)
                    elif w.startswith("[Some] [ConnectRequest]"):
                        ob.require(w == "[Some] [ConnectRequest] connect_request <stop>", "loop/mailbox/connect", f"mailbox arm: `{w}`", lb.path, lb.loc(tgt), path=w)
                    else:
                        ob.fail("refuted", f"loop/mailbox/unexpected/{w.replace(' ', '_')}", f"mailbox arm: unexpected behaviour `{w}`", lb.path, lb.loc(tgt), path=w)
                continue
            elif kind == "accept":
                exp = {"[Some] incoming <stop>"}
                for w in sorted(ws):
                    if w.startswith("[Some]"):
                        ob.require(w == "[Some] incoming <stop>", "loop/accept/some", f"accept arm: `{w}`", lb.path, lb.loc(tgt), path=w)
                    elif w.startswith("[None]"):
                        ok = (not w.endswith("<stop>")) or ("await(yield_now)" in w)
                        if not ok:
                            ob.fail("refuted", f"{lb.path}/arm<Option<Connecting>>/none-edge-continues",
                                    f"event loop: accept() == None (sticky once the endpoint driver is gone) returns to the select without leaving the loop or yielding: `{w}` — busy loop that cannot be cancelled",
                                    lb.path, lb.loc(tgt), path=w)
                        else:
                            ob.matched += 1
                    else:
                        ob.fail("refuted", f"loop/accept/unexpected/{w.replace(' ', '_')}", f"accept arm: unexpected behaviour `{w}`", lb.path, lb.loc(tgt), path=w)
                continue
            else:
                n_join += 1
                ws = {w for w in ws if not w.startswith("[None]")}
                for w in sorted(ws):
                    ok_word = w in ("[Some] [Ok] connecting_result <stop>", "[Some] [Ok] <stop>", "[Some] [Err] is_panic=false <stop>", "[Some] [Err] is_panic=true reraise <diverge>",
                                    "[Some] [Err] is_cancelled=true <stop>", "[Some] [Err] is_cancelled=false reraise <diverge>",
                                    "[Some] [Err] is_cancelled=false is_panic=true reraise <diverge>", "[Some] [Err] is_cancelled=false is_panic=false <stop>")
                    if not ok_word:
                        ob.fail("refuted", f"{lb.path}/arm<join:{idx}>/" + ("unwraps-join-error" if "unwrap!" in w or "expect!" in w else "unexpected/" + w.replace(" ", "_")),
                                f"event loop join arm ({fut}): `{w}` — a JoinError is also produced for *cancelled* tasks (runtime teardown); only panics may be re-raised",
                                lb.path, lb.loc(tgt), path=w)
                    else:
                        ob.matched += 1
                continue
            for w in sorted(ws - exp):
                ob.fail("refuted", f"loop/{kind}/unexpected/{w.replace(' ', '_')}", f"{kind} arm: unexpected behaviour `{w}`", lb.path, lb.loc(tgt), path=w)
            if ws == exp:
                ob.matched += len(ws)
        ob.require(n_join == 2, "loop/join-arms", f"{n_join} join arms", lb.path)
        ob.set_sample({"loop": lb.path, "select": {str(k): v for k, v in site["polled"].items()}})

    with cx.ob("C08.3", "R-FLOW", "API error discipline: closed mailbox / dropped reply ↦ Err; is_closed = mailbox closed; weak upgrades gate peers/subscribe/disconnect/peer") as ob:
        for fn, variant in (("connect", "ConnectRequest"), ("shutdown", "Shutdown")):
            co = cx.coroutine(f"{NI}::{fn}")
            o = Origins(co)
            sn = co.calls_to("tokio::sync::mpsc::bounded::Sender::send")
            ob.floor(sn, 1, f"mailbox send in {fn}", exact=True)
            ob.require(mentions_field(o.of_operand(sn[0].args[0]), "connection_manager_handle"), f"{fn}/mailbox", "request not sent on the manager mailbox", co.path)
            me = [c for c in co.calls_to("Result::map_err") if term_has_call(o.of_operand(c.args[0]), "Sender::send")]
            tb = [c for c in co.calls_to("Try::branch") if term_has_call(o.of_operand(c.args[0]), "Sender::send")]
            ob.require(len(me) == 1 and len(tb) >= 1, f"{fn}/send-error-propagated", f"{fn}: a closed mailbox is not mapped and propagated with `?`", co.path)
            rx = [c for c in co.calls() if await_target(c) and "oneshot::Receiver" in await_target(c)]
            ob.require(len(rx) == 1, f"{fn}/awaits-reply", f"{fn}: reply oneshot not awaited exactly once", co.path)
            ret = o.of_local(0)
            ob.require(term_has_call(ret, "Future::poll") and (term_has_call(ret, "Try::branch") or term_has_call(ret, "Result::map_err")), f"{fn}/reply-error-propagated",
                       f"{fn} returns {show(ret)[:100]}", co.path)
            bad = [c for c in co.calls() if name_matches(c.fn, ("Result::unwrap", "Result::expect", "Option::unwrap", "Option::expect")) and not co.is_cleanup(c.bb)]
            ob.require(not bad, f"{fn}/no-unwrap", f"{fn} unwraps a channel result", co.path)
        # the public handle adds nothing of its own: Network::{shutdown, is_closed, peers, peer, disconnect} forward to NetworkInner
        for fn_ in ("shutdown", "is_closed", "peers", "peer", "disconnect"):
            check_api_forwarder(ob, prog, fn_)
        ib = cx.body(f"{NI}::is_closed")
        t = Origins(ib).of_local(0)
        ob.require(t[0] == "call" and name_matches(t[1], "mpsc::bounded::Sender::is_closed") and mentions_field(t, "connection_manager_handle"), "is_closed", f"is_closed returns {show(t)}", ib.path)
        # NetworkRef::upgrade: Some(network) exactly when the weak reference is alive AND the network is not closed -
        # decided on the function's case table, however it is written (combinator chain, `?` + early return, match)
        ub = cx.body("anemo::network::NetworkRef::upgrade")

        def atoms(t_):
            if t_[0] == "call" and name_matches(t_[1], "sync::Weak::upgrade"):
                return "weak"
            if t_[0] == "call" and name_matches(t_[1], (f"{NI}::is_closed", "anemo::network::Network::is_closed")):
                return ("closed", "bool")
            if t_[0] == "call" and name_matches(t_[1], f"{CM}::ActivePeersRef::upgrade"):
                return "peers"
            return None
        tab = function_cases(prog, ub, atoms)
        ok = table_lookup(tab, weak="None") == {"None"} and table_lookup(tab, weak="Some", closed="true") == {"None"} and table_lookup(tab, weak="Some", closed="false") == {"Some"}
        ob.require(ok, "NetworkRef::upgrade", f"NetworkRef::upgrade does not gate on !is_closed(): cases {sorted((sorted(k), sorted(v)) for k, v in tab.items())}", ub.path)
        for fn in ("peers", "disconnect", "peer"):
            b = cx.body(f"{NI}::{fn}")
            ups = call_sites_through(prog, b, lambda c: name_matches(c.fn, f"{CM}::ActivePeersRef::upgrade"), depth=2)      # inlined view: helpers allowed
            ob.require(len(ups) == 1, f"{fn}/weak-upgrade", f"NetworkInner::{fn} does not go through ActivePeersRef::upgrade exactly once ({len(ups)})", b.path)
            bad = [c for c in b.calls() if name_matches(c.fn, ("Option::unwrap", "Option::expect", "Result::unwrap", "Result::expect")) and not b.is_cleanup(c.bb)]
            ob.require(not bad, f"{fn}/no-unwrap", f"NetworkInner::{fn} unwraps", b.path)
        sb = cx.body("anemo::network::Network::subscribe")
        tab = function_cases(prog, sb, atoms)
        if not tab or any(o_.startswith("?") for v_ in tab.values() for o_ in v_):
            # written through a helper on NetworkInner that existed on the pinned tree? evaluate that one
            for c_ in sb.calls():
                if c_.callee in prog.bodies and c_.callee.startswith(f"{NI}::"):
                    tab = function_cases(prog, prog.bodies[c_.callee], atoms)
        ok = table_lookup(tab, peers="None") == {"Err"} and table_lookup(tab, peers="Some") == {"Ok"}
        ob.require(ok and len(call_sites_through(prog, sb, lambda c: name_matches(c.fn, f"{CM}::ActivePeersRef::upgrade"), depth=2)) == 1,
                   "subscribe/weak-upgrade", f"Network::subscribe does not map a dead peer map to Err: cases {sorted((sorted(k), sorted(v)) for k, v in tab.items())}", sb.path)

    with cx.ob("C08.4", "R-SHAPE", "ownership: user service only in task-owned structs; NetworkInner has no service clone and only a weak peer map; single broadcast Sender") as ob:
        svc_owners = []
        sender_owners = []
        strong_ap = []
        for path, a in prog.adts.items():
            if not path.startswith("anemo::"):
                continue
            for v in a["variants"]:
                for f in v["fields"]:
                    if "BoxCloneService<anemo::types::request::Request<bytes::bytes::Bytes>, anemo::types::response::Response<bytes::bytes::Bytes>, core::convert::Infallible>" in f["ty"]:
                        svc_owners.append(path)
                    if "tokio::sync::broadcast::Sender<" in f["ty"]:
                        sender_owners.append(path)
                    if f["ty"].startswith(f"{CM}::ActivePeers") and not f["ty"].startswith(f"{CM}::ActivePeersRef") and not f["ty"].startswith(f"{CM}::ActivePeersInner"):
                        strong_ap.append(path)
        ob.require(sorted(set(svc_owners)) == sorted(["anemo::network::request_handler::BiStreamRequestHandler", "anemo::network::request_handler::InboundRequestHandler", MGR,
                                                      "anemo::routing::route::Route"]),
                   "service-owners", f"types owning the boxed user service: {sorted(set(svc_owners))}", "anemo")
        ob.require(sorted(set(sender_owners)) == [f"{CM}::ActivePeersInner"], "broadcast-sender-owner", f"broadcast::Sender owners: {sorted(set(sender_owners))}", "anemo")
        ob.require(sorted(set(strong_ap)) == sorted([MGR, "anemo::network::request_handler::InboundRequestHandler"]), "strong-peer-map-owners", f"strong ActivePeers owners: {sorted(set(strong_ap))}", "anemo")
        ni = cx.adt(NI)
        tys = {f["name"]: f["ty"] for f in ni["variants"][0]["fields"]}
        ob.require(tys.get("active_peers", "").startswith(f"{CM}::ActivePeersRef") and not any("BoxCloneService" in t or "Route" in t for t in tys.values()), "NetworkInner/weak-only",
                   f"NetworkInner fields: {tys}", NI)
        # ActivePeersRef is a Weak
        ar = cx.adt(f"{CM}::ActivePeersRef")
        ob.require(ar["variants"][0]["fields"][0]["ty"].startswith("alloc::sync::Weak<"), "ActivePeersRef/weak", "ActivePeersRef is not a Weak", ar["path"])
        # subscribe() hands out receivers only; no Sender clone escapes
        sc = [c for c in prog.callers_of(("<tokio::sync::broadcast::Sender<T> as core::clone::Clone>::clone",), crates=["anemo"])]
        ob.require(not sc, "broadcast-sender-cloned", "the peer-event Sender is cloned somewhere", "anemo")

    with cx.ob("C08.6", "R-DROP", "no future outside the shutdown-terminated tasks keeps the peer map / event sender or a clone of the user's service alive across an await") as ob:
        import re
        SENS = {
            "strong peer map (and its event sender)": [r"anemo::network::connection_manager::ActivePeers\b(?!Ref|Inner)",
                                                       r"alloc::sync::Arc<std::sync::poison::rwlock::RwLock<anemo::network::connection_manager::ActivePeersInner>"],
            "user service": [r"tower::util::boxed_clone::BoxCloneService<anemo::types::request::Request<bytes::bytes::Bytes>, anemo::types::response::Response<bytes::bytes::Bytes>, core::convert::Infallible>",
                             r"anemo::network::request_handler::(?:Inbound|BiStream)RequestHandler\b", r"anemo::network::connection_manager::ConnectionManager\b",
                             r"anemo::routing::route::Route\b", r"anemo::routing::Router\b"],
        }
        # tasks that shutdown() itself terminates (C08.1: pending_connections.shutdown(), connection_handlers drained; C12: per-connection JoinSet)
        ALLOWED = {
            ("strong peer map (and its event sender)", f"{MGR}::handle_incoming_task"): "task on pending_connections, shut down first thing in shutdown()",
            ("user service", f"{MGR}::shutdown"): "the manager task itself; returns at the end of shutdown()",
            ("user service", f"{MGR}::start"): "the manager task itself",
            ("user service", "anemo::network::request_handler::InboundRequestHandler::start"): "connection handler task, drained by shutdown()",
            ("user service", "anemo::network::request_handler::BiStreamRequestHandler::do_handle"): "request task on the connection handler's JoinSet",
            ("user service", "anemo::network::request_handler::BiStreamRequestHandler::handle"): "request task on the connection handler's JoinSet",
        }

        def owned(ty, pats):
            if ty.startswith(("&", "*const", "*mut")) or "{closure" in ty or "{async" in ty:
                return False
            for pat in pats:
                t = re.sub(r"&(?:'\w+ )?(?:mut )?" + pat, "", ty)
                if re.search(pat, t):
                    return True
            return False
        n_coro = n_loc = 0
        seen_allowed = set()
        for p, b in prog.bodies.items():
            if b.crate != "anemo" or not b.coroutine:
                continue
            n_coro += 1
            for i, l in enumerate(b.locals):
                if i <= 1:
                    continue
                for kind, pats in SENS.items():
                    if not owned(l.get("ty", ""), pats):
                        continue
                    n_loc += 1
                    ys = owned_live_at_yield(b, i)
                    if not ys:
                        continue
                    own = owner_path(prog, b)
                    if (kind, own) in ALLOWED:
                        seen_allowed.add((kind, own))
                        continue
                    ob.fail("refuted", f"held-across-await/{own}/{l.get('name') or 'tmp'}",
                            f"{p}: local `{l.get('name') or '_%d' % i}` ({l['ty'][:80]}) owns the {kind} while suspended at {b.loc(ys[0])}; this future is not one of the tasks shutdown() terminates, "
                            "so the reference can outlive shutdown (subscribers never see end-of-stream / API calls keep succeeding / the service is not released)", p, b.loc(ys[0]))
        ob.floor(n_coro, 35, "coroutine bodies scanned")
        ob.floor(n_loc, 6, "locals owning a sensitive value inspected")
        ob.floor(len(seen_allowed), 4, "known task-owned holders re-identified")

    with cx.ob("C08.7", "R-CALLERS", "closed world of task creation: every task of the library is the manager task or lives on one of the three JoinSets shutdown terminates (C08.1, C12.4); nothing is spawned detached") as ob:
        RH_ = "anemo::network::request_handler"
        TABLE = {
            "tokio::task::spawn::spawn": {"anemo::network::Builder::start": "the connection-manager task (ends when shutdown() returns)"},
            "tokio::task::join_set::JoinSet::spawn": {
                f"{MGR}::add_peer": "connection handler on self.connection_handlers (drained by shutdown)",
                f"{MGR}::start": "inbound handshake on self.pending_connections (shut down by shutdown) - the accept arm (handle_incoming is always inlined)",
                f"{MGR}::dial_peer": "outbound dial on self.pending_connections",
                f"{RH_}::InboundRequestHandler::start": "request task on the handler's local JoinSet (shut down at handler exit, C12.4)"},
            "tokio::task::blocking::spawn_blocking": {"anemo::types::address::Address::resolve": "DNS resolution, awaited in place; holds only the address"},
        }

        def is_spawn(callee):
            if not callee:           # a call through a function value: never one of the spawn APIs by name; its targets are
                return False         # the function items the body mentions, which are visited on their own
            segs = callee.split("::")
            last = segs[-1]
            return (segs[0] in ("tokio", "std", "futures", "futures_util", "async_std") and (last.startswith("spawn") or last in ("block_in_place",))
                    and not callee.startswith("std::process"))
        n = 0
        seen = set()
        for p_, b in prog.bodies.items():
            if b.crate != "anemo":
                continue
            for c in b.calls():
                if b.is_cleanup(c.bb) or not is_spawn(c.callee):
                    continue
                n += 1
                owns = owner_paths(prog, b)
                row = TABLE.get(c.callee, {})
                okc = bool(owns) and all(o_ in row for o_ in owns)
                ob.require(okc, f"spawn-site/{c.callee.split('::')[-1]}/{owner_path(prog, b)}",
                           f"{c.callee} in {b.path}: not one of the task-creation sites whose tasks shutdown() terminates ({sorted(k for r in TABLE.values() for k in r)}); "
                           "a task spawned elsewhere can outlive shutdown with whatever it owns (service clone, peer map, socket)", b.path, b.loc(c.bb))
                if okc:
                    seen.update((c.callee, o_) for o_ in owns)
                    o = Origins(b)
                    if c.callee.endswith("JoinSet::spawn") and owns[0].startswith(MGR):
                        t = o.of_operand(c.args[0])
                        ob.require(mentions_field(t, "connection_handlers") or mentions_field(t, "pending_connections"), f"spawn-site/set/{owner_path(prog, b)}",
                                   f"task spawned on {show(t)[:80]}, not on one of the manager's two JoinSets", b.path, b.loc(c.bb))
                    if c.callee == "tokio::task::spawn::spawn":
                        t = o.of_operand(c.args[0])
                        ob.require(term_has_call(t, f"{MGR}::start"), "spawn-site/manager-task", f"the detached task is {show(t)[:80]}, not ConnectionManager::start", b.path, b.loc(c.bb))
        for callee, _ in ((k, None) for k in TABLE):
            for b, bb in prog.fn_refs(callee, crates=["anemo"]):
                ob.fail("refuted", f"spawn-site/fnref/{owner_path(prog, b)}", f"{callee} used as a function value in {b.path}", b.path, b.loc(bb))
        ob.floor(n, 6, "task-creation call sites in crate anemo")
        ob.floor(len(seen), 6, "known task-creation sites re-identified")
        # ... and being on a JoinSet means being *waited for*: the connection handler does not return before
        # `inflight_requests.shutdown().await` completed - dropping the set only requests the abort, a request task in the middle
        # of a poll (holding a clone of the user's service and of the connection) would outlive shutdown()
        hco = cx.coroutine(f"{RH_}::InboundRequestHandler::start")
        hsh = [c for c in hco.calls_to("tokio::task::join_set::JoinSet::shutdown") if not hco.is_cleanup(c.bb)]
        if not hsh:
            ob.refute_and_stop("request-tasks/awaited-at-handler-exit", "the connection handler never awaits JoinSet::shutdown() of its request tasks (dropping the set does not wait for them)", hco.path)
        rets_ = hco.return_blocks()
        ob.require(all(hco.all_paths_pass(0, [r_], [c.bb for c in hsh], succ=hco.succ_noawait) for r_ in rets_), "request-tasks/awaited-at-handler-exit",
                   "a path on which the connection handler returns skips the shutdown of its request tasks", hco.path)
        ho_ = Origins(hco)
        sp_ = [c for c in hco.calls_to("tokio::task::join_set::JoinSet::spawn") if not hco.is_cleanup(c.bb)]
        ob.require(len(sp_) >= 1 and all(strip_identity(ho_.of_operand(c.args[0])) == strip_identity(ho_.of_operand(hsh[0].args[0])) for c in sp_), "request-tasks/same-set",
                   "the set that is shut down at handler exit is not the set the request tasks are spawned on", hco.path)
        ob.set_sample({"sites": sorted(f"{k.split('::')[-1]} in {o_}" for k, o_ in seen)})

    with cx.ob("C08.8", "R-SHAPE", "the bound UDP socket has a single owner, the QUIC endpoint (whose socket shutdown swaps out): no library type stores a socket handle and the socket is never duplicated") as ob:
        SOCK = ("std::net::udp::UdpSocket", "socket2::socket::Socket", "tokio::net::udp::UdpSocket", "std::os::fd::owned::OwnedFd", "std::os::fd::raw::RawFd", "quinn::runtime")
        n_f = 0
        for path, a in prog.adts.items():
            if not path.startswith("anemo::"):
                continue
            for v in a["variants"]:
                for f in v["fields"]:
                    n_f += 1
                    ob.require(not any(k in f["ty"] for k in SOCK), f"socket-holder/{path}.{f['name']}",
                               f"{path}.{f['name']}: {f['ty'][:80]} keeps a handle to the UDP socket - the address stays bound for as long as that value lives, whatever shutdown() does", path)
        ob.floor(n_f, 40, "fields of anemo types inspected")
        dups = [c for b_ in prog.bodies.values() if b_.crate == "anemo" for c in b_.calls() if not b_.is_cleanup(c.bb)
                and name_matches(c.fn, ("Socket::try_clone", "UdpSocket::try_clone", "OwnedFd::try_clone", "AsRawFd::as_raw_fd", "AsFd::as_fd", "IntoRawFd::into_raw_fd", "FromRawFd::from_raw_fd", "BorrowedFd::try_clone_to_owned"))]
        for c in dups:
            ob.fail("refuted", f"socket-duplicated/{owner_path(prog, c.body)}", f"{c.fn} in {c.body.path}: a second handle to the bound socket outlives the endpoint's own", c.body.path, c.body.loc(c.bb))
        # the socket created in Builder::start goes into the endpoint, nowhere else
        sb_ = cx.body("anemo::network::Builder::start")
        news = [c for b_ in [sb_] + list(prog.children(sb_)) for c in b_.calls() if not b_.is_cleanup(c.bb) and name_matches(c.fn, "socket2::socket::Socket::new")]
        ob.floor(news, 1, "socket creation in Builder::start", exact=True)
        en = [c for c in sb_.calls_to("anemo::endpoint::Endpoint::new") if not sb_.is_cleanup(c.bb)]
        ob.floor(en, 1, "Endpoint::new in Builder::start", exact=True)

    with cx.ob("C08.5", "R-PANIC", "panic inventory of manager / teardown / API code: every site justified; shutdown()'s empty-map assert is not dischargeable") as ob:
        lb = loop_body(cx)
        sh = cx.coroutine(f"{MGR}::shutdown")
        ents = [f"{MGR}::start", f"{MGR}::shutdown", cx.impl_method(MGR, "Drop", "drop").path, f"{MGR}::handle_connectivity_check", f"{MGR}::handle_connecting_result",
                f"{MGR}::dial_peer", f"{MGR}::dial_peer_task", f"{MGR}::add_peer",
                "anemo::types::address::Address::resolve", f"{EP}::close", f"{EP}::wait_idle", f"{EP}::rebind", f"{EP}::local_addr",
                f"{NI}::connect", f"{NI}::shutdown", f"{NI}::disconnect", f"{NI}::peer", f"{NI}::peers", f"{NI}::rpc", f"{NI}::is_closed", "anemo::network::NetworkRef::upgrade",
                "anemo::network::Network::subscribe"]
        for e in ents:
            cx.body(e)
        stop = {"anemo::network::request_handler::InboundRequestHandler::start", f"{MGR}::handle_incoming_task", "anemo::network::wire::handshake",
                cx.impl_method("anemo::network::peer::Peer", "Service", "call").path, "anemo::network::peer::Peer::rpc"}
        reach, sites = panic_sites(prog, ents, stop=stop, extra_edges=drop_edges(prog))
        ob.count(len(reach))

        def reraise_on_panic_edge(site, b):
            o = Origins(b)
            for sw, subj, labels in find_switch_on(b, lambda s: strip_identity(s)[0] == "call" and name_matches(strip_identity(s)[1], ("JoinError::is_panic", "JoinError::is_cancelled")), o):
                nm = strip_identity(subj)[1].split("::")[-1]
                for tgt, ls in labels.items():
                    if ((nm == "is_panic" and ls == {"true"}) or (nm == "is_cancelled" and ls == {"false"})) and b.dominates(tgt, site["bb"]):
                        return True
            return False

        def dial_bug_discharged(site, b):
            # every ConnectingOutput with maybe_oneshot: Some reaches oneshot.send in handle_connecting_result on both arms
            h = prog.body(f"{MGR}::handle_connecting_result")
            sends = [c for c in h.calls_to("tokio::sync::oneshot::Sender::send") if not h.is_cleanup(c.bb)]
            if not sends:
                return False
            ho_ = Origins(h)
            none_tgts = []
            for sw, subj, labels in find_switch_on(h, lambda s_: s_[0] == "discr" and mentions_field(s_[1], "maybe_oneshot"), ho_):
                none_tgts += [t_ for t_, ls in labels.items() if ls == {"None"}]
            through = {c.bb for c in sends} | set(none_tgts)
            # every way out either answered the oneshot or had none to answer (one send per arm, or one hoisted send)
            return all(h.all_paths_pass(0, [r], through) for r in h.return_blocks())

        from .c06 import const_index_ok, bounds_assert_ok, copy_len_ok
        W = "anemo::network::wire"
        hc = f"{MGR}::handle_connectivity_check"

        def eligible_has_address(site, b):
            # the dial loop only sees peers that passed the eligibility filter, which requires a non-empty address list
            for k in prog.children(b):
                ko_ = Origins(k)
                if any(name_matches(c.fn, "vec::Vec::is_empty") for c in k.calls()) and \
                        any(name_matches(c.fn, "HashMap::contains_key") and mentions_field(ko_.of_operand(c.args[0]), "connections") for c in k.calls()):
                    return True
            # ... or the written-out loop form of the same filter, in the function itself
            bo_ = Origins(b)
            if any(name_matches(c.fn, "vec::Vec::is_empty") and mentions_field(bo_.of_operand(c.args[0]), "address") and term_has_call(bo_.of_operand(c.args[0]), "HashMap::values")
                   for c in b.calls() if not b.is_cleanup(c.bb)) and \
                    any(name_matches(c.fn, "HashMap::contains_key") and mentions_field(bo_.of_operand(c.args[0]), "connections") for c in b.calls() if not b.is_cleanup(c.bb)):
                return True
            return False
        def rebind_refuses_nothing(site, b):
            # the wrapper adds no failure of its own: no Err is built in it, its `?`s are on the socket's local_addr() and on quinn's rebind only
            rb_ = prog.body(f"{EP}::rebind")
            if rb_ is None:
                return False
            ro_ = Origins(rb_)
            for bl in rb_.blocks:
                if bl.get("cleanup"):
                    continue
                for st in bl["s"]:
                    if st["k"] == "assign" and st["rv"]["k"] == "agg" and st["rv"].get("adt") == "core::result::Result" and st["rv"].get("variant") == "Err":
                        return False
            for c in rb_.calls():
                if rb_.is_cleanup(c.bb):
                    continue
                if name_matches(c.fn, "Try::branch"):
                    src = strip_identity(ro_.of_operand(c.args[0]))
                    if not (src[0] == "call" and name_matches(src[1], ("std::net::udp::UdpSocket::local_addr", "quinn::endpoint::Endpoint::rebind"))):
                        return False
                elif c.local or name_matches(c.fn or "", ("io::error::Error::new", "io::error::Error::other", "convert::From::from", "convert::Into::into")) and not name_matches(c.fn or "", "FromResidual::from_residual"):
                    return False
            return True
        PIN = "anemo::config::EndpointConfig::client_config_with_expected_server_identity"
        allow = {
            f"{PIN}/call:Result::unwrap#0": "rustls safe default protocol versions with the ring provider (static configuration)",
            f"{PIN}/call:Result::unwrap#1": "own certificate/key already accepted when the endpoint config was built",
            f"{PIN}/call:Result::unwrap#2": "QUIC client config from a TLS1.3-capable rustls config (static configuration)",
            "anemo::connection::Connection::try_peer_id/call:Option::unwrap#0": "peer_identity() is Some after a completed mTLS handshake (C01.6)",
            "anemo::connection::Connection::try_peer_id/call:Result::unwrap#0": "rustls peer identity is a Vec<CertificateDer>",
            "anemo::connection::Connection::try_peer_id/call:Index::index#0": "certificate chain is non-empty (mandatory client auth / server cert)",
            f"{hc}/assert:RemainderByZero#0": ("address list of an eligible peer is non-empty (eligibility filter)", eligible_has_address),
            f"{hc}/call:Vec::remove#0": ("index is `attempts % len` < len", eligible_has_address),
            f"{lb.path}/arith:Duration::mul_f64<?>#0": "1000ms × rand∈[0,1): finite, non-negative, no overflow",
            f"{lb.path}/arith:Add::add<Duration>#0": "configured interval + ≤1s jitter: overflows only for intervals near u64::MAX seconds (configuration-time)",
            f"{lb.path}/call:interval::interval#0": "period = configured interval + jitter; zero only for interval 0 ∧ jitter exactly 0 (configuration-time); runs inside a tokio task",
            f"{CM}::DialBackoffState::update/assert:Overflow#0": "attempts += 1 on usize: unreachable in practice (one increment per failed dial)",
            f"{CM}::DialBackoffState::update/arith:Add::add<Instant>#0": "now + min(max_backoff, ..): bounded by the configured maximum backoff",
            f"{W}::read_version_frame::{{closure#0}}/call:Index::index#0": ("constant range inside the 8-byte preamble buffer", const_index_ok),
            f"{W}::read_version_frame::{{closure#0}}/assert:BoundsCheck#0": ("constant index < 8", bounds_assert_ok),
            f"{W}::read_version_frame::{{closure#0}}/assert:BoundsCheck#1": ("constant index < 8", bounds_assert_ok),
            f"{W}::read_version_frame::{{closure#0}}/assert:BoundsCheck#2": ("constant index < 8", bounds_assert_ok),
            f"{W}::write_version_frame::{{closure#0}}/call:IndexMut::index_mut#0": ("constant range inside the 8-byte preamble buffer", const_index_ok),
            f"{W}::write_version_frame::{{closure#0}}/call:IndexMut::index_mut#1": ("constant range inside the 8-byte preamble buffer", const_index_ok),
            f"{W}::write_version_frame::{{closure#0}}/call:slice::copy_from_slice#0": ("destination range length == source length", copy_len_ok),
            f"{W}::write_version_frame::{{closure#0}}/call:slice::copy_from_slice#1": ("destination range length == source length", copy_len_ok),
            "anemo::types::address::Address::resolve::{closure#0}/call:blocking::spawn_blocking#0": "called from a tokio task (dial task): a runtime handle exists",
            f"{CM}::ActivePeers::inner/call:Result::unwrap#0": "RwLock poisoning: no panic site inside any critical section (C06.1b)",
            f"{CM}::ActivePeers::inner_mut/call:Result::unwrap#0": "RwLock poisoning: no panic site inside any critical section (C06.1b)",
            f"{CM}::KnownPeers::inner/call:Result::unwrap#0": "RwLock poisoning: no panic site inside any critical section (C06.1b)",
            f"{EP}::local_addr/call:Result::unwrap#0": "RwLock<SocketAddr> poisoning: writers only store a value",
            f"{EP}::rebind/call:Result::unwrap#0": "RwLock<SocketAddr> poisoning: writers only store a value",
            f"{sh.path}/call:Result::unwrap#0": "binding an ephemeral localhost UDP socket (documented socket-release hack)",
            f"{sh.path}/call:Result::unwrap#1": ("rebind onto the fresh socket (documented socket-release hack): Endpoint::rebind fails only where the OS / quinn fail, it refuses nothing itself", rebind_refuses_nothing),
            f"{sh.path}/call:Result::unwrap#2": "binding an ephemeral localhost UDP socket (documented socket-release hack)",
            f"{sh.path}/call:Result::unwrap#3": ("rebind onto the fresh socket (documented socket-release hack): Endpoint::rebind fails only where the OS / quinn fail, it refuses nothing itself", rebind_refuses_nothing),
            "anemo::types::address::Address::resolve::{closure#0}/call:Result::unwrap#0": "spawn_blocking join result: the closure only calls to_socket_addrs (no panic); cancellation impossible while awaited",
            f"{MGR}::handle_connectivity_check::{{closure#0}}/call:panicking::panic_fmt#0": ("'BUG: never finished dialing': every dial task output with a oneshot is answered in handle_connecting_result", dial_bug_discharged),
        }
        listed = []
        for s in sites:
            b = prog.body(s["body"])
            if (s["exp"] or "").split("::")[-1] == "select!":
                ob.evals += 1
                ob.matched += 1
                continue
            k = s["key"]
            listed.append(k)
            if s["what"] == "call:panic::resume_unwind" and s["body"] == lb.path:
                ob.evals += 1
                if reraise_on_panic_edge(s, b):
                    ob.matched += 1
                else:
                    ob.fail("refuted", f"panic/reraise-not-guarded/{k}", f"resume_unwind in {s['body']} is not guarded by is_panic()/!is_cancelled()", s["body"], b.loc(s["bb"]))
                continue
            if s["body"] == sh.path and s["what"] == "call:panicking::panic_fmt" and (s["exp"] or "").endswith("assert!"):
                ob.evals += 1
                ob.fail("refuted", f"{sh.path}/assert-active-peers-empty",
                        "shutdown(): `assert!(active_peers...is_empty())` after draining the handlers is not dischargeable: a handler's map entry is removed only by straight-line code at "
                        "the tail of its task, so a *cancelled* handler (runtime teardown) leaves its entry and the assert panics if the manager still reaches this point",
                        s["body"], b.loc(s["bb"]))
                continue
            if s["what"].startswith("assert:") and (s["exp"] or "") in ("debug_assert_eq!",) or (s["what"] == "call:panicking::assert_failed" and (s["exp"] or "").startswith("debug_assert")):
                ob.evals += 1
                ob.matched += 1      # debug_assert_eq!(peer_id, returned_peer_id): discharged by C03 (pinned dial returns the pinned id)
                continue
            a = allow.get(k)
            if a is None and static_bounds_ok(s, b):
                ob.evals += 1
                ob.matched += 1
                continue
            if a is None:
                ob.fail("refuted", f"panic/unlisted/{k}", f"panic-capable construct `{s['what']}` in {s['body']} (via {s['via']}) is not justified in the inventory", s["body"], b.loc(s["bb"]))
                continue
            ob.evals += 1
            if isinstance(a, tuple) and not a[1](s, b):
                ob.fail("refuted", f"panic/justification-failed/{k}", f"justification `{a[0]}` for `{s['what']}` in {s['body']} no longer holds", s["body"], b.loc(s["bb"]))
            else:
                ob.matched += 1
        ob.set_sample({"entries": len(ents), "reachable_bodies": len(reach), "sites": listed})
