"""C07 — Wire format: exact layout, lossless round trip, total decoder."""
from .engine import AnchorLost, Undecidable
from .lib import *
from .mir import Origins, show, strip_identity, walk, name_matches, term_has_call, place_local, place_proj, op_place

WIRE = "anemo::network::wire"

EXPLANATION = """
The wire layout is a set of constants and callee identities, all static: the check reconstructs the
8-byte preamble as a byte map from write_version_frame's buffer writes (offset ↦ source) and
requires bytes 0..=4 = the constant b"anemo", 5..=6 = u16::to_be_bytes(Version::to_u16(v)), 7 = 0 and
write_all of the whole array; in read_version_frame it requires read_exact into [u8; 8], rejection
(Err on the mismatch edges) unless buf[0..=4] == b"anemo" and buf[7] == 0, and version =
from_be_bytes([buf[5], buf[6]]) → Version::new. The frame codec must be built with
length_field_length(4) + big_endian and none of the offset/adjust/skip/endianness overrides, and all
four Framed{Read,Write} constructors take their codec from that function. The four message codecs
are compared as siblings on the event alphabet {version, frame(bincode header), frame(body)}: same
order, header type RawRequestHeader/RawResponseHeader serialised with top-level bincode
serialize_into/deserialize, body the untouched Bytes. Raw header field order and types, the absence of
serde field attributes, the closed Version and StatusCode tables (new(x) total with Err default,
new(v as u16) == v for every variant) and the 'missing frame ⇒ Err' discipline (every StreamExt::next
result goes through ok_or_else + two `?`) are decided from shapes and CFG paths; extensions never
reach a raw header and are Default on decode.
Serde helper attributes of the raw header types are read from the definition's source lines (the compiler drops them when lowering) and the derived impls may contain no custom (de)serialisation hook.
Total decoder: the panic inventory of the three decoders holds only constant in-bounds indexing of the 8-byte preamble buffer (re-checked).
"""
TRUSTED = ["serde/bincode round-trip of String, HashMap<String,String>, u16 (fixed-int little-endian default config)",
           "tokio-util LengthDelimitedCodec implements the configured length prefix",
           "tokio read_exact/write_all semantics"]
NOT_DECIDED = ["byte-level fuzzing of bincode / tokio-util decoders", "round trip of arbitrary strings and maps through bincode (trusted)"]
ASSUMPTIONS = []


def byte_map_of_writer(ob, b):
    """offset -> description of what write_version_frame stores there."""
    o = Origins(b)
    # the buffer: a [u8; 8] local initialised by repeat
    bufs = []
    for i, bl in enumerate(b.blocks):
        for s in bl["s"]:
            if s["k"] == "assign" and isinstance(s["lhs"], int) and s["rv"]["k"] == "repeat" and b.local_ty(s["lhs"]) == "[u8; 8]":
                bufs.append((s["lhs"], s["rv"]))
    ob.floor(bufs, 1, "[u8; 8] buffer initialised by repeat in write_version_frame", exact=True)
    buf, rep = bufs[0]
    init = int_of(o.of_operand(rep["op"]))
    n = rep["n"]
    ob.require(init == 0 and n.startswith("8"), "writer/buf-init", f"preamble buffer initialised as [{init}; {n}]", b.path)
    bmap = {i: ("const", init) for i in range(8)}

    def is_buf(t):
        s = strip_identity(t)
        return s[0] == "repeat"

    def range_of(t):
        s = strip_identity(t)
        if s[0] == "call" and name_matches(s[1], "RangeInclusive::new"):
            a, c = int_of(s[2][0]), int_of(s[2][1])
            return (a, c) if a is not None and c is not None else None
        if s[0] == "agg" and s[2].endswith("range::Range::Range"):
            a, c = int_of(s[3][0]), int_of(s[3][1])
            return (a, c - 1) if a is not None and c is not None else None
        if s[0] == "agg" and s[2].endswith("range::RangeTo::RangeTo"):
            c = int_of(s[3][0])
            return (0, c - 1) if c is not None else None
        if s[0] == "agg" and s[2].endswith("range::RangeFrom::RangeFrom"):
            a = int_of(s[3][0])
            return (a, 7) if a is not None else None
        return None

    for c in b.calls():
        if b.is_cleanup(c.bb):
            continue
        if name_matches(c.fn, ("slice::copy_from_slice", "slice::clone_from_slice")):
            dst = strip_identity(o.of_operand(c.args[0]))
            src = o.of_operand(c.args[1])
            if not (dst[0] == "call" and name_matches(dst[1], "IndexMut::index_mut") and is_buf(dst[2][0])):
                raise Undecidable(f"copy_from_slice destination {show(dst)}")
            r = range_of(dst[2][1])
            if r is None:
                raise Undecidable(f"slice range {show(dst[2][1])}")
            for k, off in enumerate(range(r[0], r[1] + 1)):
                bmap[off] = ("slice", src, k, r)
    # element assignments buf[i] = x
    for i, bl in enumerate(b.blocks):
        if bl.get("cleanup"):
            continue
        for s in bl["s"]:
            if s["k"] == "assign" and not isinstance(s["lhs"], int) and s["lhs"]["l"] == buf:
                pr = s["lhs"]["p"]
                if len(pr) == 1 and "i" in pr[0]:
                    off = int_of(o.of_local(pr[0]["i"]))
                    if off is None:
                        raise Undecidable("non-constant preamble index")
                    bmap[off] = ("elem", o.of_rvalue(s["rv"]))
                elif len(pr) == 1 and "ci" in pr[0]:
                    bmap[pr[0]["ci"]] = ("elem", o.of_rvalue(s["rv"]))
                else:
                    raise Undecidable(f"preamble buffer write through {pr}")
    return buf, bmap, o


def run(cx):
    prog = cx.prog

    with cx.ob("C07.1a", "R-CONST", "write_version_frame: bytes 0..=4 = b\"anemo\", 5..=6 = BE(version as u16), 7 = 0; whole array written") as ob:
        b = cx.coroutine(f"{WIRE}::write_version_frame")
        buf, bmap, o = byte_map_of_writer(ob, b)
        desc = {}
        for off, v in sorted(bmap.items()):
            if v[0] == "const":
                desc[off] = f"const {v[1]}"
            elif v[0] == "slice":
                src = strip_identity(v[1])
                cv = const_of(src)
                if cv is not None and cv.startswith('b"'):
                    lit = cv[2:-1]
                    desc[off] = f"lit {lit[v[2]]!r}" if v[2] < len(lit) and "\\" not in lit else f"lit? {cv}[{v[2]}]"
                elif src[0] == "call" and name_matches(src[1], "core::num::to_be_bytes"):
                    a = strip_identity(src[2][0])
                    okv = a[0] == "call" and name_matches(a[1], "anemo::types::Version::to_u16") and (mentions_upvar(a, "version") or mentions_param(a, "version"))
                    desc[off] = f"BE[{v[2]}] of {'version' if okv else show(a)}" if (v[3][1] - v[3][0] + 1) == 2 else f"BE? width {v[3]}"
                elif src[0] == "call" and name_matches(src[1], ("core::num::to_le_bytes", "core::num::to_ne_bytes")):
                    desc[off] = f"{src[1].split('::')[-1]}[{v[2]}]"
                else:
                    desc[off] = f"? {show(src)[:40]}[{v[2]}]"
            else:
                t = strip_identity(v[1])
                desc[off] = f"const {int_of(t)}" if int_of(t) is not None else f"? {show(t)[:40]}"
        want = {0: "lit 'a'", 1: "lit 'n'", 2: "lit 'e'", 3: "lit 'm'", 4: "lit 'o'", 5: "BE[0] of version", 6: "BE[1] of version", 7: "const 0"}
        for off in range(8):
            ob.require(desc.get(off) == want[off], f"writer/byte{off}", f"preamble byte {off} is `{desc.get(off)}`, layout requires `{want[off]}`", b.path, b.loc())
        ob.set_sample({"preamble_byte_map": desc})
        wa = b.calls_to("AsyncWriteExt::write_all")
        ob.floor(wa, 1, "write_all in write_version_frame", exact=True)
        t = strip_identity(arg_origin(wa[0], 1, o))
        ob.require(t[0] == "repeat", "writer/write-all-buf", f"write_all writes {show(t)}, not the whole preamble buffer", b.path, b.loc(wa[0].bb))
        ob.require(mentions_upvar(arg_origin(wa[0], 0, o), "send_stream"), "writer/stream", "write_all not on the send_stream parameter", b.path)
        # ANEMO constant
        ab = cx.body(f"{WIRE}::ANEMO")
        at = Origins(ab).of_local(0)
        ob.require(const_of(at) == 'b"anemo"', "ANEMO", f"ANEMO = {show(at)}", ab.path)
        # write_all result is propagated with `?`
        ws = seq_words(b, lambda c, oo: "write_all" if name_matches(c.fn, "AsyncWriteExt::write_all") else None,
                       lambda bb, s, oo: ("ret=Ok" if s["lhs"] == 0 and s["rv"]["k"] == "agg" and s["rv"].get("variant") == "Ok" else None))
        check_words(ob, b, ws, {"write_all ret=Ok <return>", "write_all !err <return>"}, "write_version_frame")
        tb = cx.body("anemo::types::Version::to_u16")
        tt = Origins(tb).of_local(0)
        ob.require(tt[0] == "cast" and (is_param(tt[1], "self") or (tt[1][0] == "discr" and is_param(tt[1][1], "self"))) and tt[2] == "u16", "Version::to_u16", f"Version::to_u16 = {show(tt)}", tb.path)

    with cx.ob("C07.1b", "R-EDGE", "read_version_frame: exactly 8 bytes; reject unless buf[0..=4]==b\"anemo\" and buf[7]==0; version = from_be_bytes([buf[5],buf[6]])") as ob:
        b = cx.coroutine(f"{WIRE}::read_version_frame")
        o = Origins(b)
        re_ = b.calls_to("AsyncReadExt::read_exact")
        ob.floor(re_, 1, "read_exact in read_version_frame", exact=True)
        t = strip_identity(arg_origin(re_[0], 1, o))
        bufl = None
        ok = t[0] == "repeat" and t[2].startswith("8") and int_of(t[1]) == 0
        ob.require(ok, "reader/buf", f"read_exact target is {show(t)}", b.path)
        ob.require(mentions_upvar(arg_origin(re_[0], 0, o), "recv_stream"), "reader/stream", "read_exact not on recv_stream", b.path)

        def buf_index(t):
            """('range', a, b) / ('elem', i) if t denotes an index of the preamble buffer"""
            s = strip_identity(t)
            if s[0] == "call" and name_matches(s[1], "ops::index::Index::index") and strip_identity(s[2][0])[0] == "repeat":
                r = strip_identity(s[2][1])
                rb = range_bounds(r, 8)
                if rb is not None:
                    return ("range", rb[0], rb[1] - 1)
            if s[0] == "index" and strip_identity(s[1])[0] == "repeat" and s[2].isdigit():
                return ("elem", int(s[2]))
            if s[0] == "agg" and s[1] == "array" and s[3]:
                # `[b0, b1, b2, b3, b4]` rebuilt from consecutive bytes of the buffer (array pattern / struct field)
                es = [buf_index(x) for x in s[3]]
                if all(e is not None and e[0] == "elem" for e in es) and [e[1] for e in es] == list(range(es[0][1], es[0][1] + len(es))):
                    return ("range", es[0][1], es[-1][1])
            return None

        def call_sym(c, oo):
            if name_matches(c.fn, "AsyncReadExt::read_exact"):
                return "read_exact(8)"
            if name_matches(c.fn, "anemo::types::Version::new"):          # (its result is what the function returns: checked on the words below)
                t = strip_identity(oo.of_operand(c.args[0]))
                ok = t[0] == "call" and name_matches(t[1], "core::num::from_be_bytes")
                if ok:
                    arr = strip_identity(t[2][0])
                    ok = arr[0] == "agg" and arr[1] == "array" and [buf_index(x) for x in arr[3]] == [("elem", 5), ("elem", 6)]
                return "ret=Version::new(BE[buf5,buf6])" if ok else f"ret=Version::new(?{show(t)[:60]})"
            if name_matches(c.fn, "FromResidual::from_residual"):
                return None
            return None

        def extra_edge(a, bb, subj, labels, oo):
            n = normalize_cmp(subj)
            if n is None:
                # `match buf[7] { 0 => .., _ => .. }`: the byte itself is the switch subject
                if buf_index(subj) == ("elem", 7) and not (labels & {"true", "false"}):
                    return "reserved=ok" if labels == {"0"} else ("reserved=bad" if "0" not in labels else None)
                return None
            neg, op, x, y = n
            if labels not in ({"true"}, {"false"}) or op not in ("eq", "ne"):
                return None
            equal = (labels == {"true"}) != neg
            if op == "ne":
                equal = not equal
            for p, q in ((x, y), (y, x)):
                bi = buf_index(p)
                if bi == ("range", 0, 4) and (const_of(q) == 'b"anemo"' or (strip_identity(q)[0] == "named" and strip_identity(q)[1].endswith("network::wire::ANEMO"))):
                    return f"magic={'ok' if equal else 'bad'}"
                if bi == ("elem", 7) and int_of(q) == 0:
                    return f"reserved={'ok' if equal else 'bad'}"
                if bi is not None:
                    return f"?cmp({bi},{show(q)[:30]})={equal}"
            return None

        def stmt_sym(bbi, s, oo):
            if s["lhs"] == 0 and s["rv"]["k"] == "agg" and s["rv"].get("adt") == "core::result::Result":
                return "ret=" + s["rv"]["variant"]
            return None
        ws = seq_words(b, call_sym, stmt_sym, extra_edge)
        # order of the two tests is free; normalise
        norm = set()
        for w in ws:
            # an error exit is an error exit whether written `return Err(..)` / `bail!` or propagated with `?` from a helper
            w = ["ret=Err" if x == "!err" else x for x in w]
            w = [x for i_, x in enumerate(w) if not (x == "ret=Err" and i_ > 0 and w[i_ - 1] == "ret=Err")]
            norm.add(tuple(w))
        allowed = {
            "read_exact(8) ret=Err <return>",
            "read_exact(8) magic=bad ret=Err <return>",
            "read_exact(8) magic=ok reserved=bad ret=Err <return>",
            "read_exact(8) magic=ok reserved=ok ret=Version::new(BE[buf5,buf6]) <return>",
        }
        alt = {
            "read_exact(8) ret=Err <return>",
            "read_exact(8) reserved=bad ret=Err <return>",
            "read_exact(8) reserved=ok magic=bad ret=Err <return>",
            "read_exact(8) reserved=ok magic=ok ret=Version::new(BE[buf5,buf6]) <return>",
        }
        got = {fmt_word(w) for w in norm}
        check_words(ob, b, norm, alt if got == alt else allowed, "read_version_frame")

    with cx.ob("C07.2", "R-CONST", "frame codec: 4-byte big-endian length prefix, no offset/adjust/skip; all Framed{Read,Write} use it") as ob:
        b = cx.body(f"{WIRE}::network_message_frame_codec")
        o = Origins(b)
        lf = b.calls_to("length_delimited::Builder::length_field_length")
        ob.floor(lf, 1, "length_field_length call", exact=True)
        ob.require(int_of(arg_origin(lf[0], 1, o)) == 4, "codec/len-width", f"length_field_length({show(arg_origin(lf[0], 1, o))})", b.path, b.loc(lf[0].bb))
        ob.floor(b.calls_to("length_delimited::Builder::big_endian"), 1, "big_endian call", exact=True)
        for bad in ("little_endian", "native_endian", "length_field_offset", "length_adjustment", "num_skip", "length_field_type"):
            ob.require(not b.calls_to(f"length_delimited::Builder::{bad}"), f"codec/forbidden-{bad}", f"frame codec builder calls {bad}()", b.path)
        nc = b.calls_to("length_delimited::Builder::new_codec")
        ob.floor(nc, 1, "new_codec", exact=True)
        t = arg_origin(nc[0], 0, o)
        # the setters take and return `&mut Builder`: chained or as separate statements, what matters is that they act on
        # the one builder that makes the returned codec, before it is made
        SETTERS = ("length_delimited::Builder::length_field_length", "length_delimited::Builder::big_endian", "length_delimited::Builder::max_frame_length")
        bld = b.calls_to("LengthDelimitedCodec::builder")
        ob.floor(bld, 1, "LengthDelimitedCodec::builder()", exact=True)

        def on_builder(term):
            r = strip_identity(term, SETTERS)
            return r[0] == "call" and name_matches(r[1], "LengthDelimitedCodec::builder") and r[3] == bld[0].bb
        be = b.calls_to("length_delimited::Builder::big_endian")
        ok = nc[0].dest == 0 and on_builder(t) and on_builder(arg_origin(lf[0], 0, o)) and on_builder(arg_origin(be[0], 0, o)) \
            and b.dominates(lf[0].bb, nc[0].bb) and b.dominates(be[0].bb, nc[0].bb)
        ob.require(ok, "codec/chain", f"codec returned is built from {show(t)} (width/endianness not set on that builder before new_codec)", b.path)
        # every path reaches length_field_length, big_endian on the same builder
        must_pass(ob, b, [lf[0].bb], key="codec/len-on-all-paths")
        # all framed constructors use it
        n = 0
        for ctor in ("tokio_util::codec::framed_read::FramedRead::new", "tokio_util::codec::framed_write::FramedWrite::new",
                     "tokio_util::codec::framed::Framed::new", "FramedRead::with_capacity", "FramedWrite::with_capacity"):
            for c in prog.callers_of(ctor, crates=["anemo"]):
                n += 1
                t = strip_identity(arg_origin(c, 1))
                ob.require(t[0] == "call" and name_matches(t[1], f"{WIRE}::network_message_frame_codec"), f"framed/codec-arg/{owner_path(prog, c.body)}",
                           f"{c.fn} in {c.body.path} uses codec {show(t)[:80]}", c.body.path, c.body.loc(c.bb))
        ob.floor(n, 4, "Framed{Read,Write}::new sites in anemo")
        for c in prog.callers_of(("LengthDelimitedCodec::new", "LengthDelimitedCodec::builder", "length_delimited::Builder::new"), crates=["anemo"]):
            ob.require(c.body.path == b.path, f"codec/other-builder/{owner_path(prog, c.body)}", f"a length-delimited codec is built in {c.body.path}", c.body.path)

    # ---- sibling agreement of the four message codecs ---------------------------------------------
    def codec_events(fn, direction, raw):
        b = cx.coroutine(f"{WIRE}::{fn}")

        def call_sym(c, oo):
            aw = await_target(c)
            if aw is not None:
                return None
            if name_matches(c.fn, f"{WIRE}::write_version_frame"):
                t0 = strip_identity(oo.of_operand(c.args[0]))
                t1 = strip_identity(oo.of_operand(c.args[1]))
                ok = t0[0] == "call" and name_matches(t0[1], "FramedWrite::get_mut") and t1[0] == "call" and t1[1].endswith("::version")
                return "version" if ok else "version(?)"
            if name_matches(c.fn, f"{WIRE}::read_version_frame"):
                t0 = strip_identity(oo.of_operand(c.args[0]))
                return "version" if t0[0] == "call" and name_matches(t0[1], "FramedRead::get_mut") else "version(?)"
            if name_matches(c.fn, "bincode::serialize_into"):
                ok = c.ga[-1] == raw and term_has_call(oo.of_operand(c.args[1]), f"{raw}::from_header")
                return "encode(header)" if ok else f"encode(?{c.ga[-1]})"
            if name_matches(c.fn, "futures_util::sink::SinkExt::send"):
                t = strip_identity(oo.of_operand(c.args[1]))
                if t[0] == "call" and name_matches(t[1], "BytesMut::freeze"):
                    bufc = strip_identity(t[2][0])
                    sers = [x for x in b.calls_to("bincode::serialize_into")]
                    same = sers and any(y[0] == "call" and y[3] == bufc[3] for y in walk(oo.of_operand(sers[0].args[0]))) if bufc[0] == "call" else False
                    return "frame(header)" if same else "frame(?buf)"
                if t[0] == "field" and t[2] == "1" and term_has_call(t, ("Request::into_parts", "Response::into_parts")):
                    return "frame(body)"
                return f"frame(?{show(t)[:40]})"
            if name_matches(c.fn, "futures_util::stream::stream::StreamExt::next"):
                return "next"
            if name_matches(c.fn, "Option::ok_or_else"):
                return "eof->err"
            if name_matches(c.fn, ("Option::unwrap_or_default", "Option::unwrap_or", "Option::unwrap", "Option::expect", "Option::unwrap_or_else")):
                return "eof->?" + c.fn.split("::")[-1]
            if name_matches(c.fn, "bincode::deserialize"):
                t = oo.of_operand(c.args[0])
                return "decode(header)" if c.ga[-1] == raw and term_has_call(t, "StreamExt::next") else f"decode(?{c.ga[-1]})"
            if name_matches(c.fn, ("bincode::config", "bincode::options", "bincode::DefaultOptions::new", "bincode::serialize", "bincode::deserialize_from",
                                   "bincode::serialized_size")):
                return "bincode?" + c.fn.split("::")[-1]
            if name_matches(c.fn, ("RequestHeader::from_raw", "ResponseHeader::from_raw")):
                a0 = oo.of_operand(c.args[0])
                a1 = oo.of_operand(c.args[1])
                ok = term_has_call(a0, "bincode::deserialize") and term_has_call(a1, f"{WIRE}::read_version_frame")
                return "from_raw(header,version)" if ok else "from_raw(?)"
            if name_matches(c.fn, ("Request::from_parts", "Response::from_parts")):
                a0 = oo.of_operand(c.args[0])
                a1 = strip_identity(oo.of_operand(c.args[1]))
                ok = term_has_call(a0, ("RequestHeader::from_raw", "ResponseHeader::from_raw")) and a1[0] == "call" and name_matches(a1[1], "BytesMut::freeze") and term_has_call(a1, "StreamExt::next")
                return "from_parts(header,body)" if ok else "from_parts(?)"
            return None

        def stmt_sym(bbi, s, oo):
            if s["lhs"] == 0 and s["rv"]["k"] == "agg" and s["rv"].get("adt") == "core::result::Result":
                return "ret=" + s["rv"]["variant"]
            return None
        ws = seq_words(b, call_sym, stmt_sym)
        return b, ws

    enc = "version encode(header) frame(header) frame(body) ret=Ok <return>"
    for fn, raw in (("write_request", "anemo::types::request::RawRequestHeader"), ("write_response", "anemo::types::response::RawResponseHeader")):
        with cx.ob(f"C07.3-{fn}", "R-SIBLING", f"{fn}: version, frame(bincode header), frame(body) in this order; every IO error propagated") as ob:
            b, ws = codec_events(fn, "w", raw)
            okw = {fmt_word(w) for w in ok_words(ws)}
            ob.require(okw == {enc}, f"{fn}/order", f"{fn}: success paths are {sorted(okw)}, expected `{enc}`", b.path, b.loc())
            errs = {fmt_word(w) for w in ws if "!err" in w}
            ob.require(errs == {"version !err <return>", "version encode(header) frame(header) !err <return>",
                                "version encode(header) frame(header) frame(body) !err <return>"}, f"{fn}/errors",
                       f"{fn}: error exits are {sorted(errs)}", b.path, b.loc())
            ob.set_sample({"codec": fn, "words": sorted(okw | errs)})
    for fn, raw in (("read_request", "anemo::types::request::RawRequestHeader"), ("read_response", "anemo::types::response::RawResponseHeader")):
        with cx.ob(f"C07.3-{fn}", "R-SIBLING", f"{fn}: version, frame → bincode header, frame → body; a missing frame is an error") as ob:
            b, ws = codec_events(fn, "r", raw)
            # `next().await.ok_or_else(EOF)??` and the written-out `match` (Some(Ok(f)) / Some(Err(e)) => Err / None => Err(EOF))
            # are the same reader: the explicit error edges are canonicalised to `!err` by words_of, the combinator shows
            # up as `eof->err`; compare modulo that token (a None/Err edge that does NOT end in an error stays visible
            # as `[None]` / `[Err]` and refutes the success-path equality below)
            def canon(w_):
                return w_.replace(" eof->err", "")
            okw = {canon(fmt_word(w)) for w in ok_words(ws)}
            dec = canon("version next eof->err decode(header) from_raw(header,version) next eof->err from_parts(header,body) ret=Ok <return>")
            ob.require(okw == {dec}, f"{fn}/order", f"{fn}: success paths are {sorted(okw)}, expected `{dec}`", b.path, b.loc())
            # each `next` is followed by ok_or_else and two `?` before its value is used
            o = Origins(b)
            for c in b.calls_to("Option::ok_or_else"):
                t = o.of_operand(c.args[0])
                ob.require(term_has_call(t, "StreamExt::next"), f"{fn}/ok_or_else-on-next", f"ok_or_else applied to {show(t)[:60]}", b.path, b.loc(c.bb))
            if b.calls_to("Option::ok_or_else"):
                for c in b.calls_to(("bincode::deserialize", "BytesMut::freeze")):
                    t = o.of_operand(c.args[0])
                    n_try = len([x for x in walk(t) if x[0] == "call" and name_matches(x[1], "Try::branch")])
                    ob.require(n_try >= 2 and term_has_call(t, "Option::ok_or_else"), f"{fn}/double-try/{c.fn.split('::')[-1]}",
                               f"{fn}: frame consumed by {c.fn} is {show(t)[:80]} (EOF / IO error not both propagated)", b.path, b.loc(c.bb))
            else:
                for c in b.calls_to(("bincode::deserialize", "BytesMut::freeze")):
                    t = o.of_operand(c.args[0])
                    ob.require(term_has_call(t, "StreamExt::next") and not term_has_call(t, ("Option::unwrap_or_default", "Option::unwrap_or", "Result::unwrap_or_default", "Result::unwrap_or")),
                               f"{fn}/frame-from-next/{c.fn.split('::')[-1]}", f"{fn}: frame consumed by {c.fn} is {show(t)[:80]}", b.path, b.loc(c.bb))
            errs = {canon(fmt_word(w)) for w in ws if "!err" in w}
            want = {canon(x) for x in ("version !err <return>", "version next eof->err !err <return>", "version next eof->err decode(header) !err <return>",
                                       "version next eof->err decode(header) from_raw(header,version) next eof->err !err <return>")}
            if fn == "read_response":
                want.add(canon("version next eof->err decode(header) from_raw(header,version) !err <return>"))
            ob.require(errs == want, f"{fn}/error-exits", f"{fn}: error exits are {sorted(errs)}", b.path)
            vis = [fmt_word(w) for w in ws if any(x in ("[None]", "[Err]") for x in w)]
            ob.require(not vis, f"{fn}/missing-frame-is-error", f"{fn}: a missing frame / IO error edge does not end in an error: {vis[:2]}", b.path)

    with cx.ob("C07.4", "R-SHAPE", "raw headers: exact fields/order/types, serde derives without field attributes; from_header/from_raw map field to field; extensions never travel") as ob:
        rq = cx.adt("anemo::types::request::RawRequestHeader")
        rs = cx.adt("anemo::types::response::RawResponseHeader")
        hm = "std::collections::hash::map::HashMap<alloc::string::String, alloc::string::String>"
        f = [(x["name"], x["ty"]) for x in rq["variants"][0]["fields"]]
        ob.require(f == [("route", "alloc::string::String"), ("headers", hm)], "RawRequestHeader/fields", f"RawRequestHeader fields {f}", rq["path"])
        f = [(x["name"], x["ty"]) for x in rs["variants"][0]["fields"]]
        ob.require(f == [("status", "u16"), ("headers", hm)], "RawResponseHeader/fields", f"RawResponseHeader fields {f}", rs["path"])
        for a in (rq, rs):
            # (the compiler drops derive-helper attributes while lowering, so they are read from the definition's source lines)
            ty_at, f_at = source_helper_attrs(cx.repo or "/repo", a)
            ob.require(not ty_at and not f_at, f"{a['path']}/serde-attrs", f"{a['path']} carries serde attributes {ty_at} {f_at}: rename / default / skip / (de)serialize_with change what travels or run extra code on untrusted input", a["path"])
            # ... and `with`-style hooks show up as wrapper types inside the derived impls
            nested = sorted({p_.rsplit("::", 1)[-1] for p_ in prog.adts if f"for {a['path']}>" in p_})
            ob.require(set(nested) <= {"__Field", "__FieldVisitor", "__Visitor"}, f"{a['path']}/serde-hooks", f"derived serde impls of {a['path']} contain {nested} (a custom (de)serialisation hook)", a["path"])
            for tr in ("serde_core::ser::Serialize", "serde_core::de::Deserialize", "serde::ser::Serialize", "serde::de::Deserialize"):
                pass
            ims = [im for im in prog.impls if im["self_ty"] == a["path"] and im["trait"] and im["trait"].split("::")[-1] in ("Serialize", "Deserialize")]
            ob.require(len(ims) == 2 and all(i["derived"] for i in ims), f"{a['path']}/serde-derive", f"{a['path']}: serde impls {[(i['trait'], i['derived']) for i in ims]}", a["path"])
        # field-to-field maps
        b = cx.body("anemo::types::request::RawRequestHeader::from_header")
        t = Origins(b).of_local(0)
        m = dict(zip(t[4], t[3])) if t[0] == "agg" else {}
        ok = all(k in m and strip_identity(m[k])[0] == "field" and strip_identity(m[k])[2] == k and is_param(strip_identity(m[k])[1], "header") for k in ("route", "headers"))
        ob.require(ok, "RawRequestHeader::from_header", f"from_header builds {show(t)}", b.path)
        b = cx.body("anemo::types::response::RawResponseHeader::from_header")
        t = Origins(b).of_local(0)
        raw = t[3][0] if t[0] == "agg" and t[1] == "tuple" else ("unknown",)
        m = dict(zip(raw[4], raw[3])) if raw[0] == "agg" else {}
        st = strip_identity(m.get("status", ("unknown",)))
        ok = st[0] == "call" and name_matches(st[1], "StatusCode::to_u16") and mentions_field(st, "status") and mentions_param(st, "header") \
            and mentions_field(m.get("headers", ("unknown",)), "headers")
        ob.require(ok, "RawResponseHeader::from_header", f"from_header builds {show(t)}", b.path)
        sb = cx.body("anemo::types::response::StatusCode::to_u16")
        tt = Origins(sb).of_local(0)
        ob.require(tt[0] == "cast" and (is_param(tt[1], "self") or (tt[1][0] == "discr" and is_param(tt[1][1], "self"))) and tt[2] == "u16", "StatusCode::to_u16", f"StatusCode::to_u16 = {show(tt)}", sb.path)
        b = cx.body("anemo::types::request::RequestHeader::from_raw")
        t = Origins(b).of_local(0)
        m = dict(zip(t[4], t[3])) if t[0] == "agg" else {}
        ok = mentions_field(m.get("route", ("u",)), "route") and mentions_param(m.get("route", ("u",)), "raw_header") and is_param(m.get("version", ("u",)), "version") \
            and mentions_field(m.get("headers", ("u",)), "headers") and strip_identity(m.get("extensions", ("u",)))[0] == "call" \
            and name_matches(strip_identity(m["extensions"])[1], "Default::default")
        ob.require(ok, "RequestHeader::from_raw", f"from_raw builds {show(t)}", b.path)
        b = cx.body("anemo::types::response::ResponseHeader::from_raw")
        aggs = [s for bl in b.blocks if not bl.get("cleanup") for s in bl["s"] if s["k"] == "assign" and s["rv"]["k"] == "agg" and s["rv"].get("adt") == "anemo::types::response::ResponseHeader"]
        ob.floor(aggs, 1, "ResponseHeader aggregate in from_raw", exact=True)
        t = Origins(b).of_rvalue(aggs[0]["rv"])
        m = dict(zip(t[4], t[3]))
        st = m["status"]
        ok = term_has_call(st, "StatusCode::new") and term_has_call(st, "Try::branch") and mentions_field(st, "status") and is_param(m["version"], "version") \
            and mentions_field(m["headers"], "headers") and name_matches(strip_identity(m["extensions"])[1] if strip_identity(m["extensions"])[0] == "call" else "", "Default::default")
        ob.require(ok, "ResponseHeader::from_raw", f"from_raw builds {show(t)[:200]}", b.path)
        # no raw header (transitively) holds Extensions / PeerId
        for a in (rq, rs):
            tys = " ".join(x["ty"] for x in a["variants"][0]["fields"])
            ob.require("Extensions" not in tys and "PeerId" not in tys, f"{a['path']}/no-extensions", f"{a['path']} carries {tys}", a["path"])

    with cx.ob("C07.5", "R-TABLE", "Version::new and StatusCode::new are total, closed tables consistent with the enum discriminants") as ob:
        for path, enum, default_err in (("anemo::types::Version::new", "anemo::types::Version", True),
                                        ("anemo::types::response::StatusCode::new", "anemo::types::response::StatusCode", True)):
            b = cx.body(path)
            a = cx.adt(enum)
            discr = {v["name"]: v["discr"] for v in a["variants"]}
            # the conversion as a table over every discriminant, every other constant it mentions and one fresh code - whether it
            # is a match on the integer, a guard chain, or `if code != K { return Err }`
            table, fresh = int_enum_table(prog, b, enum, discr)
            ob.count(len(table))
            by_code = {v: k for k, v in discr.items()}
            for code, outs in sorted(table.items()):
                if code in by_code:
                    ob.require(outs == {by_code[code]}, f"{path}/row/{code}", f"{path}: code {code} ↦ {sorted(outs)} but discriminants are {discr}", b.path, b.loc())
                else:
                    ob.require(outs == {"Err"}, f"{path}/default-err", f"{path}: code {code if code != fresh else 'any other'} ↦ {sorted(outs)}: the table is not closed (must be Err)", b.path, b.loc())
            ob.set_sample({"fn": path, "table": {str(k if k != fresh else "other"): sorted(v) for k, v in table.items()}})

    with cx.ob("C07.6", "R-CALLERS", "closed world of the codec path: the four message codecs and the header conversions call nothing that could transform route/headers/body") as ob:
        allowed = (
            f"{WIRE}::read_version_frame", f"{WIRE}::write_version_frame",
            "anemo::types::request::RawRequestHeader::from_header", "anemo::types::request::Request::from_parts", "anemo::types::request::Request::into_parts",
            "anemo::types::request::Request::version", "anemo::types::request::RequestHeader::from_raw",
            "anemo::types::response::RawResponseHeader::from_header", "anemo::types::response::Response::from_parts", "anemo::types::response::Response::into_parts",
            "anemo::types::response::Response::version", "anemo::types::response::ResponseHeader::from_raw",
            "anemo::types::response::StatusCode::new", "anemo::types::response::StatusCode::to_u16",
            "bincode::deserialize", "bincode::serialize_into", "bytes::buf::buf_mut::BufMut::writer", "bytes::bytes_mut::BytesMut::freeze", "bytes::bytes_mut::BytesMut::new",
            "bytes::bytes_mut::BytesMut::with_capacity",
            "core::default::Default::default", "core::future::future::Future::poll", "core::future::get_context", "core::future::into_future::IntoFuture::into_future",
            "core::ops::deref::Deref::deref", "core::ops::deref::DerefMut::deref_mut", "core::ops::try_trait::FromResidual::from_residual", "core::ops::try_trait::Try::branch",
            "core::option::Option::ok_or_else", "core::option::Option::ok_or", "core::pin::Pin::new_unchecked", "core::result::Result::expect", "core::result::Result::map_err",
            "core::convert::Into::into", "core::convert::From::from", "core::mem::drop",
            "futures_util::sink::SinkExt::send", "futures_util::stream::stream::StreamExt::next",
            "tokio_util::codec::framed_read::FramedRead::get_mut", "tokio_util::codec::framed_write::FramedWrite::get_mut",
        )
        bodies = [cx.coroutine(f"{WIRE}::{f}") for f in ("write_request", "write_response", "read_request", "read_response")]
        bodies += [cx.body(p) for p in ("anemo::types::request::RawRequestHeader::from_header", "anemo::types::response::RawResponseHeader::from_header",
                                        "anemo::types::request::RequestHeader::from_raw", "anemo::types::response::ResponseHeader::from_raw",
                                        "anemo::types::request::Request::into_parts", "anemo::types::request::Request::from_parts",
                                        "anemo::types::response::Response::into_parts", "anemo::types::response::Response::from_parts")]
        n = 0
        for b in bodies:
            for c in b.calls():
                if b.is_cleanup(c.bb) or is_tracing(c) or in_ignored_expansion(b, c.bb):
                    continue
                n += 1
                ok = c.fn is not None and c.fn in allowed
                ob.require(ok, f"codec-path/unexpected-call/{owner_path(prog, b)}/{(c.fn or str(c.fty)).split('::')[-1]}",
                           f"{b.path} calls {c.fn or c.fty}: the codec path may only move route/headers/body between the message and the frames "
                           f"(closed allow-list; a transforming call here changes what is delivered)", b.path, b.loc(c.bb))
        ob.floor(n, 60, "calls inspected in the codec path")
        # and no field of the message parts is written in place on the codec path (headers.insert / status = ..)
        for b in bodies:
            for i, bl in enumerate(b.blocks):
                if bl.get("cleanup"):
                    continue
                for s in bl["s"]:
                    if s["k"] == "assign" and not isinstance(s["lhs"], int):
                        names = [e.get("n") for e in s["lhs"]["p"] if isinstance(e, dict) and "f" in e]
                        adts = [e.get("a") for e in s["lhs"]["p"] if isinstance(e, dict) and "f" in e]
                        if any(a and (a.startswith("anemo::types::request::") or a.startswith("anemo::types::response::")) for a in adts):
                            ob.fail("refuted", f"codec-path/in-place-write/{owner_path(prog, b)}/{'.'.join(str(x) for x in names)}",
                                    f"{b.path} writes message field {names} in place on the codec path", b.path, b.loc(i))

    with cx.ob("C07.7", "R-PANIC", "total decoder: the panic inventory of the three decoders (read_version_frame, read_request, read_response) and everything they call in the workspace holds only constant, in-bounds indexing of the 8-byte preamble buffer") as ob:
        from .c06 import const_index_ok, bounds_assert_ok
        rv = f"{WIRE}::read_version_frame::{{closure#0}}"
        allow = {f"{rv}/call:Index::index#0": ("constant range inside the 8-byte preamble buffer", const_index_ok)}
        for n_ in range(3):
            allow[f"{rv}/assert:BoundsCheck#{n_}"] = ("constant index < 8", bounds_assert_ok)
        ents = [f"{WIRE}::read_version_frame", f"{WIRE}::read_request", f"{WIRE}::read_response"]
        reach, sites, used = check_panic_inventory(ob, prog, ents, allow, key_prefix="decoder-panic")
        ob.floor(len(reach), 8, "workspace bodies reachable from the decoders")
