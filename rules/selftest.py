"""Checker self-validation: every mutant patch must make its property's check fire, every neutral patch
must keep it silent.  Patches are applied to scratch copies of /repo's *current working tree* (outside
/repo and /verif), facts are re-extracted with the same driver, the rules evaluated, and the copy is
deleted immediately.  This validates the checker; the verdict on the property is always the rule
evaluation on /repo itself."""
import concurrent.futures
import glob
import json
import os
import shutil
import subprocess
import sys
import tempfile
import time

from . import facts

VERIF = facts.VERIF
WORKERS = int(os.environ.get("VERIF_SELFTEST_WORKERS", "8"))


def corpus(prop):
    """[(kind, name, patch path)] for one property: selftest/mutants/<prop>-*.patch, selftest/neutral/<prop>-*.patch,
    selftest/neutral/ALL-*.patch and seeded/<id>/patch.diff whose meta.json names the property."""
    out = []
    for p in sorted(glob.glob(os.path.join(VERIF, "selftest", "mutants", f"{prop}-*.patch"))):
        out.append(("mutant", os.path.basename(p)[:-6], p))
    for p in sorted(glob.glob(os.path.join(VERIF, "selftest", "neutral", f"{prop}-*.patch"))) + sorted(glob.glob(os.path.join(VERIF, "selftest", "neutral", "ALL-*.patch"))):
        out.append(("neutral", os.path.basename(p)[:-6], p))
    for m in sorted(glob.glob(os.path.join(VERIF, "seeded", "*", "meta.json"))):
        try:
            meta = json.load(open(m))
        except Exception:
            continue
        props = meta.get("caught_by") or [meta.get("property")]
        if prop in props and meta.get("expect", "fire") == "fire":
            pd = os.path.join(os.path.dirname(m), "patch.diff")
            if os.path.isfile(pd):
                out.append(("seeded", os.path.basename(os.path.dirname(m)), pd))
    return out


def make_scratch(repo):
    d = tempfile.mkdtemp(prefix="anemo-selftest-")
    r = subprocess.run(["git", "-C", repo, "ls-files", "-co", "--exclude-standard", "-z"], stdout=subprocess.PIPE)
    files = [f for f in r.stdout.decode().split("\0") if f and not f.startswith("target/")]
    if "Cargo.lock" not in files and os.path.isfile(os.path.join(repo, "Cargo.lock")):
        files.append("Cargo.lock")      # git-ignored but part of what the build resolves against
    for f in files:
        src = os.path.join(repo, f)
        if not os.path.isfile(src):
            continue
        dst = os.path.join(d, f)
        os.makedirs(os.path.dirname(dst), exist_ok=True)
        shutil.copy2(src, dst)
    return d


def evaluate(prop, kind, name, patch, worker):
    """Returns dict(name, kind, ok, fired, keys, wall_s, error)."""
    from .engine import run_property
    t0 = time.time()
    scratch = make_scratch(facts.REPO)
    try:
        r = subprocess.run(["git", "apply", "--whitespace=nowarn", patch], cwd=scratch, stdout=subprocess.PIPE, stderr=subprocess.STDOUT, text=True)
        if r.returncode != 0:
            r2 = subprocess.run(["patch", "-p1", "-s", "-i", patch], cwd=scratch, stdout=subprocess.PIPE, stderr=subprocess.STDOUT, text=True)
            if r2.returncode != 0:
                return {"name": name, "kind": kind, "ok": False, "fired": None, "keys": [], "wall_s": round(time.time() - t0, 1),
                        "error": "patch does not apply to the current tree: " + (r.stdout + r2.stdout)[-300:]}
        try:
            violations, known_hits, ev, all_obs = run_property(prop, "quick", configs=["dev"], repo=scratch, target=f"target-st{worker}")
        except facts.ExtractionError as e:
            return {"name": name, "kind": kind, "ok": False, "fired": None, "keys": [], "wall_s": round(time.time() - t0, 1),
                    "error": "patched tree does not type-check: " + str(e)[-300:]}
        fired = len(violations) > 0
        ok = fired if kind in ("mutant", "seeded") else (not fired)
        return {"name": name, "kind": kind, "ok": ok, "fired": fired, "keys": [v.key for v in violations][:6], "wall_s": round(time.time() - t0, 1),
                "obligations": len(all_obs), "error": None}
    finally:
        shutil.rmtree(scratch, ignore_errors=True)


def run_for(prop, only=None):
    items = corpus(prop)
    if only:
        items = [i for i in items if i[1] in only]
    results = []
    t0 = time.time()
    if items:
        # processes, not threads: rule evaluation is CPU-bound python (the GIL would serialise threads)
        import multiprocessing
        with concurrent.futures.ProcessPoolExecutor(max_workers=min(WORKERS, len(items)), mp_context=multiprocessing.get_context("fork")) as ex:
            futs = []
            for k, (kind, name, patch) in enumerate(items):
                futs.append(ex.submit(evaluate, prop, kind, name, patch, k % WORKERS))
            for f in futs:
                results.append(f.result())
    failures = []
    for r in results:
        if r["error"]:
            failures.append(f"{r['kind']} {r['name']}: {r['error']}")
        elif not r["ok"]:
            failures.append(f"{r['kind']} {r['name']}: " + ("check stayed silent on a breaking change" if r["kind"] != "neutral" else f"check fired on a behaviour-preserving edit: {r['keys'][:2]}"))
    mt = [r for r in results if r["kind"] in ("mutant", "seeded")]
    nt = [r for r in results if r["kind"] == "neutral"]
    summary = {"mutants_total": len(mt), "mutants_fired": len([r for r in mt if r["ok"]]), "neutral_total": len(nt), "neutral_silent": len([r for r in nt if r["ok"]]),
               "evaluations": sum(r.get("obligations", 0) for r in results), "wall_s": round(time.time() - t0, 1),
               "results": [{k: r[k] for k in ("name", "kind", "ok", "fired", "keys", "wall_s", "error")} for r in results]}
    return {"ok": not failures, "failures": failures, "summary": summary}


if __name__ == "__main__":
    props = sys.argv[1:] or ["C%02d" % i for i in range(1, 21)]
    bad = 0
    for p in props:
        r = run_for(p)
        s = r["summary"]
        print(f"{p}: mutants {s['mutants_fired']}/{s['mutants_total']} fired, neutral {s['neutral_silent']}/{s['neutral_total']} silent, {s['wall_s']}s")
        for x in s["results"]:
            print(f"   [{'ok' if x['ok'] else 'BAD'}] {x['kind']:7} {x['name']}  fired={x['fired']} {x['keys'][:1] if x['fired'] else ''} {x['error'] or ''}")
        bad += len(r["failures"])
    sys.exit(1 if bad else 0)
