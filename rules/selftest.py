"""placeholder; real implementation below in a later commit"""
def run_for(prop):
    return {"ok": True, "failures": [], "summary": {"mutants_total": 0, "mutants_fired": 0, "neutral_total": 0, "neutral_silent": 0, "evaluations": 0}}
