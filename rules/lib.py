"""Rule kinds shared by the per-property modules (see DESIGN.md §3)."""
import os
from .engine import AnchorLost, Undecidable
from .mir import (Origins, SubstOrigins, ChoiceOrigins, NotLoopFree, name_matches, op_place, path_words, place_local, place_proj,
                  rvalue_operands, show, strip_generics, strip_identity, switch_info, term_calls,
                  term_has_call, walk)

TRACING_EXP = ("debug!", "trace!", "info!", "warn!", "error!", "event!")


def is_tracing(call):
    return (call.exp is not None and call.exp.split("::")[-1] in TRACING_EXP) or (call.fn or "").startswith("tracing::") or (call.fn or "").startswith("tracing_core::")


def owner_fn(prog, body):
    """The enclosing fn/assoc fn of a closure/coroutine body (itself for fns)."""
    b = body
    guard = 0
    while b is not None and b.kind == "Closure" and guard < 16:
        par = prog.body(b.parent)
        if par is None:
            # the parent was a helper that the normaliser inlined away: the closure now belongs to its (first) caller
            into = getattr(prog, "inlined_into", {}).get(b.parent) or []
            par = prog.body(into[0]) if into else None
        b = par
        guard += 1
    return b or body


def owner_path(prog, body):
    return owner_fn(prog, body).path


def owner_paths(prog, body, _depth=0):
    """Owners for who-may-call / who-may-construct rules. Normally the enclosing function. A function that does not exist on
    the pinned tree and survived normalisation (it is used as a function *value*, e.g. `.map(Self::wrap)`, so it cannot be
    inlined) acts on behalf of the functions that use it: its owners are theirs."""
    own = owner_fn(prog, body)
    if _depth > 3 or own.path in _pinned_set() or own.crate not in ("anemo", "anemo_tower", "anemo_build"):
        return [own.path]
    users = set()
    for c in prog.callers_of(own.path):
        users.add(c.body.path)
    for b_, _bb in prog.fn_refs(own.path):
        users.add(b_.path)
    users.discard(own.path)
    if not users:
        return [own.path]
    out = []
    for u in sorted(users):
        ub = prog.body(u)
        if ub is None:
            continue
        for x in owner_paths(prog, ub, _depth + 1):
            if x not in out:
                out.append(x)
    return out or [own.path]


# ---------------------------------------------------------------------------
# R-CALLERS


def check_callers(ob, prog, spec, allowed, crates=None, floor=None, exact=None, what=None, key=None,
                  include_refs=True):
    """Every call site (and every use as a fn value) of `spec` lies in a body whose owner fn is in `allowed`."""
    what = what or str(spec)
    sites = prog.callers_of(spec, crates=crates)
    refs = prog.fn_refs(spec, crates=crates) if include_refs else []
    n = 0
    for c in sites:
        own = owner_path(prog, c.body)
        owns = owner_paths(prog, c.body)
        n += 1
        ob.require(all(name_matches(o_, allowed) for o_ in owns) or name_matches(c.body.path, allowed),
                   f"{key or what}/caller/{own}",
                   f"{what} is called from {c.body.path}, which is not in the allowed set {sorted(allowed) if not isinstance(allowed, str) else allowed}",
                   construct=c.body.path, where=c.body.loc(c.bb))
    for b, bb in refs:
        own = owner_path(prog, b)
        n += 1
        ob.require(all(name_matches(o_, allowed) for o_ in owner_paths(prog, b)) or name_matches(b.path, allowed),
                   f"{key or what}/fnref/{own}",
                   f"{what} is used as a function value in {b.path}, which is not in the allowed set",
                   construct=b.path, where=b.loc(bb))
    if exact is not None:
        # counted on the pinned tree; the allowed-caller set carries the semantics, so more sites inside the
        # allowed callers are fine (a floor, not an equality: equality would alarm on behaviour-preserving splits)
        ob.floor(n, exact, f"call sites of {what}")
    elif floor is not None:
        ob.floor(n, floor, f"call sites of {what}")
    return sites


def check_no_calls(ob, prog, spec, crates=None, what=None, within=None):
    """Expected-zero rule: no call site / fn-value use of `spec` (optionally only inside bodies `within`)."""
    what = what or str(spec)
    sites = prog.callers_of(spec, crates=crates, include_cleanup=True)
    refs = prog.fn_refs(spec, crates=crates)
    if within is not None:
        sites = [c for c in sites if c.body.path in within]
        refs = [(b, bb) for b, bb in refs if b.path in within]
    ob.count(1)
    for c in sites:
        ob.fail("refuted", f"{what}/forbidden-call/{owner_path(prog, c.body)}",
                f"forbidden call to {c.callee} in {c.body.path}", construct=c.body.path, where=c.body.loc(c.bb))
    for b, bb in refs:
        ob.fail("refuted", f"{what}/forbidden-fnref/{owner_path(prog, b)}",
                f"forbidden use of {what} as a function value in {b.path}", construct=b.path, where=b.loc(bb))
    if not sites and not refs:
        ob.matched += 1
    return sites


# ---------------------------------------------------------------------------
# R-WRITERS


def field_accesses(prog, adt, field, crates=None):
    """All place expressions that project field `adt.field`: yields (body, bb, kind, detail)
    kind in: 'mutref' (mutable borrow / raw mut ptr), 'write' (assignment / call destination through it),
    'sharedref', 'read' (copy/move operand)."""
    out = []

    def has(pl):
        for e in place_proj(pl):
            if isinstance(e, dict) and e.get("a") == adt and e.get("n") == field:
                return True
        return False

    for b in prog.bodies.values():
        if crates and b.crate not in crates:
            continue
        for i, bl in enumerate(b.blocks):
            for s in bl["s"]:
                if s["k"] == "assign":
                    if has(s["lhs"]):
                        out.append((b, i, "write", s))
                    rv = s["rv"]
                    if rv["k"] in ("ref", "rawptr") and has(rv["pl"]):
                        bk = rv["bk"]
                        mut = ("Mut" in bk) and not bk.startswith("Shared") and bk != "Const"
                        out.append((b, i, "mutref" if mut else "sharedref", s))
                    elif rv["k"] == "discr" and has(rv["pl"]):
                        out.append((b, i, "read", s))
                    else:
                        for op in rvalue_operands(rv):
                            pl = op_place(op)
                            if pl is not None and has(pl):
                                out.append((b, i, "move" if op["k"] == "move" else "read", s))
                elif s["k"] == "setdiscr" and has(s["lhs"]):
                    out.append((b, i, "write", s))
            t = bl["t"]
            if t["k"] == "call":
                if has(t["dest"]):
                    out.append((b, i, "write", t))
                for op in t["args"]:
                    pl = op_place(op)
                    if pl is not None and has(pl):
                        out.append((b, i, "move" if op["k"] == "move" else "read", t))
            elif t["k"] == "drop" and has(t["pl"]):
                out.append((b, i, "drop", t))
    return out


def check_field_writers(ob, prog, adt, field, allowed, crates=None, floor=None, kinds=("mutref", "write", "move")):
    acc = [a for a in field_accesses(prog, adt, field, crates) if a[2] in kinds and not a[0].is_cleanup(a[1])]
    for b, bb, kind, _ in acc:
        own = owner_path(prog, b)
        ob.require(all(name_matches(o_, allowed) for o_ in owner_paths(prog, b)) if allowed else False, f"{adt}.{field}/{kind}/{own}",
                   f"field {adt}.{field} is {kind}-accessed in {b.path}, outside the allowed writers",
                   construct=b.path, where=b.loc(bb))
    if floor is not None:
        ob.floor(acc, floor, f"mutable accesses of {adt}.{field}")
    return acc


def aggregates_of(prog, adt, crates=None):
    """All construction sites `S { .. }` / `S(..)` (as aggregate rvalues) of ADT `adt` (optionally a variant)."""
    out = []
    for b in prog.bodies.values():
        if crates and b.crate not in crates:
            continue
        for i, bl in enumerate(b.blocks):
            for s in bl["s"]:
                if s["k"] == "assign" and s["rv"]["k"] == "agg" and s["rv"].get("ak") == "adt" and s["rv"]["adt"] == adt:
                    out.append((b, i, s))
    # tuple-struct constructors used as functions: `S(x)` may be a call to the ctor fn
    for c in prog.callers_of(adt, crates=crates):
        out.append((c.body, c.bb, c.t))
    for b, bb in prog.fn_refs(adt, crates=crates):
        out.append((b, bb, None))
    return out


def check_constructed_only_in(ob, prog, adt, allowed, crates=None, floor=1):
    sites = aggregates_of(prog, adt, crates)
    for b, bb, _ in sites:
        own = owner_path(prog, b)
        ob.require(all(name_matches(o_, allowed) for o_ in owner_paths(prog, b)) or name_matches(b.path, allowed), f"{adt}/constructed-in/{own}",
                   f"{adt} is constructed in {b.path}, outside {allowed}", construct=b.path, where=b.loc(bb))
    ob.floor(sites, floor, f"construction sites of {adt}")
    return sites


# ---------------------------------------------------------------------------
# R-PATHSEQ helpers


import threading

_TLS = threading.local()


class _ProgProxy:
    """per-thread current program (the self-test evaluates several trees concurrently in one process)"""
    def __bool__(self):
        return getattr(_TLS, "prog", None) is not None

    def __getattr__(self, k):
        return getattr(_TLS.prog, k)


def set_program(prog):
    """the program whose closure bodies the combinator models of words_of may look into (set per run, per thread, by the engine)"""
    _TLS.prog = prog


class _ProgRef:
    def __eq__(self, other):
        return other is None and getattr(_TLS, "prog", None) is None

    def __ne__(self, other):
        return not self.__eq__(other)

    def __getattr__(self, k):
        return getattr(_TLS.prog, k)


_PROG = _ProgRef()


_PINNED_SET = None


def _pinned_set():
    global _PINNED_SET
    if _PINNED_SET is None:
        from .normalize import pinned_bodies
        _PINNED_SET = pinned_bodies()
    return _PINNED_SET


class _CallView:
    """a call of an inlined closure/helper body presented to the rule's call_sym: its destination is never the rule's `_0`"""
    def __init__(self, c, ns=None):
        self._c = c
        self.dest = ("inlined", c.dest) if c.dest == 0 else c.dest
        self.bb = (ns, c.bb)            # never equal to a block number of the rule's own body

    def __getattr__(self, k):
        return getattr(self._c, k)


_RET, _VAL = "\x00closure-result", "\x00plain-value"
# std combinators as control flow: input variant -> (output variant | closure's result | plain value, index of the closure argument run on that side)
_COMBINATORS = {
    "core::option::Option::ok_or_else": {"Some": ("Ok", None), "None": ("Err", 1)},
    "core::option::Option::ok_or": {"Some": ("Ok", None), "None": ("Err", None)},
    "core::option::Option::map": {"Some": ("Some", 1), "None": ("None", None)},
    "core::option::Option::and_then": {"Some": (_RET, 1), "None": ("None", None)},
    "core::option::Option::or_else": {"Some": ("Some", None), "None": (_RET, 1)},
    "core::option::Option::unwrap_or_else": {"Some": (_VAL, None), "None": (_VAL, 1)},
    "core::option::Option::unwrap_or": {"Some": (_VAL, None), "None": (_VAL, None)},
    "core::result::Result::map_err": {"Ok": ("Ok", None), "Err": ("Err", 1)},
    "core::result::Result::map": {"Ok": ("Ok", 1), "Err": ("Err", None)},
    "core::result::Result::and_then": {"Ok": (_RET, 1), "Err": ("Err", None)},
    "core::result::Result::or_else": {"Ok": ("Ok", None), "Err": (_RET, 1)},
    "core::result::Result::ok": {"Ok": ("Some", None), "Err": ("None", None)},
    "core::result::Result::unwrap_or_else": {"Ok": (_VAL, None), "Err": (_VAL, 1)},
    "core::result::Result::unwrap_or": {"Ok": (_VAL, None), "Err": (_VAL, None)},
}

# bool-valued combinators: (variant whose payload goes to the predicate closure, the other variant, result for the other variant)
_BOOL_COMBINATORS = {
    "core::option::Option::is_some_and": ("Some", "None", False),
    "core::option::Option::is_none_or": ("Some", "None", True),
    "core::result::Result::is_ok_and": ("Ok", "Err", False),
    "core::result::Result::is_err_and": ("Err", "Ok", False),
}

_VARIANT_ENUMS = ("core::result::Result", "core::option::Option", "core::task::poll::Poll", "core::ops::control_flow::ControlFlow")
_TRY_MAP = {"Ok": "Continue", "Err": "Break", "Some": "Continue", "None": "Break"}


def fmt_word(w):
    return " ".join(s if isinstance(s, str) else ":".join(str(x) for x in s) for s in w)


def words_of(body, call_sym, edge_sym=None, stmt_sym=None, start=0, stops=(), keep_end=True, succ=None, drop_suspend=True,
             inline=None, _origins=None, _depth=0, _ns=None, models=True):
    """Projected word set of `body`.
    call_sym(call, origins) -> symbol | None        for call terminators
    edge_sym(bb, succ, subject_term, labels, origins) -> symbol | None    for switch edges
    stmt_sym(bb, stmt, origins) -> symbol | None    for assign statements

    inline = {"prog": Program, "edge_for": body -> edge_sym}: calls that call_sym does not recognise and that resolve to
    a crate-local, synchronous, loop-free helper returning `bool` (every path a constant) or `()` are replaced by the
    helper's own projected words, with its parameters bound to the caller's argument terms (same callbacks); the
    helper's boolean result is correlated with the caller's later test of it. A helper whose words contain no symbol
    and that is not a two-valued predicate is skipped (as before). Any problem while inlining falls back to the
    non-inlined projection (which fails closed through `?cond(..)` / missing events).
    With _depth > 0 (internal) returns a list of (symbols, return_value) instead of a set of words."""
    o = _origins or Origins(body)

    def _nsl(l_):
        return l_ if _ns is None else (_ns, l_)
    try:
        if stops or start:
            # only cycles inside the explored region count (an arm of a `loop { select! {..} }` explored up to the back
            # edge is loop-free although the whole body is not)
            sf_ = succ or body.succ_noawait
            st_ = set(stops)

            def _reach(b0):
                seen_, todo_ = set(), [b0]
                while todo_:
                    x_ = todo_.pop()
                    if x_ in seen_:
                        continue
                    seen_.add(x_)
                    if x_ in st_:
                        continue
                    todo_.extend(sf_(x_))
                return seen_
            region_ = _reach(start)
            _cyc = set()
            for b_ in region_:
                if b_ in st_:
                    continue
                if any(b_ in _reach(n_) for n_ in sf_(b_)):
                    _cyc.add(b_)
        else:
            _cyc = body.cyclic_blocks(succ) if succ is not None else body.cyclic_blocks()
    except Exception:
        _cyc = set()
    _loopdefs = set()
    for i_ in _cyc:
        for s_ in body.blocks[i_]["s"]:
            if s_["k"] == "assign":
                _loopdefs.add(place_local(s_["lhs"]))
        t_ = body.blocks[i_]["t"]
        if t_["k"] == "call" and t_.get("dest") is not None:
            _loopdefs.add(place_local(t_["dest"]))
    cache_b = {}
    cache_e = {}
    # boolean flag temporaries (e.g. `matches!`, `a && b`): locals whose every definition assigns a bool constant.
    # Their assignments and tests are tracked so that infeasible (assign v, test !v) words can be dropped.
    flags = set()
    for l_, ds_ in body.defs().items():
        if l_ == 0 or len(ds_) < 2 or body.local_ty(l_) != "bool":
            continue
        if all(d_[0] == "assign" and d_[3]["k"] == "use" and d_[3]["op"].get("k") == "const" and "int" in d_[3]["op"] for d_ in ds_):
            flags.add(l_)

    # locals assigned on several branches and used after the join (`let x = if .. {a} else {b}; f(x)`, a hoisted common
    # tail): symbols that depend on them are evaluated once per choice of definition and resolved per word by the
    # definition the path actually passed (path-sensitive origins instead of a phi)
    multi = {}
    if _origins is None or isinstance(_origins, SubstOrigins):
        try:
            cyc_ = body.cyclic_blocks(succ) if succ is not None else body.cyclic_blocks()
        except Exception:
            cyc_ = set()
        for l_, ds_ in body.defs().items():
            if l_ in flags:
                continue
            nd_ = [d_ for d_ in ds_ if d_[0] in ("assign", "call")]
            if len(nd_) < 2 or len(nd_) > 40 or len({d_[1] for d_ in nd_}) < 2 or len(nd_) != len([d_ for d_ in ds_ if d_[0] != "partial"]):
                continue
            if any(d_[1] in cyc_ for d_ in nd_):
                continue
            multi[l_] = nd_
    defs_at = {}
    for l_, nd_ in multi.items():
        for i_, d_ in enumerate(nd_):
            defs_at.setdefault((d_[1], d_[2]), []).append((l_, i_))

    def resolve(f):
        """evaluate a symbol callback; if it met multi-definition locals, evaluate it per choice of definition"""
        if not multi:
            return f(o)

        def mk(choice_):
            co_ = ChoiceOrigins(body, multi, choice_)
            if isinstance(_origins, SubstOrigins):
                so_ = SubstOrigins(body, _origins.mapping)
                so_.base = co_
                return so_, co_
            return co_, co_
        bo_w, bo = mk({})
        x0 = f(bo_w)
        if not bo.touched:
            return x0
        locs = tuple(sorted(bo.touched))
        n_ = 1
        for l_ in locs:
            n_ *= len(multi[l_])
        if n_ > 64:
            return x0
        import itertools
        table = []
        for combo in itertools.product(*[range(len(multi[l_])) for l_ in locs]):
            v_ = f(mk(dict(zip(locs, combo)))[0])
            table.append((combo, ("\x00list", tuple(v_)) if isinstance(v_, list) else v_))
        x0h = ("\x00list", tuple(x0)) if isinstance(x0, list) else x0
        if all(v_ == x0h for _, v_ in table):
            return x0
        return ("\x00dsym", locs, tuple(table), x0h)

    inl = {}            # bb of an inlined call -> alternatives (list of symbol lists)
    if inline is not None and _depth < 2:
        prog_ = inline["prog"]
        for i_, bl_ in enumerate(body.blocks):
            if bl_.get("cleanup") or bl_["t"]["k"] != "call":
                continue
            c_ = body.call_at(i_)
            if c_ is None:
                continue
            F = None
            for n_ in (c_.res, c_.fn):
                if n_ and n_ in prog_.bodies:
                    F = prog_.bodies[n_]
                    break
            if F is None or F.coroutine or F.kind == "Closure" or F.path == body.path or F.crate != body.crate:
                continue
            rt = F.local_ty(0)
            if rt not in ("bool", "()") or not isinstance(c_.dest, int):
                continue
            try:
                if call_sym(c_, o) is not None:
                    continue            # the rule knows this call as an event of its own
                mapping = {k_ + 1: o.of_operand(a_) for k_, a_ in enumerate(c_.args)}
                so = SubstOrigins(F, mapping)
                sub = words_of(F, call_sym, inline["edge_for"](F), stmt_sym, keep_end=False, succ=succ, drop_suspend=False,
                               inline=inline, _origins=so, _depth=_depth + 1)
            except Exception:
                continue
            if not sub:
                continue
            rvs = {rv_ for _, rv_ in sub}
            if rt == "bool" and (None in rvs):
                continue                # not a constant-valued predicate: keep the opaque `?cond(call)`
            interesting = any(len(sy_) > 0 for sy_, _ in sub) or (rt == "bool" and len(rvs) == 2)
            if not interesting:
                continue
            alts = []
            for sy_, rv_ in sub:
                a_ = list(sy_)
                if rt == "bool":
                    a_.append(("\x00set", c_.dest, rv_))
                if a_ not in alts:
                    alts.append(a_)
            inl[i_] = alts
            if rt == "bool":
                flags.add(c_.dest)

    if models and getattr(_TLS, 'prog', None) is not None and _depth < 2:
        for i_, bl_ in enumerate(body.blocks):
            if bl_.get("cleanup") or bl_["t"]["k"] != "call" or i_ in inl:
                continue
            c_ = body.call_at(i_)
            if c_ is None or c_.fn not in _COMBINATORS or not isinstance(c_.dest, int) or not c_.args or not isinstance(op_place(c_.args[0]), int):
                continue
            try:
                if call_sym(c_, o) is not None:
                    continue            # the rule names this combinator call itself
                src_ = op_place(c_.args[0])
                src_t = o.of_operand(c_.args[0])
                alts = []
                okm = True
                for vin, (vout, ci) in _COMBINATORS[c_.fn].items():
                    pre = [("\x00mtest", _nsl(src_), vin)]        # a value map, not control flow: no visible test
                    subs = [((), None)]
                    ns2 = None
                    if ci is not None and ci < len(c_.args):
                        ct = strip_identity(o.of_operand(c_.args[ci]))
                        kb = None
                        first = 2
                        if ct[0] == "agg" and ct[1] == "closure" and ct[2] in _PROG.bodies:
                            kb = _PROG.bodies[ct[2]]
                        elif ct[0] == "fnptr" and ct[1] in _PROG.bodies and _PROG.bodies[ct[1]].crate == body.crate and ct[1] not in _pinned_set():
                            kb, first = _PROG.bodies[ct[1]], 1          # a fn item used as the mapper, new relative to the pinned tree
                        if kb is not None:
                            ns2 = (kb.path, i_)
                            mapping = {first: ("field", ("variant", src_t, vin), "0")}
                            so = SubstOrigins(kb, mapping)
                            ef = inline["edge_for"](kb) if inline is not None else edge_sym
                            subs = words_of(kb, call_sym, ef, stmt_sym, keep_end=False, succ=succ, drop_suspend=False, inline=inline, _origins=so,
                                            _depth=_depth + 1, _ns=ns2, models=models)
                            if not subs:
                                okm = False
                                break
                    for sy_, _rv in subs:
                        a_ = pre + list(sy_)
                        if vout == _RET:
                            a_.append(("\x00vcopy", _nsl(c_.dest), (ns2, 0)) if ns2 is not None else ("\x00vkill", _nsl(c_.dest)))
                        elif vout == _VAL:
                            a_.append(("\x00vkill", _nsl(c_.dest)))
                        else:
                            a_.append(("\x00vset", _nsl(c_.dest), vout, None))
                        if a_ not in alts:
                            alts.append(a_)
                if okm and alts:
                    inl[i_] = alts
            except Exception:
                if os.environ.get("VERIF_DEBUG_MODELS"):
                    import traceback
                    traceback.print_exc()
                continue

    if models and getattr(_TLS, 'prog', None) is not None and _depth < 2 and edge_sym is not None:
        # `opt.is_some_and(|x| pred(x))` & co.: written-out form  match opt { Some(x) => pred(x), None => false }.
        # The variant test and the predicate's outcome become the rule's own edge symbols (asked for synthetic subjects);
        # the boolean result is correlated with the caller's later test of it like an inlined predicate helper's.
        for i_, bl_ in enumerate(body.blocks):
            if bl_.get("cleanup") or bl_["t"]["k"] != "call" or i_ in inl or i_ in _cyc:
                continue
            c_ = body.call_at(i_)
            if c_ is None or c_.fn not in _BOOL_COMBINATORS or not isinstance(c_.dest, int) or len(c_.args) < 2:
                continue
            try:
                if call_sym(c_, o) is not None:
                    continue
                vin, vother, other_val = _BOOL_COMBINATORS[c_.fn]
                src_t = o.of_operand(c_.args[0])
                ct = strip_identity(o.of_operand(c_.args[1]))
                if not (ct[0] == "agg" and ct[1] == "closure" and ct[2] in _PROG.bodies):
                    continue
                kb = _PROG.bodies[ct[2]]

                def _esym(subj_, labs_):
                    x_ = edge_sym(i_, None, subj_, set(labs_), o)
                    if x_ is None or x_ == "":
                        return []
                    return list(x_) if isinstance(x_, list) else [x_]
                ns2 = (kb.path, i_)
                so = SubstOrigins(kb, {2: ("field", ("variant", src_t, vin), "0")})
                ef = inline["edge_for"](kb) if inline is not None else edge_sym
                subs = words_of(kb, call_sym, ef, stmt_sym, keep_end=False, succ=succ, drop_suspend=False, inline=inline, _origins=so,
                                _depth=_depth + 1, _ns=ns2, models=models)
                if not subs:
                    continue
                alts = [_esym(("discr", src_t), {vother}) + [("\x00set", c_.dest, other_val)]]
                okm = True
                for sy_, rv_ in subs:
                    head = _esym(("discr", src_t), {vin}) + list(sy_)
                    if rv_ is None:
                        if len(subs) != 1:
                            okm = False
                            break
                        rt_ = so.of_local(0)
                        for tv_ in (True, False):
                            alts.append(head + _esym(rt_, {"true" if tv_ else "false"}) + [("\x00set", c_.dest, tv_)])
                    else:
                        alts.append(head + [("\x00set", c_.dest, bool(rv_))])
                if okm:
                    inl[i_] = alts
                    flags.add(c_.dest)
            except Exception:
                if os.environ.get("VERIF_DEBUG_MODELS"):
                    import traceback
                    traceback.print_exc()
                continue

    def sym_block(bb):
        if bb in cache_b:
            return cache_b[bb]
        out = []
        bl = body.blocks[bb]
        # enum-variant facts (path-wise constant propagation of discriminants): `L = Enum::V(payload)`, copies/moves,
        # `(L as V).0` payload moves; consumed by the matching tests in sym_edge. Any other definition forgets.
        for s in bl["s"]:
            if s["k"] != "assign":
                continue
            lhs = s["lhs"]
            if not isinstance(lhs, int):
                if not isinstance(lhs, int) and not lhs["p"]:
                    lhs = lhs["l"]
                else:
                    continue
            rv = s["rv"]
            if rv["k"] == "agg" and rv.get("ak") == "adt" and rv.get("variant") and (
                    rv.get("adt") in _VARIANT_ENUMS or
                    # a workspace enum used as a tag (`enum Verdict { Replace, Reject }` built from a bool, then matched)
                    (str(rv.get("adt", "")).startswith(("anemo::", "anemo_tower::", "anemo_build::")) and rv["variant"] != str(rv["adt"]).split("::")[-1])):
                pay = None
                if len(rv["ops"]) == 1 and isinstance(op_place(rv["ops"][0]), int):
                    pay = op_place(rv["ops"][0])
                out.append(("\x00vset", _nsl(lhs), rv["variant"], _nsl(pay) if pay is not None else None))
            elif rv["k"] == "use" and op_place(rv["op"]) is not None:
                pl = op_place(rv["op"])
                if isinstance(pl, int) or not pl["p"]:
                    out.append(("\x00vcopy", _nsl(lhs), _nsl(place_local(pl))))
                elif len(pl["p"]) == 2 and isinstance(pl["p"][0], dict) and "d" in pl["p"][0] and isinstance(pl["p"][1], dict) and pl["p"][1].get("f") == 0:
                    out.append(("\x00vpay", _nsl(lhs), _nsl(pl["l"]), pl["p"][0]["d"]))
                else:
                    out.append(("\x00vkill", _nsl(lhs)))
            elif rv["k"] == "discr":
                pass
            else:
                out.append(("\x00vkill", _nsl(lhs)))
        for s in bl["s"]:
            if s["k"] == "assign" and isinstance(s["lhs"], int) and s["lhs"] in flags:
                out.append(("\x00set", s["lhs"], bool(s["rv"]["op"]["int"])))
            elif _depth > 0 and s["k"] == "assign" and s["lhs"] == 0 and body.local_ty(0) == "bool":
                rv = s["rv"]
                if rv["k"] == "use" and rv["op"].get("k") == "const" and "int" in rv["op"]:
                    out.append(("\x00ret", bool(rv["op"]["int"])))
                elif rv["k"] == "use" and isinstance(op_place(rv["op"]), int) and op_place(rv["op"]) in flags:
                    out.append(("\x00retflag", op_place(rv["op"])))
                else:
                    out.append(("\x00ret", None))
        for si_, s in enumerate(bl["s"]):
            if stmt_sym and s["k"] == "assign" and not (_depth > 0 and s["lhs"] == 0):      # a helper's return slot is not the rule's
                x = resolve(lambda oo, s=s: stmt_sym(bb, s, oo))
                if x is not None:
                    out.append(x)
            for l_, i_ in defs_at.get((bb, si_), ()):
                out.append(("\x00def", l_, i_))
        c = body.call_at(bb)
        if c is not None and isinstance(c.dest, int):
            if name_matches(c.fn, "ops::try_trait::Try::branch") and c.args and isinstance(op_place(c.args[0]), int):
                out.append(("\x00vtry", _nsl(c.dest), _nsl(op_place(c.args[0]))))
            elif name_matches(c.fn, "ops::try_trait::FromResidual::from_residual") and body.local_ty(c.dest).startswith(("core::result::Result<", "core::option::Option<")):
                # `?` on the failure edge: the value built from the residual is the Err / None of the return type
                out.append(("\x00vset", _nsl(c.dest), "Err" if body.local_ty(c.dest).startswith("core::result::Result<") else "None", None))
            elif bb not in inl and c.fn in _COMBINATORS and c.args and isinstance(op_place(c.args[0]), int):
                # a combinator the rule names itself: still a known map between variants
                out.append(("\x00vmap", _nsl(c.dest), _nsl(op_place(c.args[0])), tuple((k_, v_[0]) for k_, v_ in _COMBINATORS[c.fn].items())))
            elif bb not in inl:
                out.append(("\x00vkill", _nsl(c.dest)))
        if c is not None:
            if bb in inl:
                out.append(("\x00alt", tuple(tuple(a_) for a_ in inl[bb])))
            else:
                cv_ = _CallView(c, _ns or body.path) if _depth > 0 else c
                x = resolve(lambda oo: call_sym(cv_, oo))
                if x is not None:
                    out.append(x)
                elif _depth > 0 and c.dest == 0 and body.local_ty(0) == "bool":
                    out.append(("\x00ret", None))
        for l_, i_ in defs_at.get((bb, None), ()):
            out.append(("\x00def", l_, i_))
        if _cyc:
            # values redefined around a loop are not tracked (and a block on a cycle must not emit bookkeeping symbols)
            def _raw(x_):
                return x_[1] if (isinstance(x_, tuple) and len(x_) == 2 and _ns is not None and x_[0] == _ns) else x_
            flt = []
            for s_ in out:
                if isinstance(s_, tuple) and s_ and isinstance(s_[0], str) and s_[0].startswith("\x00v"):
                    if bb in _cyc or _raw(s_[1]) in _loopdefs:
                        continue
                    if s_[0] in ("\x00vcopy", "\x00vpay", "\x00vtry", "\x00vmap") and _raw(s_[2]) in _loopdefs:
                        flt.append(("\x00vkill", s_[1]))
                        continue
                if bb in _cyc and isinstance(s_, tuple) and s_ and s_[0] in ("\x00def", "\x00set"):
                    continue
                flt.append(s_)
            out = flt
        cache_b[bb] = out
        return out

    def sym_edge(a, b):
        if (a, b) in cache_e:
            return cache_e[(a, b)]
        out = []
        si = switch_info(body, a, o)
        if si is not None:
            subj, labels = si
            labs = labels.get(b, set())
            tpl = op_place(body.blocks[a]["t"]["discr"])
            if isinstance(tpl, int) and labs:
                for s_ in reversed(body.blocks[a]["s"]):
                    if s_["k"] == "assign" and s_["lhs"] == tpl:
                        if s_["rv"]["k"] == "discr":
                            dp = s_["rv"]["pl"]
                            if (isinstance(dp, int) or not dp["p"]) and a not in _cyc and place_local(dp) not in _loopdefs:
                                out.append(("\x00vtest", _nsl(place_local(dp)), frozenset(labs)))
                        break
            fl = None
            if isinstance(tpl, int):
                cur = tpl
                for _ in range(4):
                    if cur in flags:
                        fl = cur
                        break
                    ds_ = [d_ for d_ in body.defs().get(cur, []) if d_[0] != "partial"]
                    if len(ds_) == 1 and ds_[0][0] == "assign" and ds_[0][3]["k"] == "use" and isinstance(op_place(ds_[0][3]["op"]), int):
                        cur = op_place(ds_[0][3]["op"])
                    else:
                        break
            if fl is not None and labs in ({"true"}, {"false"}):
                cache_e[(a, b)] = out + [("\x00test", fl, labs == {"true"})]
                return cache_e[(a, b)]
            if not labs and subj[0] == "discr":
                # `otherwise` edge of a match that already names every variant: infeasible
                cache_e[(a, b)] = None
                return None
            vis = []
            e_ = body.blocks[a]["t"].get("exp")
            if e_ and e_.split("::")[-1] in TRACING_EXP:
                cache_e[(a, b)] = out           # branches inside a tracing macro never matter to any rule
                return out
            if edge_sym is not None:
                def _edge(oo):
                    si_ = switch_info(body, a, oo) if oo is not o else (subj, labels)
                    return edge_sym(a, b, si_[0] if si_ else subj, labs, oo)
                x = resolve(_edge)
                if isinstance(x, str) and (x.startswith("?cond") or x.startswith("?discr")) and subj[0] == "discr" and len(labs) == 1 and labs <= {"Ok", "Err", "Some", "None"}:
                    # the rule's own edge callback does not know this switch, and it is an explicit `match` on an
                    # Option/Result: the written-out form of `?` / `ok_or..?` / let-else (canonicalised per word, see below)
                    x = ("\x00xm", next(iter(labs)))
                if a in _cyc and isinstance(x, tuple) and len(x) == 2 and x[0] == "\x00xm":
                    x = None                # `match iter.next()` and the like: loop control, not an event
                if isinstance(x, tuple) and len(x) == 4 and x[0] == "\x00dsym":
                    x = [x]
                if isinstance(x, list):
                    vis.extend(x)
                elif x is not None:
                    vis.append(x)
            norig_ = getattr(body, "orig_nblocks", None)
            if (inline is not None or norig_ is not None) and subj[0] == "discr" and labs:
                key = strip_identity(subj[1])
                if not any(y[0] in ("phi", "unknown", "cycle", "undef", "partial") for y in walk(key)):
                    # remember which variants this edge admits for this subject: tests of the same subject in an inlined
                    # helper and in its caller are correlated (contradictions dropped, implied re-tests made silent)
                    side_ = _depth if norig_ is None else (_depth * 2 + (1 if a >= norig_ else 0))
                    out.append(("\x00dtest", key, frozenset(labs), side_, tuple(vis)))
                    cache_e[(a, b)] = out
                    return out
            if norig_ is not None and vis and out and isinstance(out[-1], tuple) and len(out[-1]) == 3 and out[-1][0] == "\x00vtest":
                # a body with inlined helpers: a test of a value whose variant this very path has fixed (the helper's
                # `return None` met by the caller's `if let Some(..)`) is implied - its symbols are dropped per word
                out[-1] = out[-1] + (tuple(vis),)
                cache_e[(a, b)] = out
                return out
            out.extend(vis)
        cache_e[(a, b)] = out
        return out

    if multi:
        # definition markers are only needed for the locals some path-resolved symbol depends on: evaluate every block /
        # edge symbol first, then drop the markers of all other locals (they would only multiply the words)
        succ_f = succ or body.succ_noawait
        for bb_ in sorted(body.reachable_from(start, succ=succ_f, avoid=())):
            if body.is_cleanup(bb_):
                continue
            sym_block(bb_)
            if bb_ in stops:
                continue
            for nx_ in succ_f(bb_):
                sym_edge(bb_, nx_)
        needed = set()
        for lst_ in list(cache_b.values()) + [v_ for v_ in cache_e.values() if v_]:
            for s_ in lst_:
                if isinstance(s_, tuple) and len(s_) == 4 and s_[0] == "\x00dsym":
                    needed |= set(s_[1])
        for k_ in list(cache_b):
            cache_b[k_] = [s_ for s_ in cache_b[k_] if not (isinstance(s_, tuple) and len(s_) == 3 and s_[0] == "\x00def" and s_[1] not in needed)]
    try:
        ws = path_words(body, start, sym_block, sym_edge, stops=stops, succ=succ)
    except NotLoopFree as e:
        raise Undecidable(str(e))

    def expand(core):
        """expand \x00alt symbols (inlined helper alternatives) into separate words"""
        outs = [[]]
        for s_ in core:
            if isinstance(s_, tuple) and len(s_) == 2 and s_[0] == "\x00alt":
                outs = [p_ + list(a_) for p_ in outs for a_ in s_[1]]
                if len(outs) > 4096:
                    raise Undecidable("too many inlined alternatives")
            else:
                for p_ in outs:
                    p_.append(s_)
        return outs

    res = set()
    res_l = []
    for w in ws:
        end = w[-1]
        if drop_suspend and end[1] == "suspend":
            continue        # prefix of a path: the future is suspended (or dropped) at an await
        if _depth > 0 and end[1] != "return":
            if end[1] in ("unreachable",):
                continue
            raise Undecidable("inlined helper does not simply return")
        for core in expand(w[:-1]):
            if multi:
                curdef = {}
                rc_ = []
                for s_ in core:
                    if isinstance(s_, tuple) and len(s_) == 3 and s_[0] == "\x00def":
                        curdef[s_[1]] = s_[2]
                        continue
                    if isinstance(s_, tuple) and len(s_) == 4 and s_[0] == "\x00dsym":
                        key_ = tuple(curdef.get(l_) for l_ in s_[1])
                        v_ = s_[3]
                        if None not in key_:
                            for k2_, v2_ in s_[2]:
                                if k2_ == key_:
                                    v_ = v2_
                                    break
                        if v_ is None:
                            continue
                        if isinstance(v_, tuple) and len(v_) == 2 and v_[0] == "\x00list":
                            rc_.extend(v_[1])
                            continue
                        rc_.append(v_)
                        continue
                    rc_.append(s_)
                core = rc_
            # feasibility of flag temporaries
            st_ = {}
            feasible = True
            clean = []
            ret = None
            known = {}          # discr subject -> (admitted variants so far, depths that tested it)
            vk = {}             # local -> (variant, payload local) known on this path
            for s_ in core:
                if isinstance(s_, tuple) and s_ and isinstance(s_[0], str) and (s_[0].startswith("\x00v") or s_[0] == "\x00mtest"):
                    if _depth > 0:
                        clean.append(s_)
                        continue
                    tag = s_[0]
                    if tag == "\x00vset":
                        vk[s_[1]] = (s_[2], s_[3])
                    elif tag == "\x00vcopy":
                        if s_[2] in vk:
                            vk[s_[1]] = vk[s_[2]]
                        else:
                            vk.pop(s_[1], None)
                    elif tag == "\x00vpay":
                        src = vk.get(s_[2])
                        if src is not None and src[0] == s_[3] and src[1] is not None and src[1] in vk:
                            vk[s_[1]] = vk[src[1]]
                        else:
                            vk.pop(s_[1], None)
                    elif tag == "\x00vtry":
                        src = vk.get(s_[2])
                        if src is not None and src[0] in _TRY_MAP:
                            vk[s_[1]] = (_TRY_MAP[src[0]], None)
                        else:
                            vk.pop(s_[1], None)
                    elif tag == "\x00vkill":
                        vk.pop(s_[1], None)
                    elif tag == "\x00vmap":
                        src = vk.get(s_[2])
                        m_ = dict(s_[3])
                        if src is not None and m_.get(src[0]) in ("Ok", "Err", "Some", "None"):
                            vk[s_[1]] = (m_[src[0]], None)
                        else:
                            vk.pop(s_[1], None)
                    elif tag == "\x00mtest":
                        kv = vk.get(s_[1])
                        if kv is not None and kv[0] != s_[2]:
                            feasible = False
                            break
                        if kv is None:
                            vk[s_[1]] = (s_[2], None)
                    elif tag == "\x00vtest":
                        kv = vk.get(s_[1])
                        if kv is not None and kv[0] not in s_[2]:
                            feasible = False
                            break
                        if len(s_) == 4 and kv is None:
                            clean.extend(s_[3])         # not implied: the test is an event of this path
                    continue
                if isinstance(s_, tuple) and len(s_) == 5 and s_[0] == "\x00dtest":
                    _, key_, labs_, dep_, vis_ = s_
                    if _depth > 0:
                        clean.append(s_)            # resolved by the outermost caller, which sees both sides
                        continue
                    if key_ in known:
                        cur_, deps_ = known[key_]
                        cross = any(d_ != dep_ for d_ in deps_)
                        if cross and not (cur_ & labs_):
                            feasible = False
                            break
                        if cross and cur_ <= labs_:
                            known[key_] = (cur_, deps_ | {dep_})
                            continue                # implied by what the other body already established: silent
                        known[key_] = ((cur_ & labs_) if cross else labs_, deps_ | {dep_})
                    else:
                        known[key_] = (labs_, {dep_})
                    clean.extend(vis_)
                    continue
                if isinstance(s_, tuple) and len(s_) == 3 and s_[0] == "\x00set":
                    st_[s_[1]] = s_[2]
                elif isinstance(s_, tuple) and len(s_) == 3 and s_[0] == "\x00test":
                    if s_[1] in st_ and st_[s_[1]] != s_[2]:
                        feasible = False
                        break
                elif isinstance(s_, tuple) and len(s_) == 2 and s_[0] == "\x00ret":
                    ret = s_[1]
                elif isinstance(s_, tuple) and len(s_) == 2 and s_[0] == "\x00retflag":
                    ret = st_.get(s_[1])
                else:
                    clean.append(s_)
            if not feasible:
                continue
            if any(isinstance(x_, tuple) and len(x_) == 2 and x_[0] == "\x00xm" for x_ in clean):
                if _depth > 0:
                    pass            # resolved by the outermost caller
                else:
                    ret_err = vk.get(0, (None,))[0] in ("Err",)
                    xi_ = [i_ for i_, x_ in enumerate(clean) if isinstance(x_, tuple) and len(x_) == 2 and x_[0] == "\x00xm" and x_[1] in ("Err", "None")]
                    last_ = xi_[-1] if xi_ else None
                    res_ = []
                    for i_, x_ in enumerate(clean):
                        if isinstance(x_, tuple) and len(x_) == 2 and x_[0] == "\x00xm":
                            if x_[1] in ("Ok", "Some"):
                                continue
                            rest = [y_ for y_ in clean[i_ + 1:] if not (isinstance(y_, tuple) and len(y_) == 2 and y_[0] == "\x00xm")]
                            if rest and rest[0] == "!err":
                                continue                        # the caller's `?` marks this error exit already
                            if i_ == last_ and ret_err:
                                # the failure edge of a written-out `?` / let-else: whatever the arm does (named events stay),
                                # the path ends by returning an Err - the same word `x.ok_or_else(|| ..)?` produces
                                tail_ = [y_ for y_ in rest if not (isinstance(y_, str) and y_.startswith("ret=") and not y_.startswith("ret=Err"))]
                                res_.extend(tail_)
                                if not tail_ or tail_[-1] not in ("!err",) and not (isinstance(tail_[-1], str) and tail_[-1].startswith("ret=Err")):
                                    res_.append("!err")
                                break
                            res_.append(f"[{x_[1]}]")
                        else:
                            res_.append(x_)
                    clean = res_
            if _depth == 0 and keep_end and end[1] == "return" and vk.get(0, (None,))[0] == "Err" and body.local_ty(0).startswith("core::result::Result<") \
                    and not any(isinstance(x_, str) and (x_ == "!err" or x_.startswith("ret=Err") or x_.startswith("ret=propagate") or x_.startswith("?Break")) for x_ in clean) \
                    and os.environ.get("VERIF_NO_ERR_APPEND") is None:
                clean = list(clean) + ["!err"]      # a path that returns an Err is an error exit, however the Err got there
            if _depth == 0 and inline is None and getattr(body, "inlined", None):
                # an error propagated by an inlined helper's own `?` and again by the caller's: one error exit
                clean = [x_ for i_, x_ in enumerate(clean) if not (x_ == "!err" and i_ > 0 and clean[i_ - 1] == "!err")]
            core_t = tuple(clean)
            if _depth > 0:
                if (core_t, ret) not in res_l:
                    res_l.append((core_t, ret))
            elif keep_end:
                res.add(core_t + (f"<{end[1]}>",))
            else:
                res.add(core_t)
    return res_l if _depth > 0 else res


def check_words(ob, body, got, allowed, key):
    """Every word of `got` must be in `allowed`; every allowed word must occur (table is exact)."""
    got_s = {fmt_word(w) for w in got}
    allowed_s = set(allowed)
    ob.count(len(got_s))
    for w in sorted(got_s - allowed_s):
        ob.fail("refuted", f"{key}/unexpected-path/{w.replace(' ', '_')}",
                f"{body.path}: path with projected events `{w}` is not one of the {len(allowed_s)} allowed behaviours",
                construct=body.path, where=body.loc(), path=w)
    for w in sorted(allowed_s - got_s):
        ob.fail("refuted", f"{key}/missing-path/{w.replace(' ', '_')}",
                f"{body.path}: required behaviour `{w}` has no corresponding path",
                construct=body.path, where=body.loc(), path=w)
    if got_s == allowed_s:
        ob.matched += len(got_s)
        ob.set_sample({"body": body.path, "words": sorted(got_s)})


# ---------------------------------------------------------------------------
# R-MUSTPASS helpers


def blocks_calling(body, spec, pred=None):
    o = None
    out = []
    for c in body.calls():
        if body.is_cleanup(c.bb):
            continue
        if c.is_(spec):
            if pred is not None:
                o = o or Origins(body)
                if not pred(c, o):
                    continue
            out.append(c.bb)
    return out


def must_pass(ob, body, through_bbs, goals=None, start=0, key="", what="", succ=None):
    """Every path start -> goal passes one of `through_bbs`."""
    goals = goals if goals is not None else body.return_blocks()
    ok = body.all_paths_pass(start, goals, through_bbs, succ=succ)
    ob.require(ok, f"{key}/must-pass", f"{body.path}: a path from bb{start} to {what or 'return'} avoids the required step",
               construct=body.path, where=body.loc())
    return ok


def success_edge_targets(body, bb_switch, labels_wanted, origins=None):
    si = switch_info(body, bb_switch, origins)
    if si is None:
        return []
    _, labels = si
    return [b for b, ls in labels.items() if ls & set(labels_wanted)]


def find_switch_on(body, pred, origins=None):
    """Switch blocks whose subject term satisfies pred(subject)."""
    o = origins or Origins(body)
    out = []
    for i, bl in enumerate(body.blocks):
        if bl.get("cleanup") or bl["t"]["k"] != "switch":
            continue
        si = switch_info(body, i, o)
        if si and pred(si[0]):
            out.append((i, si[0], si[1]))
    return out


def arg_origin(call, i, origins=None):
    o = origins or Origins(call.body)
    if i >= len(call.args):
        raise Undecidable(f"{call.site()}: no argument {i}")
    return o.of_operand(call.args[i])


def is_param(t, name=None, idx=None):
    t = strip_identity(t)
    if t[0] != "param":
        return False
    if name is not None and t[2] != name:
        return False
    if idx is not None and t[1] != idx:
        return False
    return True


def mentions_param(t, name):
    return any(x[0] == "param" and x[2] == name for x in walk(t))


def mentions_upvar(t, name):
    return any(x[0] == "upvar" and x[1] == name for x in walk(t))


def mentions_field(t, name):
    return any(x[0] == "field" and x[2] == name for x in walk(t))


def root_call(t, extra_identity=()):
    t = strip_identity(t, extra_identity)
    return t if t[0] == "call" else None


# ---------------------------------------------------------------------------
# await / comparison recognition


def await_target(call):
    """For the `Future::poll` call of an `.await` desugaring: what is awaited.
    Returns the async fn path (coroutine body minus ::{closure#0}), the impl type, or None."""
    if not name_matches(call.fn, "future::future::Future::poll"):
        return None
    if not (call.exp and "await" in call.exp):
        return None
    if call.res:
        r = call.res
        if r.endswith("::{closure#0}"):
            return r[: -len("::{closure#0}")]
        return r
    return "type:" + (call.self_ty or "?")


def normalize_cmp(subj):
    """Strip `Not`s off a boolean subject; return (negated, op, a, b) for a comparison or None.
    op in lt/le/gt/ge/eq/ne."""
    neg = False
    s = subj
    while True:
        if s[0] == "unop" and s[1] == "Not":
            neg = not neg
            s = s[2]
            continue
        if s[0] in ("ref", "deref", "cast"):
            s = s[1]
            continue
        break
    if s[0] == "binop" and s[1] in ("Lt", "Le", "Gt", "Ge", "Eq", "Ne"):
        return neg, s[1].lower(), s[2], s[3]
    if s[0] == "call" and name_matches(s[1], ("cmp::PartialOrd::lt", "cmp::PartialOrd::le", "cmp::PartialOrd::gt", "cmp::PartialOrd::ge",
                                              "cmp::PartialEq::eq", "cmp::PartialEq::ne")):
        return neg, s[1].split("::")[-1], s[2][0], s[2][1]
    return None


def cmp_truth(op, a_is_x, labels, neg):
    """Truth value of the canonical predicate `x >= y` on an edge, or None if the comparison is not
    equivalent to it.  a_is_x: the first operand is x (else it is y)."""
    if labels == {"true"}:
        val = True
    elif labels == {"false"}:
        val = False
    else:
        return None
    if neg:
        val = not val
    # express as x ? y
    if not a_is_x:
        op = {"lt": "gt", "le": "ge", "gt": "lt", "ge": "le", "eq": "eq", "ne": "ne"}[op]
    if op == "ge":
        return val
    if op == "lt":
        return not val
    return None


# ---------------------------------------------------------------------------
# standard projection for `?`-style sequential code


IGNORED_EXP = ("anyhow!", "bail!", "format!", "format_args!", "ensure!", "matches!")


def in_ignored_expansion(body, bb):
    e = body.blocks[bb]["t"].get("exp")
    if not e:
        return False
    last = e.split("::")[-1]
    return last in TRACING_EXP or last in IGNORED_EXP


def std_edge(body, extra=None, strict=True):
    """edge_sym that understands `?` (Break edge -> '!err'), await polls (silent), tracing/format
    expansions (silent); `extra(a, b, subj, labels, o)` may claim other switches first; any other
    switch yields '?cond(..)' when strict (so it shows up as an unexpected word)."""
    def edge_sym(a, b, subj, labels, o):
        if extra is not None:
            x = extra(a, b, subj, labels, o)
            if x is not None:
                return x
        lab = "|".join(sorted(labels))
        if subj[0] == "discr":
            r = strip_identity(subj[1])
            if r[0] == "call" and name_matches(r[1], "Try::branch"):
                return "!err" if lab == "Break" else []
            if r[0] == "call" and name_matches(r[1], "future::future::Future::poll") and "await" in (body.blocks[a]["t"].get("exp") or ""):
                return []
        if in_ignored_expansion(body, a):
            return []
        if subj[0] == "discr" and labels and labels <= {"Ok", "Err", "Some", "None"} and len(labels) == 1:
            # an explicit `match` on an Option/Result: the written-out form of `?` / `ok_or..?`. Resolved per word in
            # words_of: Ok/Some edges are silent like a `?` that continues; an Err/None edge is the error exit `!err`
            # when the path then returns an Err (or runs into the caller's own `?`) without further events, and stays
            # visible as `[Err]` / `[None]` otherwise.
            return ("\x00xm", lab)
        if strict:
            return f"?cond({show(subj)[:50]})={lab}"
        return []
    return edge_sym


def seq_words(body, call_sym, stmt_sym=None, extra_edge=None, strict=True, inline_prog=None, **kw):
    inline = {"prog": inline_prog, "edge_for": lambda b_: std_edge(b_, extra_edge, strict)} if inline_prog is not None else None
    return words_of(body, call_sym, std_edge(body, extra_edge, strict), stmt_sym, inline=inline, **kw)


def ok_words(ws):
    """words not containing an error exit (`?` propagation, or an explicit `return Err(..)` where the rule names returns)"""
    return {w for w in ws if "!err" not in w and "ret=Err" not in w}


def const_of(t):
    """constant value string of a term (literal, or evaluated named constant), else None"""
    s = strip_identity(t)
    if s[0] == "const":
        return s[1]
    if s[0] == "named":
        return s[2] if len(s) > 2 and s[2] is not None else None
    return None


def int_of(t, _depth=0):
    """integer value of a constant term, folding arithmetic on constants (named constants, `OFFSET + 1`, casts)"""
    v = const_of(t)
    if v is not None:
        m = __import__("re").match(r"^(-?\d+)(?:_[iu](?:8|16|32|64|128|size))?$", str(v))
        return int(m.group(1)) if m else None
    if _depth > 8:
        return None
    s = strip_identity(t)
    if s[0] == "field" and s[2] == "0" and s[1][0] == "binop" and s[1][1].endswith("WithOverflow"):
        s = ("binop", s[1][1][:-len("WithOverflow")], s[1][2], s[1][3])
    if s[0] == "binop" and len(s) >= 4:
        a, b = int_of(s[2], _depth + 1), int_of(s[3], _depth + 1)
        if a is None or b is None:
            return None
        op = s[1]
        try:
            return {"Add": a + b, "Sub": a - b, "Mul": a * b, "Shl": a << b, "Shr": a >> b, "BitOr": a | b, "BitAnd": a & b, "BitXor": a ^ b,
                    "Div": a // b if b else None, "Rem": a % b if b else None, "AddUnchecked": a + b, "SubUnchecked": a - b}.get(op)
        except (ValueError, OverflowError):
            return None
    return None


def range_bounds(r, limit=None):
    """(start, end_exclusive) of a constant range term in any of its spellings (`a..b`, `a..=b`, `..b`, `..=b`, `a..`, `..`);
    None if it is not a range with constant bounds.  `limit` = length of the indexed object (needed for `a..` and `..`)."""
    r = strip_identity(r)
    def ends(name):
        return r[0] == "agg" and r[2].endswith(name)
    if r[0] == "call" and name_matches(r[1], "RangeInclusive::new"):
        a, e = int_of(r[2][0]), int_of(r[2][1])
        return (a, e + 1) if a is not None and e is not None else None
    if ends("range::Range::Range"):
        a, e = int_of(r[3][0]), int_of(r[3][1])
        return (a, e) if a is not None and e is not None else None
    if ends("range::RangeTo::RangeTo"):
        e = int_of(r[3][0])
        return (0, e) if e is not None else None
    if ends("range::RangeToInclusive::RangeToInclusive"):
        e = int_of(r[3][0])
        return (0, e + 1) if e is not None else None
    if ends("range::RangeFrom::RangeFrom") and limit is not None:
        a = int_of(r[3][0])
        return (a, limit) if a is not None else None
    if r[0] == "agg" and r[2].endswith("range::RangeFull") and limit is not None:
        return (0, limit)
    return None


def vec_macro_elements(body, o, t):
    """Element terms of a `vec![a, b, ..]` value (lowered as Box::new_uninit + array write + into_vec)."""
    s = strip_identity(t)
    if not (s[0] == "call" and name_matches(s[1], "boxed::box_assume_init_into_vec_unsafe")):
        return None
    inner = strip_identity(s[2][0])
    if not (inner[0] == "call" and name_matches(inner[1], "boxed::Box::new_uninit")):
        return None
    c = body.call_at(inner[3])
    if c is None or not isinstance(c.dest, int):
        return None
    out = None
    for d in body.defs().get(c.dest, []):
        if d[0] == "partial" and d[3].get("k") == "assign" and d[3]["rv"]["k"] == "agg" and d[3]["rv"]["ak"] == "array":
            if out is not None:
                return None
            out = [o.of_operand(x) for x in d[3]["rv"]["ops"]]
    return out


# ---------------------------------------------------------------------------
# format! templates


def parse_bytes_literal(v):
    """b"..." display form -> bytes"""
    if v is None or not v.startswith('b"') or not v.endswith('"'):
        return None
    s = v[2:-1]
    out = bytearray()
    i = 0
    while i < len(s):
        c = s[i]
        if c == "\\":
            n = s[i + 1]
            if n == "x":
                out.append(int(s[i + 2:i + 4], 16))
                i += 4
            elif n == "n":
                out.append(10); i += 2
            elif n == "t":
                out.append(9); i += 2
            elif n == "r":
                out.append(13); i += 2
            elif n == "0":
                out.append(0); i += 2
            elif n in "\\\"'":
                out.append(ord(n)); i += 2
            else:
                return None
        else:
            out.extend(c.encode())
            i += 1
    return bytes(out)


def decode_format_template(v):
    """Arguments::new template -> list of pieces: str literals and None for a default-format argument.
    Returns None if the template uses anything else (fail closed)."""
    b = parse_bytes_literal(v)
    if b is None:
        return None
    out = []
    i = 0
    while i < len(b):
        x = b[i]
        if x == 0:
            return out if i == len(b) - 1 else None
        if x == 0xC0:
            out.append(None)
            i += 1
        elif x < 0x80:
            out.append(b[i + 1:i + 1 + x].decode("utf-8", "replace"))
            i += 1 + x
        else:
            return None
    return None


def format_term(body, o, t):
    """If term t is the String produced by format!(..): list of pieces (str | argument term)."""
    s = strip_identity(t, extra=("hint::must_use", "alloc::fmt::format", "string::String::as_str", "ToString::to_string"))
    if s[0] == "call" and name_matches(s[1], "fmt::Arguments::from_str"):
        c = const_of(s[2][0])
        return [c.strip('"')] if c else None
    if not (s[0] == "call" and name_matches(s[1], "fmt::Arguments::new")):
        return None
    tpl = decode_format_template(const_of(s[2][0]))
    if tpl is None:
        return None
    arr = strip_identity(s[2][1])
    if not (arr[0] == "agg" and arr[1] == "array"):
        return None
    args = []
    for a in arr[3]:
        a = strip_identity(a)
        if a[0] == "call" and name_matches(a[1], ("fmt::rt::Argument::new_display", "fmt::rt::Argument::new_debug")):
            args.append((a[1].split("::")[-1], a[2][0]))
        else:
            return None
    out = []
    k = 0
    for p in tpl:
        if p is None:
            if k >= len(args):
                return None
            out.append(args[k])
            k += 1
        else:
            out.append(p)
    return out


# ---------------------------------------------------------------------------
# R-PANIC


PANIC_CALLS = (
    "option::Option::unwrap", "option::Option::expect", "result::Result::unwrap", "result::Result::expect",
    "result::Result::unwrap_err", "result::Result::expect_err", "option::Option::unwrap_unchecked",
    "re:^core::panicking::", "re:^std::panicking::", "std::rt::begin_panic", "std::rt::panic_fmt", "panic::resume_unwind", "panic::panic_any",
    "ops::index::Index::index", "ops::index::IndexMut::index_mut",
    "slice::copy_from_slice", "slice::clone_from_slice", "slice::split_at", "slice::split_at_mut",
    "vec::Vec::remove", "vec::Vec::swap_remove", "vec::Vec::insert", "vec::Vec::drain", "vec::Vec::split_off",
    "cell::RefCell::borrow", "cell::RefCell::borrow_mut", "string::String::remove", "str::split_at",
    # documented to panic on an out-of-range / non-char-boundary / zero argument
    "string::String::truncate", "string::String::insert", "string::String::insert_str", "string::String::split_off", "string::String::drain",
    "string::String::replace_range", "str::split_at_mut", "vec::Vec::extend_from_within", "slice::chunks", "slice::chunks_exact", "slice::windows",
    "slice::rotate_left", "slice::rotate_right", "slice::swap", "slice::copy_within", "collections::vec_deque::VecDeque::swap",
    "bytes::bytes::Bytes::split_to", "bytes::bytes::Bytes::split_off", "bytes::bytes::Bytes::slice", "bytes::bytes_mut::BytesMut::split_to", "bytes::bytes_mut::BytesMut::split_off",
    "bytes::buf::buf_impl::Buf::advance", "bytes::buf::buf_impl::Buf::copy_to_slice", "bytes::buf::buf_impl::Buf::copy_to_bytes", "bytes::buf::buf_impl::Buf::get_u8",
    "bytes::buf::buf_impl::Buf::get_u16", "bytes::buf::buf_impl::Buf::get_u32", "bytes::buf::buf_impl::Buf::get_u64", "iter::traits::iterator::Iterator::step_by",
    "re:^tokio::runtime::handle::Handle::current", "tokio::task::spawn::spawn", "tokio::task::blocking::spawn_blocking",
    "tokio::time::interval::interval", "tokio::time::interval::interval_at",
    "sync::mutex::Mutex::lock", "sync::rwlock::RwLock::read", "sync::rwlock::RwLock::write",
)
ARITH_TRAITS = ("ops::arith::Add::add", "ops::arith::Sub::sub", "ops::arith::Mul::mul", "ops::arith::Div::div", "ops::arith::Rem::rem",
                "ops::arith::AddAssign::add_assign", "ops::arith::SubAssign::sub_assign", "ops::arith::MulAssign::mul_assign",
                "time::Duration::mul_f64", "time::Duration::mul_f32", "time::Duration::from_secs_f64", "time::Duration::from_secs_f32",
                "time::Duration::div_f64")
# locks are inventory items only when poisoning is unwrapped; the lock call itself does not panic
NON_PANICKING_LOCKS = ("sync::mutex::Mutex::lock", "sync::rwlock::RwLock::read", "sync::rwlock::RwLock::write")


def panic_sites(prog, entries, stop=(), extra_edges=None, crates=None):
    """All panic-capable constructs in workspace bodies reachable from `entries`.
    Returns (reach, sites) with sites = list of dict(body, bb, kind, what, key)."""
    reach = prog.reachable_bodies(entries, extra_edges=extra_edges, stop=stop)
    sites = []
    for p in sorted(reach):
        b = prog.body(p)
        if b is None or (crates and b.crate not in crates):
            continue
        counts = {}
        cand = []
        for i, bl in enumerate(b.blocks):
            if bl.get("cleanup"):
                continue
            t = bl["t"]
            what = None
            if t["k"] == "assert":
                m = t["msg"]
                what = "assert:" + m.split("{")[0].split("(")[0].strip()
            elif t["k"] == "call":
                c = b.call_at(i)
                if c.fn and name_matches(c.fn, NON_PANICKING_LOCKS):
                    what = None
                elif c.fn and name_matches(c.fn, PANIC_CALLS):
                    what = "call:" + "::".join(c.fn.split("::")[-2:])
                elif c.fn and name_matches(c.fn, ARITH_TRAITS) and not is_tracing(c):
                    what = "arith:" + "::".join(c.fn.split("::")[-2:]) + "<" + (c.self_ty or (c.ga[0] if c.ga else "?")).split("::")[-1] + ">"
            if what is None:
                continue
            if in_ignored_expansion(b, i) and what.startswith("call:fmt"):
                continue
            cand.append((1 if (t.get("exp") or "").split("::")[-1] == "select!" else 0, t.get("line") or 0, i, what, t.get("exp")))
        # ordinals: in source order, macro-generated (select!) sites last - stable when code is moved within / inlined into the body
        for sel_, line_, i, what, exp_ in sorted(cand):
            n = counts.get(what, 0)
            counts[what] = n + 1
            sites.append({"body": p, "bb": i, "what": what, "ord": n, "key": f"{p}/{what}#{n}", "exp": exp_, "via": reach.get(p)})
    return reach, sites


def check_panic_inventory(ob, prog, entries, allow, stop=(), extra_edges=None, key_prefix="panic"):
    """Every panic-capable site reachable from `entries` must be in `allow` (key -> justification, or
    (justification, checker(site, body) -> bool))."""
    for e in entries:
        if prog.body(e) is None:
            raise AnchorLost(f"panic-inventory entry point {e} not found")
    reach, sites = panic_sites(prog, entries, stop=stop, extra_edges=extra_edges)
    ob.count(len(reach))
    used = set()
    for s in sites:
        k = s["key"]
        a = allow.get(k)
        if a is None:
            # wildcard per body: key "<body>/*"
            a = allow.get(s["body"] + "/*")
            if a is not None:
                used.add(s["body"] + "/*")
        else:
            used.add(k)
        if a is None and static_bounds_ok(s, prog.body(s["body"])):
            ob.evals += 1
            ob.matched += 1
            continue
        if a is None:
            b = prog.body(s["body"])
            ob.fail("refuted", f"{key_prefix}/unlisted/{k}",
                    f"panic-capable construct `{s['what']}` in {s['body']} is reachable from the entry points (via {s['via']}) and has no justification in the inventory",
                    s["body"], b.loc(s["bb"]))
            continue
        ob.evals += 1
        if isinstance(a, tuple):
            just, chk = a
            b = prog.body(s["body"])
            if chk(s, b):
                ob.matched += 1
            else:
                ob.fail("refuted", f"{key_prefix}/justification-failed/{k}", f"justification `{just}` for `{s['what']}` in {s['body']} does not hold any more", s["body"], b.loc(s["bb"]))
        else:
            ob.matched += 1
    return reach, sites, used


def drop_edges(prog):
    """extra call-graph edges: Drop terminators on types with a workspace Drop impl."""
    drops = {}
    for im in prog.impls:
        if im["trait"] == "core::ops::drop::Drop":
            ty = im["self_ty"].split("<")[0]
            for it in im["items"]:
                drops.setdefault(ty, []).append(strip_generics(it))

    def edges(b):
        out = set()
        for bl in b.blocks:
            t = bl["t"]
            if t["k"] == "drop":
                ty = b.local_ty(place_local(t["pl"]))
                for k, v in drops.items():
                    if k in ty:
                        out.update(v)
        return out
    return edges


# ---------------------------------------------------------------------------
# tokio::select! loops (R-STICKY)


def select_sites(prog, co):
    """All `tokio::select!` sites of body `co`: list of dict(head=bb of the poll_fn call, switch=bb of the
    match on the Out enum, arms={branch index: target bb}, disabled=target bb or None,
    polled={branch index: resolved future (coroutine path / type)})."""
    o = Origins(co)
    out = []
    for i, bl in enumerate(co.blocks):
        if bl.get("cleanup") or bl["t"]["k"] != "switch":
            continue
        t = bl["t"]
        pl = op_place(t["discr"])
        if pl is None or not isinstance(pl, int):
            continue
        ds = [d for d in co.defs().get(pl, []) if d[0] == "assign" and d[3]["k"] == "discr"]
        if len(ds) != 1 or not str(ds[0][3].get("enum", "")).endswith("__tokio_select_util::Out"):
            continue
        variants = {d: n for n, d in ds[0][3]["variants"]}
        subj = o.of_place(ds[0][3]["pl"])
        pfs = [x for x in walk(subj) if x[0] == "call" and name_matches(x[1], "core::future::poll_fn::poll_fn")]
        if len(pfs) != 1:
            raise Undecidable(f"{co.path}: select! output at bb{i} does not come from exactly one poll_fn")
        head = pfs[0][3]
        arms = {}
        disabled = None
        for v, tgt in t["arms"]:
            n = variants.get(v, str(v))
            if n == "Disabled":
                disabled = tgt
            elif n.startswith("_"):
                arms[int(n[1:])] = tgt
        # the polling closure
        cl = strip_identity(pfs[0][2][0])
        polled = {}
        if cl[0] == "agg" and cl[1] == "closure":
            kb = prog.body(cl[2])
            if kb is not None:
                ko = Origins(kb)
                for x in kb.calls():
                    if name_matches(x.fn, "future::future::Future::poll") and not kb.is_cleanup(x.bb):
                        a0 = ko.of_operand(x.args[0])
                        idx = [v for v in walk(a0) if v[0] == "field" and v[2].isdigit() and mentions_upvar(v, "futures")]
                        if idx:
                            polled[int(idx[0][2])] = x.res or ("type:" + str(x.self_ty))
        out.append({"head": head, "switch": i, "arms": arms, "disabled": disabled, "polled": polled, "preconds": _select_preconditions(co, o, head)})
    return out


def _select_preconditions(co, o, head):
    """`branch = fut, if cond => ..` preconditions of the select! whose poll_fn is created in block `head`: {branch index:
    condition term}.  tokio expands every branch to `if !<cond> { disabled |= 1 << i }` with `true` for branches without one:
    a branch has a precondition iff the tested condition is not the constant true."""
    pre = {}
    for bi, bl in enumerate(co.blocks):
        if bl.get("cleanup"):
            continue
        sh = [s_ for s_ in bl["s"] if s_["k"] == "assign" and s_["rv"]["k"] == "binop" and s_["rv"]["op"] == "Shl"]
        orr = [s_ for s_ in bl["s"] if s_["k"] == "assign" and s_["rv"]["k"] == "binop" and s_["rv"]["op"] == "BitOr"]
        if not sh or not orr:
            continue
        # this mask-setting block belongs to the select whose head it reaches first (no other poll_fn in between)
        if head not in co.reachable_from(bi):
            continue
        idx = int_of(o.of_operand(sh[0]["rv"]["b"]))
        one = int_of(o.of_operand(sh[0]["rv"]["a"]))
        if idx is None or one != 1:
            continue
        cands = list(co.preds(bi))
        hops = 0
        while cands and all(co.term(p_)["k"] in ("assert", "goto", "falseedge") for p_ in cands) and hops < 4:
            cands = [q_ for p_ in cands for q_ in co.preds(p_)]          # (the shift's overflow check sits in between)
            hops += 1
        for p_ in cands:
            t_ = co.term(p_)
            if t_["k"] != "switch":
                continue
            c_ = o.of_operand(t_["discr"])
            neg = 0
            while c_[0] == "unop" and c_[1] == "Not":
                c_ = c_[2]
                neg += 1
            c_ = strip_identity(c_)
            if c_[0] == "const" and str(c_[1]) in ("true", "false"):
                continue
            pre[idx] = c_
    return pre


def check_no_select_preconditions(ob, prog, co, key, allowed=()):
    """No arm of the select! loops of `co` is switched off by a condition (`, if cond`): a disabled arm does not see what it
    exists to see - a closed mailbox / shutdown request, an incoming connection, a finished task - for as long as the
    condition is false."""
    sites = select_sites(prog, co)
    ob.floor(sites, 1, f"select! sites in {co.path}")
    for s_ in sites:
        for idx, c_ in sorted(s_["preconds"].items()):
            if idx in allowed:
                continue
            ob.fail("refuted", f"{key}/arm{idx}/precondition", f"select! arm {idx} (polls {str(s_['polled'].get(idx, '?'))[:60]}) is disabled while `{show(c_)[:80]}` is false", co.path, co.loc(s_["head"]))
    ob.count(len(sites))


def arm_words(co, site, idx, call_sym, edge_extra=None, stmt_sym=None):
    """Words of select arm `idx` from its entry to either the loop head (ends '<stop>' = continues the loop)
    or a function exit."""
    return seq_words(co, call_sym, stmt_sym, edge_extra, strict=False, start=site["arms"][idx], stops=[site["head"]])


def ite_of(body, o, local):
    """For a local assigned constants on the two sides of one branch: ('ite', cond_term, value_if_true, value_if_false)."""
    ds = [d for d in body.defs().get(local, []) if d[0] == "assign"]
    if len(ds) != 2 or len(body.defs().get(local, [])) != 2:
        return None
    vals = []
    for d in ds:
        v = const_of(o.of_rvalue(d[3]))
        if v is None:
            # maybe `&""`: ref of a const local
            t = strip_identity(o.of_rvalue(d[3]))
            v = const_of(t)
        if v is None:
            return None
        vals.append((d[1], v))
    for i, bl in enumerate(body.blocks):
        if bl.get("cleanup") or bl["t"]["k"] != "switch":
            continue
        si = switch_info(body, i, o)
        if si is None:
            continue
        subj, labels = si
        tt = [t for t, ls in labels.items() if ls == {"true"}]
        ff = [t for t, ls in labels.items() if ls == {"false"}]
        if len(tt) != 1 or len(ff) != 1:
            continue
        for (b1, v1), (b2, v2) in ((vals[0], vals[1]), (vals[1], vals[0])):
            if body.dominates(tt[0], b1) and body.dominates(ff[0], b2) and not body.dominates(tt[0], b2) and not body.dominates(ff[0], b1):
                return ("ite", subj, v1, v2)
    return None


def check_ms_getter(ob, prog, getter, field, key=None):
    """Unit discipline: a Config accessor reading a `*_ms` field must build its Duration with from_millis only
    (every Duration constructor in the body, as a call or as a function value)."""
    b = prog.body(getter)
    if b is None:
        raise AnchorLost(f"body {getter} not found")
    key = key or getter.split("::")[-1]
    o = Origins(b)
    ret = o.of_local(0)
    ob.require(mentions_field(ret, field) and mentions_param(ret, "self"), f"{key}/reads-{field}", f"{getter} returns {show(ret)[:100]} (does not read self.{field})", b.path)
    ctors = []
    for c in b.calls():
        if b.is_cleanup(c.bb):
            continue
        if c.fn and c.fn.startswith("core::time::Duration::") and (c.fn.split("::")[-1].startswith("from_") or c.fn.endswith("::new")):
            ctors.append(c.fn.split("::")[-1])
        for op in c.args:
            if op.get("k") == "const" and "fn" in op and strip_generics(op["fn"]).startswith("core::time::Duration::from_"):
                ctors.append(strip_generics(op["fn"]).split("::")[-1])
    for bl in b.blocks:
        for s in bl["s"]:
            if s["k"] == "assign":
                for op in rvalue_operands(s["rv"]):
                    if op.get("k") == "const" and "fn" in op and strip_generics(op["fn"]).startswith("core::time::Duration::from_"):
                        ctors.append(strip_generics(op["fn"]).split("::")[-1])
    ob.require(bool(ctors) and all(x == "from_millis" for x in ctors), f"{key}/unit-ms", f"{getter}: field {field} is in milliseconds but Durations are built with {sorted(set(ctors))}", b.path, b.loc())
    check_pure_accessor(ob, prog, getter, field, key=key)


_ACCESSOR_CALLS = ("core::time::Duration::from_millis", "core::option::Option::unwrap_or", "core::option::Option::map", "core::option::Option::unwrap_or_else",
                   "core::option::Option::map_or", "core::option::Option::map_or_else", "core::option::Option::unwrap_or_default", "core::option::Option::copied",
                   "core::option::Option::cloned", "core::option::Option::as_ref", "core::clone::Clone::clone", "core::default::Default::default",
                   # `let ms = self.field?; Some(from_millis(ms))` on an Option-valued accessor
                   "core::ops::try_trait::Try::branch", "core::ops::try_trait::FromResidual::from_residual")


def check_pure_accessor(ob, prog, getter, field, key=None):
    """A Config accessor answers with its own field or that field's documented default and nothing else: it reads no
    other field, calls no other accessor and does no arithmetic / min / max on the way (a "sanity clamp" against another
    option silently changes what the configured value means)."""
    b = prog.body(getter)
    if b is None:
        raise AnchorLost(f"body {getter} not found")
    key = key or getter.split("::")[-1]
    bodies = [b] + [k for k in prog.children(b)]
    odd = []
    for bb_ in bodies:
        for c in bb_.calls():
            if bb_.is_cleanup(c.bb) or is_tracing(c):
                continue
            if not name_matches(c.fn or "", _ACCESSOR_CALLS) and not (c.fn or "").startswith("core::ops::function::Fn"):
                odd.append((c.fn or "?").split("::")[-1])
        for bl in bb_.blocks:
            if bl.get("cleanup"):
                continue
            for st in bl["s"]:
                if st["k"] == "assign" and st["rv"]["k"] in ("binop", "checked_binop"):
                    odd.append("arith:" + str(st["rv"].get("op")))
    ob.require(not odd, f"{key}/pure-accessor", f"{getter} does more than read its field: {sorted(set(odd))[:5]}", b.path, b.loc())
    fields = set()
    for bb_ in bodies:
        for bl in bb_.blocks:
            for st in bl["s"]:
                if st["k"] == "assign":
                    for x in walk(Origins(bb_).of_rvalue(st["rv"])):
                        if x[0] == "field" and (mentions_param(x[1], "self") or mentions_upvar(x[1], "self")) and not str(x[2]).isdigit():
                            fields.add(x[2])
    ob.require(fields <= {field}, f"{key}/own-field-only", f"{getter} reads other configuration fields: {sorted(fields - {field})}", b.path, b.loc())


# ---------------------------------------------------------------------------
# call-path multiplicity (inlining view of a small call tree)


def call_sites_through(prog, root, pred, depth=4):
    """All (call, chain) pairs where `call` satisfies pred(call) and is reached from body `root` by a chain of
    crate-local calls / closure constructions of length <= depth. A site reached along two different chains (or a
    callee invoked from two sites) is listed once per chain: the result is the multiset an inliner would produce.
    Cleanup blocks are ignored. Recursion is cut (a body never appears twice on one chain)."""
    out = []

    def rec(b, chain):
        for c in b.calls():
            if b.is_cleanup(c.bb):
                continue
            if pred(c):
                out.append((c, chain + (b.path,)))
            if len(chain) >= depth:
                continue
            tgt = None
            for n in (c.res, c.fn):
                if n and n in prog.bodies:
                    tgt = n
                    break
            if tgt and tgt not in chain and tgt != b.path:
                rec(prog.bodies[tgt], chain + (b.path,))
        if len(chain) < depth:
            for k in prog.children(b):
                if k.path not in chain:
                    rec(k, chain + (b.path,))

    rec(root, ())
    return out


# ---------------------------------------------------------------------------
# ownership across suspension points


def _is_local(pl, L):
    return (pl == L) if isinstance(pl, int) else (pl["l"] == L and not pl["p"])


def owned_live_at_yield(body, L):
    """Yield blocks at which the value owned by local `L` may still be alive: forward from every definition of L,
    killed by StorageDead(L), drop(L), a move of the whole local, or a re-definition. (mir_built: drops are not yet
    elaborated, so a whole-local move is what ends ownership on the moving path.)"""
    def stmt_kills(s):
        if s["k"] == "dead":
            return s["l"] == L
        if s["k"] == "assign":
            for op in rvalue_operands(s["rv"]):
                if op.get("k") == "move" and _is_local(op["pl"], L):
                    return True
        return False

    def term_kills(t):
        k = t["k"]
        if k == "drop":
            return _is_local(t["pl"], L)
        if k == "call":
            return any(op.get("k") == "move" and _is_local(op["pl"], L) for op in t["args"])
        if k == "yield":
            v = t.get("value") or {}
            return v.get("k") == "move" and _is_local(v["pl"], L)
        return False

    starts = []
    for i, bl in enumerate(body.blocks):
        if bl.get("cleanup"):
            continue
        for j, s in enumerate(bl["s"]):
            if s["k"] == "assign" and _is_local(s["lhs"], L):
                starts.append((i, j + 1))
        t = bl["t"]
        if t["k"] == "call" and _is_local(t["dest"], L) and t.get("target") is not None:
            starts.append((t["target"], 0))
    if L >= 1 and L <= body.argc:
        starts.append((0, 0))
    seen, hits = set(), []
    st = list(starts)
    while st:
        bb, j = st.pop()
        if (bb, j) in seen or body.is_cleanup(bb):
            continue
        seen.add((bb, j))
        bl = body.blocks[bb]
        killed = False
        for s in bl["s"][j:]:
            if stmt_kills(s):
                killed = True
                break
        if killed:
            continue
        t = bl["t"]
        if term_kills(t):
            continue
        if t["k"] == "yield":
            hits.append(bb)
        for n in body.succ(bb):
            st.append((n, 0))
    return sorted(set(hits))


# ---------------------------------------------------------------------------
# case tables of small Option/Result/bool-valued functions, over control flow AND combinator chains


def value_cases(prog, t, atom, depth=0):
    """Symbolic case split of a term that denotes an Option / Result / bool built with std combinators.
    atom(term) -> name | None recognises the primitive tests (e.g. `Weak::upgrade(..)` -> "weak", `is_closed(..)` -> "closed").
    Returns a list of (conds, outcome): conds = tuple of (name, value) pairs, outcome in Some/None/Ok/Err/true/false or
    "?<what>" when the term is not understood (callers must treat "?" outcomes as refuting)."""
    if depth > 12:
        return [((), "?depth")]
    s = strip_identity(t)
    nm = atom(s)
    if nm is not None:
        kind = nm[1] if isinstance(nm, tuple) else "option"
        name = nm[0] if isinstance(nm, tuple) else nm
        if kind == "bool":
            return [(((name, "true"),), "true"), (((name, "false"),), "false")]
        if kind == "result":
            return [(((name, "Ok"),), "Ok"), (((name, "Err"),), "Err")]
        return [(((name, "Some"),), "Some"), (((name, "None"),), "None")]
    if s[0] == "const" and s[1] in ("true", "false", True, False):
        return [((), str(s[1]).lower())]
    if s[0] == "call" and name_matches(s[1], "FromResidual::from_residual") and s[2]:
        # the failure value of a `?` (inside an inlined helper): Err of a Result-valued expression, None of an Option-valued one
        r_ = strip_identity(s[2][0])
        while r_[0] in ("field", "variant"):
            r_ = strip_identity(r_[1])
        if r_[0] == "call" and name_matches(r_[1], "Try::branch") and r_[2]:
            src_ = strip_identity(r_[2][0])
            if src_[0] == "call" and name_matches(src_[1], ("Option::ok_or_else", "Option::ok_or", "Result::map_err", "Result::map", "Result::and_then", "Result::or_else")):
                return [((), "Err")]
            if src_[0] == "call" and name_matches(src_[1], ("Option::map", "Option::and_then", "Option::filter", "Option::or_else", "Option::as_ref", "Result::ok", "Weak::upgrade")):
                return [((), "None")]
    if s[0] == "agg":
        for v in ("Some", "None", "Ok", "Err"):
            if str(s[2]).endswith("::" + v):
                return [((), v)]
        return [((), "?agg")]
    if s[0] == "unop" and s[1] == "Not":
        return [(c, {"true": "false", "false": "true"}.get(o, "?not")) for c, o in value_cases(prog, s[2], atom, depth + 1)]
    if s[0] == "phi":
        out = []
        for i, a in enumerate(s[1]):
            out.extend(value_cases(prog, a, atom, depth + 1))
        return out
    if s[0] == "variant" or s[0] == "field":
        # payload of a `?`: Continue(x) of Try::branch(x) -- the value x on its success side
        inner = s
        while inner[0] in ("variant", "field"):
            inner = strip_identity(inner[1])
        if inner[0] == "call" and name_matches(inner[1], "Try::branch"):
            return [(c, o) for c, o in value_cases(prog, inner[2][0], atom, depth + 1) if o in ("Some", "Ok")]
        return [((), "?proj")]
    if s[0] != "call":
        return [((), "?" + s[0])]
    fn, args = s[1], s[2]

    def closure_ret(ct):
        ct = strip_identity(ct)
        if ct[0] == "agg" and ct[1] == "closure" and ct[2] in prog.bodies:
            return Origins(prog.bodies[ct[2]]).of_local(0)
        if ct[0] == "fnptr" and ct[1] in prog.bodies:
            return Origins(prog.bodies[ct[1]]).of_local(0)
        return None

    def join(xs, f):
        out = []
        for c, o in xs:
            for c2, o2 in f(o):
                out.append((c + c2, o2))
        return out
    if name_matches(fn, ("Option::map", "Result::map", "Result::map_err", "Option::as_ref", "Option::as_mut", "Option::cloned", "Option::copied", "Option::inspect", "Result::inspect_err",
                         "Option::as_deref", "Result::as_ref")):
        return value_cases(prog, args[0], atom, depth + 1)
    if name_matches(fn, ("Option::and_then", "Result::and_then")):
        r = closure_ret(args[1])
        if r is None:
            return [((), "?and_then")]
        return join(value_cases(prog, args[0], atom, depth + 1), lambda o: value_cases(prog, r, atom, depth + 1) if o in ("Some", "Ok") else [((), o)])
    if name_matches(fn, "Option::filter"):
        r = closure_ret(args[1])
        if r is None:
            return [((), "?filter")]
        return join(value_cases(prog, args[0], atom, depth + 1),
                    lambda o: [(c, "Some" if o2 == "true" else "None" if o2 == "false" else o2) for c, o2 in value_cases(prog, r, atom, depth + 1)] if o == "Some" else [((), o)])
    if name_matches(fn, ("bool::then_some", "bool::then")):
        return [(c, {"true": "Some", "false": "None"}.get(o, o)) for c, o in value_cases(prog, args[0], atom, depth + 1)]
    if name_matches(fn, ("Option::ok_or_else", "Option::ok_or")):
        return [(c, {"Some": "Ok", "None": "Err"}.get(o, o)) for c, o in value_cases(prog, args[0], atom, depth + 1)]
    if name_matches(fn, ("Result::ok",)):
        return [(c, {"Ok": "Some", "Err": "None"}.get(o, o)) for c, o in value_cases(prog, args[0], atom, depth + 1)]
    if name_matches(fn, ("Option::is_some", "Result::is_ok")):
        return [(c, {"Some": "true", "None": "false", "Ok": "true", "Err": "false"}.get(o, o)) for c, o in value_cases(prog, args[0], atom, depth + 1)]
    if name_matches(fn, ("Option::is_none", "Result::is_err")):
        return [(c, {"Some": "false", "None": "true", "Ok": "false", "Err": "true"}.get(o, o)) for c, o in value_cases(prog, args[0], atom, depth + 1)]
    if name_matches(fn, ("Option::unwrap_or", "Option::map_or", "Option::is_some_and", "Option::is_none_or")):
        # bool-valued forms: `x.map(|v| p(v)).unwrap_or(d)`, `x.map_or(d, |v| p(v))`, `x.is_some_and(|v| p(v))`
        if name_matches(fn, "Option::unwrap_or"):
            src, dflt, pred = args[0], args[1], None
            ss = strip_identity(src)
            if ss[0] == "call" and name_matches(ss[1], "Option::map"):
                pred = closure_ret(ss[2][1])
                src = ss[2][0]
        elif name_matches(fn, "Option::map_or"):
            src, dflt, pred = args[0], args[1], closure_ret(args[2])
        else:
            src, pred = args[0], closure_ret(args[1])
            dflt = ("const", "false" if name_matches(fn, "Option::is_some_and") else "true")
        if pred is None:
            return [((), "?unwrap_or")]
        return join(value_cases(prog, src, atom, depth + 1),
                    lambda o: value_cases(prog, pred, atom, depth + 1) if o == "Some" else value_cases(prog, dflt, atom, depth + 1) if o == "None" else [((), o)])
    return [((), "?call:" + str(fn).split("::")[-1])]


def function_cases(prog, body, atom, ret_kinds=("Some", "None", "Ok", "Err", "true", "false")):
    """Case table {frozenset(conds): {outcomes}} of a small loop-free function returning Option / Result / bool, whether it
    is written with control flow (`match`, `if`, `?`, let-else), with combinators, or a mix: tests on atoms become
    conditions along each path, the returned value is split symbolically with value_cases."""
    def edge_sym(a, b, subj, labels, o):
        lab = "|".join(sorted(labels))
        if subj[0] == "discr":
            r = strip_identity(subj[1])
            via_try = False
            if r[0] == "call" and name_matches(r[1], "Try::branch"):
                via_try = True
                r = strip_identity(r[2][0])
            vc = value_cases(prog, r, atom)
            if all(not o_.startswith("?") for _, o_ in vc) and vc:
                want = set()
                for l_ in labels:
                    want |= {"Continue": {"Some", "Ok"}, "Break": {"None", "Err"}}.get(l_, {l_}) if via_try else {l_}
                alts = tuple(c_ for c_, o_ in vc if o_ in want)
                return ("\x00fcases", alts)
            # a test the rule does not name: an opaque condition of this path (does not poison the rows)
            return ("\x00fcases", (((f"?{show(r)[:40]}", lab),),))
        vc = value_cases(prog, subj, atom)
        if vc and all(o_ in ("true", "false") for _, o_ in vc) and labels in ({"true"}, {"false"}):
            return ("\x00fcases", tuple(c_ for c_, o_ in vc if o_ == ("true" if labels == {"true"} else "false")))
        return ("\x00fcases", (((f"?{show(subj)[:40]}", lab),),))

    def ret_of(t, o):
        vc = value_cases(prog, t, atom)
        return ("\x00fret", tuple(vc))

    def stmt_sym(bb, s, o):
        if s["lhs"] == 0:
            return ret_of(o.of_rvalue(s["rv"]), o)
        return None

    def call_sym(c, o):
        if c.dest == 0:
            if name_matches(c.fn, "FromResidual::from_residual"):
                return ("\x00fret", (((), "None" if body.local_ty(0).startswith("core::option::Option") else "Err"),))
            args = tuple(o.of_operand(a) for a in c.args)
            return ret_of(("call", c.fn or "?", args, c.bb), o)
        return None
    ws = words_of(body, call_sym, edge_sym, stmt_sym, keep_end=False)
    table = {}
    for w in ws:
        condsets = [()]
        rets = None
        bad = []
        for s_ in w:
            if isinstance(s_, tuple) and len(s_) == 2 and s_[0] == "\x00fcases":
                condsets = [c0 + c1 for c0 in condsets for c1 in s_[1]]
            elif isinstance(s_, tuple) and len(s_) == 2 and s_[0] == "\x00fret":
                rets = s_[1]
            elif isinstance(s_, str) and s_.startswith("?"):
                bad.append(s_)
        if rets is None:
            rets = (((), "?no-return"),)
        for c0 in condsets:
            for c1, o_ in rets:
                cs = c0 + c1
                d = {}
                ok = True
                for k_, v_ in cs:
                    if d.get(k_, v_) != v_:
                        ok = False          # contradictory conditions: infeasible combination
                    d[k_] = v_
                if not ok:
                    continue
                out = o_ if not bad else "?" + ";".join(bad)
                table.setdefault(frozenset(d.items()), set()).add(out)
    return table


def table_lookup(table, **conds):
    """outcomes of all rows compatible with the given atom values"""
    out = set()
    for k, v in table.items():
        d = dict(k)
        if all(d.get(a, b) == b for a, b in conds.items()):
            out |= v
    return out


# ---------------------------------------------------------------------------
# captured variables seen from inside a closure


def upvar_term(prog, body, name, depth=0):
    """The term (in the enclosing body's context) that closure `body` captured under `name`, following nested closures."""
    if depth > 4:
        return ("upvar", name)
    parents = [prog.body(body.parent)] if prog.body(body.parent) is not None else [prog.body(x) for x in (getattr(prog, "inlined_into", {}).get(body.parent) or [])]
    names = [u["name"] for u in body.upvars]
    if name not in names:
        return ("upvar", name)
    idx = names.index(name)
    for P in parents:
        if P is None:
            continue
        for bl in P.blocks:
            for s in bl["s"]:
                if s["k"] == "assign" and s["rv"]["k"] == "agg" and s["rv"].get("ak") in ("closure", "coroutine", "coroutine_closure") and strip_generics(s["rv"].get("body")) == body.path:
                    ops = s["rv"]["ops"]
                    if idx < len(ops):
                        t = strip_identity(Origins(P).of_operand(ops[idx]))
                        return expand_upvars(prog, P, t, depth + 1) if P.kind == "Closure" else t
    return ("upvar", name)


def expand_upvars(prog, body, t, depth=0):
    """Replace every ('upvar', name) leaf of `t` by what the closure captured."""
    if isinstance(t, tuple):
        if len(t) == 2 and t[0] == "upvar":
            return upvar_term(prog, body, t[1], depth)
        return tuple(expand_upvars(prog, body, x, depth) for x in t)
    return t


def closure_field_projection(prog, t):
    """For a closure term whose body just projects fields out of its (only) argument - `|info| info.affinity` - the tuple of
    field names, outermost last; None otherwise."""
    t = strip_identity(t)
    if not (t[0] == "agg" and t[1] == "closure" and t[2] in prog.bodies):
        return None
    kb = prog.bodies[t[2]]
    r = strip_identity(Origins(kb).of_local(0))
    names = []
    for _ in range(6):
        if r[0] == "field":
            names.append(r[2])
            r = strip_identity(r[1])
            continue
        if r[0] in ("deref", "ref", "copy"):
            r = strip_identity(r[1])
            continue
        break
    if r[0] == "param" and names:
        return tuple(reversed(names))
    return None


def mapped_field_names(prog, t):
    """Field names selected by projection closures of `Option::map` / `Result::map` calls inside term `t`."""
    out = set()
    for x in walk(t):
        if x[0] == "call" and name_matches(x[1], ("Option::map", "Result::map")) and len(x[2]) >= 2:
            fp = closure_field_projection(prog, x[2][1])
            if fp:
                out |= set(fp)
    return out


def calls_with_closures(prog, body, spec):
    """Calls to `spec` in `body` and in the (non-coroutine) closures it creates: [(call, receiver/argument term getter)].
    The getter gives argument i's origin term with the closure's captures replaced by what was captured."""
    out = []
    o = Origins(body)
    for c in body.calls_to(spec):
        out.append((c, (lambda i, c=c, o=o: o.of_operand(c.args[i]))))
    for k in prog.children(body):
        if k.coroutine or k.kind != "Closure":
            continue
        ko = Origins(k)
        for c in k.calls_to(spec):
            out.append((c, (lambda i, c=c, ko=ko, k=k: expand_upvars(prog, k, ko.of_operand(c.args[i])))))
    return out


def phi_alternatives(body, o, operand):
    """[(def_block, term)] for the definitions reaching `operand` when its local (followed through single-definition
    copies/moves) is assigned on several branches - e.g. a reply hoisted out of the arms of a match into one variable.
    A single-definition value yields [(None, term)]."""
    pl = op_place(operand)
    if pl is None or not isinstance(pl, int):
        return [(None, o.of_operand(operand))]
    cur = pl
    for _ in range(8):
        ds = [d for d in body.defs().get(cur, []) if d[0] != "partial"]
        if len(ds) == 1 and ds[0][0] == "assign" and ds[0][3]["k"] == "use" and isinstance(op_place(ds[0][3]["op"]), int):
            cur = op_place(ds[0][3]["op"])
            continue
        if len(ds) >= 2 and all(d[0] in ("assign", "call") for d in ds):
            return [(d[1], o._of_def(d, 1, frozenset({cur}))) for d in ds]
        break
    return [(None, o.of_operand(operand))]


def payload_root(t):
    """The value a term was unwrapped from: strips `?` (Try::branch ... as Continue), `.0` payload projections of
    Some/Ok/Continue/Ready, and the value-preserving combinators ok_or / ok_or_else / map_err / as_ref / copied / cloned,
    e.g. both `(Try::branch(ok_or_else(peer_id(req), ..)) as Continue).0` and `(peer_id(req) as Some).0` give `peer_id(req)`."""
    s = strip_identity(t)
    for _ in range(16):
        if s[0] == "field" and s[2] == "0" and s[1][0] == "variant" and s[1][2] in ("Some", "Ok", "Continue", "Ready"):
            s = strip_identity(s[1][1])
            continue
        if s[0] == "call" and name_matches(s[1], ("Try::branch", "Option::ok_or_else", "Option::ok_or", "Result::map_err", "Option::as_ref", "Option::copied", "Option::cloned")) and s[2]:
            s = strip_identity(s[2][0])
            continue
        break
    return s


def source_helper_attrs(repo, adt, helper="serde"):
    """`#[serde(..)]` (derive-helper) attributes written on a type and on its fields. The compiler drops helper attributes
    when it lowers the syntax tree, so they are read from the definition's own source lines (file and line of the
    definition come from the compiler): the attribute lines above the definition and everything up to its closing brace.
    Returns (type-level attributes, {field name: [attributes]}) as normalised token strings."""
    import re
    path = os.path.join(repo, adt["file"])
    try:
        lines = open(path, encoding="utf-8").read().split("\n")
    except OSError:
        raise AnchorLost(f"source of {adt['path']} ({adt['file']})")
    l0 = adt["line"] - 1
    if not (0 <= l0 < len(lines)):
        raise AnchorLost(f"definition line of {adt['path']}")
    # attributes above the definition
    top = []
    i = l0 - 1
    while i >= 0 and (lines[i].strip().startswith(("#[", "///", "//")) or lines[i].strip() == "" or lines[i].strip().endswith((")]", ","))):
        top.insert(0, lines[i])
        if lines[i].strip() == "" and not any(x.strip().startswith("#[") for x in lines[max(0, i - 3):i]):
            break
        i -= 1
    # body up to the matching brace / semicolon
    body, depth, seen = [], 0, False
    for ln in lines[l0:l0 + 400]:
        body.append(ln)
        code = re.sub(r'"(?:[^"\\]|\\.)*"', '""', ln.split("//")[0])
        depth += code.count("{") + code.count("(") - code.count("}") - code.count(")")
        seen = seen or "{" in code or "(" in code
        if (seen and depth <= 0) or (not seen and code.rstrip().endswith(";")):
            break
    pat = re.compile(r"#\s*\[\s*" + re.escape(helper) + r"\s*\((.*?)\)\s*\]", re.S)
    norm = lambda x: re.sub(r"\s+", "", x)
    ty_attrs = [norm(m) for m in pat.findall("\n".join(top))]
    fields = {}
    text = "\n".join(body)
    # attributes may contain commas and span lines: take them out first (blanked in place, so that positions still line up),
    # then attach each to the next field declaration (`name:` at the start of a line, comments removed)
    events = [(m.start(), "attr", norm(m.group(1))) for m in pat.finditer(text)]
    blank = pat.sub(lambda m: " " * (m.end() - m.start()), text)
    blank = re.sub(r"//[^\n]*", lambda m: " " * (m.end() - m.start()), blank)
    for m in re.finditer(r"(?m)^[ \t]*(?:pub(?:\([^)]*\))?[ \t]+)?([A-Za-z_][A-Za-z0-9_]*)[ \t]*:(?!:)", blank):
        events.append((m.start(1), "field", m.group(1)))
    pending = []
    for _, kind_, val_ in sorted(events):
        if kind_ == "attr":
            pending.append(val_)
        else:
            if pending:
                fields.setdefault(val_, []).extend(pending)
            pending = []
    if pending:
        fields.setdefault("?", []).extend(pending)
    return ty_attrs, fields


def check_config_immutable(ob, prog, fields, adt="anemo::config::Config", key="config", repo=None):
    """What the application configured is what the library uses: nothing in the library writes a Config field after the
    value was built (no "normalisation" in the builder, no clamp, no wrap-around cast stored back)."""
    n = 0
    for fld in fields:
        for b, bb, kind, _ in field_accesses(prog, adt, fld, ["anemo"]):
            if b.is_cleanup(bb):
                continue
            n += 1
            if kind in ("write", "mutref"):
                own = owner_path(prog, b)
                derived = "_::" in b.path or "<impl" in b.path or own.startswith(f"<{adt} as")
                ob.require(derived, f"{key}/{fld}/written/{own}", f"{adt.split('::')[-1]}.{fld} is modified in {b.path} ({kind}) - the configured value is replaced behind the application's back", b.path, b.loc(bb))
    ob.floor(n, len(fields), f"accesses of {adt.split('::')[-1]} fields {list(fields)}")
    # ... and what a configuration file says is what the Config holds: the fields are (de)serialised by the derived impls
    # as they are - no `deserialize_with` / `with` / `from` hook and no custom `default = ".."` function that would turn one
    # configured value (or the absence of one) into another
    a = prog.adts.get(adt)
    if a is None:
        raise AnchorLost(f"definition of {adt}")
    ty_at, f_at = source_helper_attrs(repo or "/repo", a)
    def plain(at_):
        parts = [x for x in at_.split(",") if x]          # normalised: no whitespace
        return all(x in ("default", "skip_serializing", "skip_deserializing", "skip") or x.startswith(("skip_serializing_if=", "rename=", "alias=", "rename_all=")) or x == "deny_unknown_fields" for x in parts)
    for at_ in ty_at:
        ob.require(plain(at_), f"{key}/serde/type-attribute/{at_[:40]}", f"{adt.split('::')[-1]} carries #[serde({at_})]: its (de)serialisation is not the plain derived one", adt)
    for fld in fields:
        for at_ in f_at.get(fld, []):
            ob.require(plain(at_), f"{key}/{fld}/serde-hook", f"{adt.split('::')[-1]}.{fld} carries #[serde({at_})]: a configured value can be changed while it is read from / written to a file", adt)
    ob.count(len(fields))


def check_generated_layer_stacking(ob, prog, key="generated/add_layer"):
    """Generated servers: `add_layer_for_<method>(layer)` stacks the new layer on the ones already installed on that method
    (`field = InboundRequestLayer::new(Stack::new(self.field, layer))`) - an installed limiter / authorizer is never silently
    replaced by a later layer.  Checked on the generated code that the build produced from the *current* templates (examples)."""
    bs = [b for b in prog.bodies.values() if b.crate == "examples" and "_server::" in b.path and "::add_layer_for_" in b.path and b.kind != "Closure"]
    ob.floor(bs, 1, "generated add_layer_for_* methods (examples crate)")
    for b in bs:
        o = Origins(b)
        meth = b.path.split("::add_layer_for_")[-1]
        field = f"{meth}_layer"
        writes = [(st, o.of_rvalue(st["rv"])) for bl in b.blocks if not bl.get("cleanup") for st in bl["s"]
                  if st["k"] == "assign" and not isinstance(st["lhs"], int) and st["lhs"]["l"] == 1 and any(isinstance(e, dict) and e.get("n") == field for e in st["lhs"]["p"])]
        ok = len(writes) == 1
        if ok:
            t = strip_identity(writes[0][1])
            ok = t[0] == "call" and t[1].endswith("::new") and len(t[2]) == 1
            if ok:
                stk = strip_identity(t[2][0])
                ok = stk[0] == "call" and name_matches(stk[1], "tower_layer::stack::Stack::new") and len(stk[2]) == 2
                if ok:
                    a0, a1 = strip_identity(stk[2][0]), strip_identity(stk[2][1])
                    ok = a0[0] == "field" and a0[2] == field and is_param(strip_identity(a0[1]), "self") and is_param(a1, "layer")
        ob.require(ok, f"{key}/{meth}", f"{b.path} does not stack the given layer on the method's existing layers (Stack::new(self.{field}, layer))", b.path)
        ob.require(is_param(strip_identity(o.of_local(0)), "self"), f"{key}/{meth}/returns-self", f"{b.path} does not return the server it was called on", b.path)


def check_peer_id_identity_derived(ob, prog, key="PeerId"):
    """Everything keyed by PeerId (peer map, allow-list, per-peer semaphores and limiters) is exact only if equality and
    hashing of PeerId are the byte-wise derived ones: two different keys are two different peers."""
    ims = {i["trait"]: i.get("derived") for i in prog.impls if i["self_ty"] == "anemo::types::peer_id::PeerId" and i["trait"]}
    for tr in ("core::cmp::PartialEq", "core::cmp::Eq", "core::hash::Hash"):
        ob.require(ims.get(tr) is True, f"{key}/derived/{tr.split('::')[-1]}", f"PeerId: impl {tr} derived={ims.get(tr)} - a hand-written {tr.split('::')[-1]} can make distinct identities collide", "anemo::types::peer_id::PeerId")
    a = prog.adts.get("anemo::types::peer_id::PeerId")
    ok = a is not None and len(a["variants"]) == 1 and len(a["variants"][0]["fields"]) == 1 and a["variants"][0]["fields"][0]["ty"].startswith("[u8; ")
    ob.require(ok, f"{key}/shape", "PeerId is no longer a [u8; 32] newtype", "anemo::types::peer_id::PeerId")


def check_drop_impls_closed(ob, prog, allowed, crates=("anemo", "anemo_tower"), key="drop-impls"):
    """Closed world of destructors: only the listed library types run code when dropped (a new `impl Drop` on a handle,
    a connection or a guard could close, cancel or release behind the application's back)."""
    have = sorted(str(i["self_ty"]) for i in prog.impls if i["trait"] == "core::ops::drop::Drop" and str(i["self_ty"]).split("::")[0] in crates)
    ob.count(len(have))
    for t in have:
        ob.require(any(t == a or t.startswith(a + "<") for a in allowed), f"{key}/{t}", f"`impl Drop for {t}` is not one of the destructors the rules account for ({sorted(allowed)})", t)
    ob.floor(have, len(allowed), "Drop impls of the library")


def check_derived(ob, prog, ty, trait, key=None):
    ims = [i for i in prog.impls if i["self_ty"] == ty and i["trait"] == trait]
    ob.require(len(ims) == 1 and ims[0].get("derived") is True, f"{key or ty.split('::')[-1]}/derived/{trait.split('::')[-1]}",
               f"{ty}: impl {trait} derived={[i.get('derived') for i in ims]} (a hand-written one can substitute other values)", ty)


def check_builder_setters(ob, prog, ty, setters, key="builder"):
    """`Builder::x(mut self, v) -> Self` stores exactly what it was given in its own field and touches no other field."""
    for name, (field, param) in setters.items():
        b = prog.body(f"{ty}::{name}")
        if b is None:
            raise AnchorLost(f"body {ty}::{name}")
        o = Origins(b)
        writes = []
        for bl in b.blocks:
            if bl.get("cleanup"):
                continue
            for st in bl["s"]:
                if st["k"] == "assign" and not isinstance(st["lhs"], int) and st["lhs"]["l"] == 1:
                    fs = [e.get("n") for e in st["lhs"]["p"] if isinstance(e, dict) and "n" in e]
                    if fs:
                        writes.append((fs[0], o.of_rvalue(st["rv"])))
        if not writes:
            # struct-update form: `Self { x: Some(v.into()), ..self }` - a new value whose other fields are the old ones
            r0 = strip_identity(o.of_local(0))
            if r0[0] == "agg" and len(r0) > 4 and len(r0[3]) == len(r0[4]) and field in r0[4]:
                for op_, fname in zip(r0[3], r0[4]):
                    if fname == field:
                        writes.append((field, op_))
                    else:
                        u_ = strip_identity(op_)
                        if not (u_[0] == "field" and u_[2] == fname and is_param(strip_identity(u_[1]), "self")):
                            writes.append((fname, op_))
        okw = [w for w in writes if w[0] == field]
        other = [w[0] for w in writes if w[0] != field]
        v = strip_identity(okw[0][1]) if len(okw) == 1 else ("?",)
        def as_given(u, depth=0):
            # the parameter itself, possibly converted by the std conversion traits and wrapped in Some / mapped over an Option -
            # nothing of the library's own making in between (a helper that "normalises" the value is inlined and shows here)
            u = strip_identity(u)
            if u[0] == "param":
                return u[2] == param
            if depth > 4:
                return False
            if u[0] == "agg" and str(u[2]).endswith("Option::Some") and len(u[3]) == 1:
                return as_given(u[3][0], depth + 1)
            if u[0] == "field" and u[2] == "0" and u[1][0] == "variant" and u[1][2] == "Some":
                return as_given(u[1][1], depth + 1)          # the payload of an Option parameter (`Some(n) => Some(n.into())`)
            if u[0] == "phi":
                alts_ = [strip_identity(a_) for a_ in u[1]]
                none_ = [a_ for a_ in alts_ if a_[0] == "agg" and str(a_[2]).endswith("Option::None")]
                rest_ = [a_ for a_ in alts_ if a_ not in none_]
                return bool(rest_) and all(as_given(a_, depth + 1) for a_ in rest_)
            if u[0] == "call" and name_matches(u[1], ("convert::Into::into", "convert::From::from", "borrow::ToOwned::to_owned", "string::ToString::to_string", "clone::Clone::clone",
                                                      "BoxLayer::new")) and len(u[2]) == 1:          # (tower's type-erasing box of a layer: the layer itself)
                return as_given(u[2][0], depth + 1)
            if u[0] == "call" and name_matches(u[1], "Option::map") and len(u[2]) == 2:
                f_ = show(u[2][1])
                return as_given(u[2][0], depth + 1) and any(k_ in f_ for k_ in ("Into::into", "From::from", "ToOwned::to_owned", "ToString::to_string")) and "anemo" not in f_
            return False
        oks = as_given(v)
        ob.require(len(okw) == 1 and oks and not other, f"{key}/{name}", f"{ty.split('::')[-1]}::{name} stores {show(v)[:80]} in `{field}`" + (f" and also writes {other}" if other else ""), b.path)
        r0_ = strip_identity(o.of_local(0))
        ob.require(is_param(r0_, "self") or (r0_[0] == "agg" and str(r0_[2]).startswith(ty) and len(okw) == 1 and not other), f"{key}/{name}/returns-self",
                   f"{ty.split('::')[-1]}::{name} does not return the builder it was called on", b.path)


def _impl_body(prog, ty, trait_frag, method):
    c = [b for p_, b in prog.bodies.items() if (p_.startswith(f"<{ty}<") or p_.startswith(f"<{ty} as ")) and f" as {trait_frag}" in p_ and p_.endswith(f">::{method}")]
    return c[0] if len(c) == 1 else None


def check_fieldwise_clone(ob, prog, ty, key=None):
    """`impl Clone for <ty>` copies the value field by field (what `#[derive(Clone)]` generates): every field of the clone is
    the clone of the *same* field of the original - shared state (Arc'd maps, limiters, semaphores) stays shared, nothing is
    reset or re-created on clone."""
    key = key or ("clone/" + ty.split("::")[-1])
    b = _impl_body(prog, ty, "core::clone::Clone", "clone")
    if b is None:
        raise AnchorLost(f"impl Clone for {ty}")
    t = strip_identity(Origins(b).of_local(0))
    if is_param(t, "self"):
        ob.count(1)
        ob.matched += 1
        return
    ok = t[0] == "agg" and len(t) > 4 and len(t[3]) == len(t[4]) and bool(t[3])
    if ok:
        def peel(u):
            # only what a derived impl does: take a reference, copy, or call Clone::clone on the field itself - not `Deref::deref`
            # (clone of what an Arc points to = a deep copy) and not a re-wrapping constructor (`Arc::new(..)` = a fresh cell)
            while True:
                if u[0] in ("ref", "deref"):
                    u = u[1]
                elif u[0] == "call" and name_matches(u[1], "clone::Clone::clone") and len(u[2]) == 1:
                    u = u[2][0]
                else:
                    return u
        for op_, fname in zip(t[3], t[4]):
            u = peel(op_)
            ok = ok and u[0] == "field" and u[2] == fname and is_param(strip_identity(u[1]), "self")
    ob.require(ok, f"{key}/fieldwise", f"<{ty} as Clone>::clone builds {show(t)[:140]} - not a field-by-field copy", b.path)


def check_poll_ready_delegates(ob, prog, ty, key=None):
    """`poll_ready` of a middleware is the inner service's readiness and nothing else (no permit taken, no state touched)."""
    key = key or ("poll_ready/" + ty.split("::")[-1])
    b = _impl_body(prog, ty, "tower_service::Service", "poll_ready")
    if b is None:
        raise AnchorLost(f"impl Service::poll_ready for {ty}")
    t = strip_identity(Origins(b).of_local(0))
    if t[0] == "call" and name_matches(t[1], "Poll::map_err") and t[2]:
        t = strip_identity(t[2][0])
    ok = t[0] == "call" and name_matches(t[1], "tower_service::Service::poll_ready") and mentions_field(t[2][0], "inner") and mentions_param(t[2][0], "self") and is_param(t[2][1], "cx")
    others = [c.fn for c in b.calls() if not b.is_cleanup(c.bb) and not name_matches(c.fn or "", ("Service::poll_ready", "Poll::map_err", "convert::Into::into")) and not is_tracing(c)]
    ob.require(ok and not others, f"{key}/delegates", f"poll_ready of {ty.split('::')[-1]} is {show(t)[:100]}" + (f" and also calls {[x.split('::')[-1] for x in others][:3]}" if others else ""), b.path)


def check_api_forwarder(ob, prog, name, key=None):
    """`Network::<name>(&self, a, b, ..)` is a plain forwarder: it answers with `NetworkInner::<name>(&self.0, a, b, ..)` -
    same arguments in the same order, called once, nothing else decided on the way (no fast path, no post-processing)."""
    outer = prog.body(f"anemo::network::Network::{name}")
    if outer is None:
        raise AnchorLost(f"body anemo::network::Network::{name} not found")
    kids = [k for k in prog.children(outer) if k.coroutine]
    b = kids[0] if kids else outer
    o = Origins(b)
    key = key or f"api/{name}"
    cs = [c for c in b.calls() if not b.is_cleanup(c.bb) and name_matches(c.fn, f"anemo::network::NetworkInner::{name}")]
    ob.require(len(cs) == 1 and cs[0].bb not in b.cyclic_blocks(), f"{key}/forwards-once", f"Network::{name} does not call NetworkInner::{name} exactly once", b.path)
    if len(cs) != 1:
        return
    c = cs[0]
    pnames = [outer.locals[i].get("name") for i in range(2, outer.argc + 1)]
    okargs = len(c.args) == len(pnames) + 1 and mentions_field(o.of_operand(c.args[0]), "0") and (mentions_param(o.of_operand(c.args[0]), "self") or mentions_upvar(o.of_operand(c.args[0]), "self"))
    for a_, pn_ in zip(c.args[1:], pnames):
        t_ = strip_identity(o.of_operand(a_))
        while t_[0] == "call" and name_matches(t_[1], ("convert::Into::into", "convert::From::from")) and t_[2]:
            t_ = strip_identity(t_[2][0])
        okargs = okargs and is_param_or_upvar(t_, pn_)
    ob.require(okargs, f"{key}/same-arguments", f"Network::{name} calls NetworkInner::{name}({', '.join(show(o.of_operand(a))[:30] for a in c.args)})", b.path, b.loc(c.bb))
    ret = strip_identity(o.of_local(0))
    direct = ret[0] == "call" and ret[3] == c.bb if ret[0] == "call" else False
    awaited = term_has_call(ret, "Future::poll") and any(x[0] == "call" and name_matches(x[1], f"anemo::network::NetworkInner::{name}") and x[3] == c.bb for x in walk(ret)) \
        and not any(x[0] in ("phi",) for x in walk(ret)) and ret[0] == "field"
    ob.require(direct or awaited, f"{key}/answers-with-it", f"Network::{name} returns {show(ret)[:100]}", b.path)
    other = [x for x in b.calls() if not b.is_cleanup(x.bb) and x is not c and not is_tracing(x) and (x.local or name_matches(x.fn or "", ("Option::", "Result::", "Weak::upgrade")))
             and not name_matches(x.fn or "", ("Try::branch", "FromResidual::from_residual", "Future::poll", "IntoFuture::into_future"))]
    ob.require(not other, f"{key}/nothing-else", f"Network::{name} also calls {[x.fn.split('::')[-1] for x in other][:4]}", b.path)


def is_param_or_upvar(t, name):
    """the value of parameter `name` - seen from the function itself or from its async body (where it is a capture)"""
    s = strip_identity(t)
    return (s[0] == "param" and s[2] == name) or s == ("upvar", name)


def static_bounds_ok(site, b):
    """A `BoundsCheck { len: const N, index: <local> }` assert whose index is a compile-time constant < N can never fail
    (e.g. `buf[7] = x` on a `[u8; 8]`): it needs no entry in a panic inventory."""
    t = b.blocks[site["bb"]]["t"]
    if site.get("what") == "assert:Overflow":
        # arithmetic on two compile-time constants whose exact result is a small non-negative number cannot overflow any
        # integer type (`OFFSET + 1` on named constants is lowered to a checked add at mir-opt-level 0)
        c = t.get("cond")
        ct = strip_identity(Origins(b).of_operand(c)) if c else ("unknown",)
        if ct[0] == "field" and ct[2] == "1" and ct[1][0] == "binop" and ct[1][1] in ("AddWithOverflow", "SubWithOverflow", "MulWithOverflow"):
            v = int_of(("field", ct[1], "0"))
            return v is not None and 0 <= v <= 127
        return False
    if site.get("what") != "assert:BoundsCheck":
        return False
    m = __import__("re").match(r"BoundsCheck \{ len: const (\d+)_usize, index: (?:copy|move) _(\d+) \}", t.get("msg") or "")
    if not m:
        return False
    ln, loc = int(m.group(1)), int(m.group(2))
    v = int_of(Origins(b).of_local(loc))
    return v is not None and 0 <= v < ln


def join_error_test(subj, labels):
    """A test of a tokio JoinError: ("is_panic" | "is_cancelled", truth) for `e.is_panic()` / `e.is_cancelled()` edges and
    for `match e.try_into_panic() { Ok(payload) => .., Err(e) => .. }` (Ok = it was a panic); else None."""
    s = strip_identity(subj)
    if s[0] == "call" and name_matches(s[1], ("JoinError::is_cancelled", "JoinError::is_panic")) and labels in ({"true"}, {"false"}):
        return (s[1].split("::")[-1], labels == {"true"})
    if subj[0] == "discr":
        r = strip_identity(subj[1])
        if r[0] == "call" and name_matches(r[1], "JoinError::try_into_panic") and labels in ({"Ok"}, {"Err"}):
            return ("is_panic", labels == {"Ok"})
    return None


def join_error_edges(b, o=None):
    """[(target block, name, truth)] of every JoinError test edge in body `b`"""
    o = o or Origins(b)
    out = []
    for i, bl in enumerate(b.blocks):
        if bl.get("cleanup") or bl["t"]["k"] != "switch":
            continue
        si = switch_info(b, i, o)
        if si is None:
            continue
        for tgt, ls in si[1].items():
            jt = join_error_test(si[0], ls)
            if jt is not None:
                out.append((tgt, jt[0], jt[1]))
    return out


def is_unit_variant(t, suffix):
    """term denotes the fieldless enum value `suffix` (e.g. "DisconnectReason::Requested"): written in place, or through
    a named / associated constant whose evaluated value is that variant"""
    s = strip_identity(t)
    if s[0] == "agg":
        return str(s[2]).endswith(suffix)
    if s[0] == "named":
        return str(s[1]).endswith(suffix) or (len(s) > 2 and s[2] is not None and str(s[2]).endswith(suffix))
    return False


def origin_eq_test(subj, labels):
    """`conn.origin() == ConnectionOrigin::Inbound` (or `!=`, either constant, negated): which origin the edge admits -
    "Inbound" / "Outbound" (the type has exactly these two values), else None."""
    n = normalize_cmp(subj)
    if n is None or labels not in ({"true"}, {"false"}):
        return None
    neg, op, x, y = n
    if op not in ("eq", "ne"):
        return None
    x, y = strip_identity(x), strip_identity(y)
    if y[0] == "call":
        x, y = y, x
    if not (x[0] == "call" and name_matches(x[1], "anemo::connection::Connection::origin") and y[0] == "named"):
        return None
    which = y[1].split("::")[-1]
    if which not in ("Inbound", "Outbound") or "ConnectionOrigin" not in y[1]:
        return None
    holds = ((labels == {"true"}) != neg) == (op == "eq")
    return which if holds else ("Outbound" if which == "Inbound" else "Inbound")


def deep_payload(t):
    """See through a value that was wrapped and unwrapped again on the way: `Ok(x)?`, `Poll::Ready(x)` matched as Ready,
    a helper's `phi(Ok{x} | Err{..})` followed by `?` - returns x. A term that is not such a round trip is returned
    unchanged (after strip_identity)."""
    s = strip_identity(t)
    for _ in range(12):
        if not (s[0] == "field" and s[2] == "0" and s[1][0] == "variant"):
            break
        v = s[1][2]
        inner = strip_identity(s[1][1])
        want = {"Continue": ("Ok", "Some")}.get(v, (v,))
        if inner[0] == "call" and name_matches(inner[1], "Try::branch") and inner[2]:
            inner = deep_payload(inner[2][0])
            want = ("Ok", "Some")
        alts = [strip_identity(a) for a in inner[1]] if inner[0] == "phi" else [inner]
        alts = [a for a in alts if isinstance(a, tuple)]
        hit = [a for a in alts if a[0] == "agg" and any(str(a[2]).endswith("::" + w) for w in want) and len(a[3]) == 1]
        rest = [a for a in alts if a not in hit]
        if len(hit) == 1 and all(a[0] == "agg" and a[1] == hit[0][1] and str(a[2]).rsplit("::", 1)[0] == str(hit[0][2]).rsplit("::", 1)[0] for a in rest):
            # (the other alternatives are other variants of the same enum: Err / None / Pending, or a tag enum's other case)
            s = strip_identity(hit[0][3][0])
            continue
        break
    return s


def sets_status_to_self(prog, body):
    """`impl IntoResponse for StatusCode`: the returned response's status is `self` - written through `status_mut()` or built
    with `with_status(self)` on a fresh response."""
    o = Origins(body)
    wr = [s for bl in body.blocks if not bl.get("cleanup") for s in bl["s"] if s["k"] == "assign" and isinstance(s["lhs"], dict) and "*" in s["lhs"]["p"]]
    if len(wr) == 1 and term_has_call(o.of_local(wr[0]["lhs"]["l"]), "Response::status_mut") and is_param(strip_identity(o.of_rvalue(wr[0]["rv"])), "self"):
        return True
    r = strip_identity(o.of_local(0))
    if r[0] == "call" and name_matches(r[1], "anemo::types::response::Response::with_status") and is_param(strip_identity(r[2][1]), "self"):
        base = strip_identity(r[2][0])
        return base[0] == "call" and name_matches(base[1], ("IntoResponse::into_response", "Response::new", "Response::empty"))
    return False


def check_optional_ms_getter(ob, prog, getter, field, key=None):
    """`fn x(&self) -> Option<Duration>` over `self.<field>: Option<u64>` (milliseconds): None iff the field is None, and the
    Some value is Duration::from_millis(the field's payload) - as `.map(Duration::from_millis)`, a match, `?`, if-let..."""
    b = prog.body(getter)
    if b is None:
        raise AnchorLost(f"body {getter} not found")
    key = key or getter.split("::")[-1]

    def atom(t_):
        s_ = strip_identity(t_)
        return "field" if s_[0] == "field" and s_[2] == field and is_param(strip_identity(s_[1]), "self") else None
    tab = function_cases(prog, b, atom)
    ok = table_lookup(tab, field="None") == {"None"} and table_lookup(tab, field="Some") == {"Some"}
    ob.require(ok, f"{key}/option-preserved", f"{getter}: cases {sorted((sorted(k), sorted(v)) for k, v in tab.items())} (must be None ↦ None, Some ↦ Some)", b.path)
    check_ms_getter(ob, prog, getter, field, key=key)
    # the millisecond count handed to from_millis is the field's own payload
    o = Origins(b)
    fm = [c for c in b.calls() if name_matches(c.fn, "core::time::Duration::from_millis") and not b.is_cleanup(c.bb)]
    for c in fm:
        r = payload_root(o.of_operand(c.args[0]))
        ob.require(r[0] == "field" and r[2] == field, f"{key}/payload", f"{getter}: from_millis({show(o.of_operand(c.args[0]))[:60]})", b.path, b.loc(c.bb))
    if not fm:
        ret = o.of_local(0)
        ob.require(any(x == ("fnptr", "core::time::Duration::from_millis") for x in walk(ret)) and term_has_call(ret, "Option::map"), f"{key}/payload",
                   f"{getter} returns {show(ret)[:80]}", b.path)


# ---------------------------------------------------------------------------
# closed integer -> enum conversion tables (`fn new(code: u16) -> Result<Enum>`), however they are written


def int_enum_table(prog, body, enum_path, discr):
    """Evaluate a conversion `fn(code) -> Result<Enum, _>` as a table: for every discriminant, every other constant the
    function compares with, and one fresh value, which variants / Err can be returned. The function may be a `match` on the
    integer, `match` with guards, an `if code == K` chain, `if code != K { return Err }`, with literals, named constants,
    `Variant as u16` casts or `Variant.to_u16()` calls. Returns {code: set(outcomes)}, outcome = variant name | 'Err' | '?..'."""
    consts = set()

    def const_val(t):
        v = int_of(t)
        if v is not None:
            return v
        s = strip_identity(t)
        if s[0] == "call" and s[2] and len(s[2]) == 1:
            a = strip_identity(s[2][0])
            if a[0] == "agg" and str(a[2]).startswith(enum_path + "::") and a[2].split("::")[-1] in discr and s[1].split("::")[-1] in ("to_u16", "to_u8", "to_u32", "into", "from"):
                return discr[a[2].split("::")[-1]]
        if s[0] == "discr":
            a = strip_identity(s[1])
            if a[0] == "agg" and a[2].split("::")[-1] in discr:
                return discr[a[2].split("::")[-1]]
        return None

    def edge_sym(a, b, subj, labels, o):
        if is_param(strip_identity(subj)):
            arms = [v for v, _ in body.blocks[a]["t"]["arms"]]
            consts.update(arms)
            if labels and labels != {"other"}:
                return ("t", "in", tuple(sorted(int(x) for x in labels if x != "other")))
            return ("t", "notin", tuple(sorted(arms)))
        n = normalize_cmp(subj)
        if n is not None and labels in ({"true"}, {"false"}):
            neg, op, x, y = n
            px, py = is_param(strip_identity(x)), is_param(strip_identity(y))
            k = const_val(y) if px else const_val(x) if py else None
            if (px or py) and k is not None and op in ("eq", "ne", "lt", "le", "gt", "ge"):
                if py:
                    op = {"lt": "gt", "le": "ge", "gt": "lt", "ge": "le"}.get(op, op)
                consts.add(k)
                return ("t", op, k, (labels == {"true"}) != neg)
        if in_ignored_expansion(body, a):
            return []
        return "?cond(" + show(subj)[:40] + ")"

    def stmt_sym(bb, s, o):
        if s["lhs"] == 0 and s["rv"]["k"] == "agg":
            t = o.of_rvalue(s["rv"])
            if str(t[2]).endswith("Result::Err"):
                return "ret=Err"
            if str(t[2]).endswith("Result::Ok"):
                v = strip_identity(t[3][0])
                if v[0] == "agg" and str(v[2]).startswith(enum_path + "::"):
                    return "ret=" + v[2].split("::")[-1]
                return "ret=?" + show(v)[:30]
        return None

    def call_sym(c, o):
        if c.dest == 0 and name_matches(c.fn, "FromResidual::from_residual"):
            return "ret=Err"
        return None
    ws = words_of(body, call_sym, edge_sym, stmt_sym, keep_end=False)
    codes = set(discr.values()) | consts
    fresh = max(codes | {0}) + 1000003
    codes.add(fresh)

    def holds(t, code):
        if t[1] == "in":
            return code in t[2]
        if t[1] == "notin":
            return code not in t[2]
        val = {"eq": code == t[2], "ne": code != t[2], "lt": code < t[2], "le": code <= t[2], "gt": code > t[2], "ge": code >= t[2]}[t[1]]
        return val == t[3]
    table = {}
    for code in codes:
        outs = set()
        for w in ws:
            tests = [x for x in w if isinstance(x, tuple) and x and x[0] == "t"]
            if not all(holds(t, code) for t in tests):
                continue
            rets = [x for x in w if isinstance(x, str) and x.startswith("ret=")]
            odd = [x for x in w if isinstance(x, str) and x.startswith("?")]
            outs.add("?" + ";".join(odd) if odd else (rets[-1][4:] if rets else "?no-return"))
        table[code] = outs
    return table, fresh
