"""Obligation bookkeeping, verdicts, evidence and the command-line entry point."""
import importlib
import json
import os
import re
import sys
import time
import traceback

from . import facts
from .mir import Program

VERIF = facts.VERIF


class _Stop(Exception):
    pass


class AnchorLost(Exception):
    """A selector no longer resolves / a counted floor is not met (fail closed)."""


class Undecidable(Exception):
    """The rule cannot recognise the shape it needs (fail closed)."""


class Violation:
    def __init__(self, prop, ob, kind, key, msg, construct=None, where=None, path=None):
        self.prop = prop
        self.ob = ob
        self.kind = kind
        self.key = key
        self.msg = msg
        self.construct = construct
        self.where = where
        self.path = path

    def to_json(self):
        return {"property": self.prop, "obligation": self.ob, "kind": self.kind, "key": self.key,
                "message": self.msg, "construct": self.construct, "where": self.where, "path": self.path}


class Ob:
    """One obligation (rule instance). Use as a context manager."""

    def __init__(self, cx, oid, rule, desc):
        self.cx = cx
        self.oid = oid
        self.rule = rule
        self.desc = desc
        self.violations = []
        self.evals = 0
        self.matched = 0
        self.notes = []
        self.sample = None

    def __enter__(self):
        return self

    def __exit__(self, et, ev, tb):
        if et is None:
            self.cx._close(self)
            return False
        if et is _Stop:
            self.cx._close(self)
            return True
        if et is AnchorLost:
            self.fail("anchor-lost", "anchor-lost/" + _slug(str(ev)), f"anchor lost: {ev}")
            self.cx._close(self)
            return True
        if et is Undecidable:
            self.fail("undecidable-shape", "undecidable/" + _slug(str(ev)), f"cannot decide: {ev}")
            self.cx._close(self)
            return True
        if issubclass(et, (KeyError, IndexError, TypeError, AttributeError, ValueError, AssertionError, NameError, StopIteration, RuntimeError)):
            # the checker met a shape it does not understand: fail closed, but say it is the checker
            tbs = "".join(traceback.format_exception(et, ev, tb))[-1500:]
            self.fail("undecidable-shape", "checker-error/" + _slug(self.oid), f"checker error (fail closed): {ev!r}\n{tbs}")
            self.cx._close(self)
            return True
        return False

    # -- recording ---------------------------------------------------------------
    def count(self, n=1):
        """n rule-instance evaluations (sites / paths / table rows inspected)."""
        self.evals += n

    def match(self, n=1):
        self.matched += n
        self.evals += n

    def note(self, s):
        self.notes.append(s)

    def fail(self, kind, key, msg, construct=None, where=None, path=None):
        full = f"{self.cx.prop}/{self.rule}/{key}"
        self.violations.append(Violation(self.cx.prop, self.oid, kind, full, msg, construct, where, path))

    def require(self, cond, key, msg, construct=None, where=None, path=None):
        self.evals += 1
        if cond:
            self.matched += 1
        else:
            self.fail("refuted", key, msg, construct, where, path)
        return bool(cond)

    def refute_and_stop(self, key, msg, construct=None, where=None):
        """Record a refutation whose absence the rest of this obligation depends on, and end the obligation."""
        self.fail("refuted", key, msg, construct, where)
        raise _Stop()

    def floor(self, items, n, what, exact=False):
        """At least (or exactly) n matched sites, counted by hand on the pinned tree."""
        k = len(items) if hasattr(items, "__len__") else int(items)
        self.evals += 1
        if (k != n) if exact else (k < n):
            rel = "==" if exact else ">="
            raise AnchorLost(f"{what}: found {k}, need {rel} {n}")
        self.matched += 1
        return items

    def set_sample(self, s):
        if self.sample is None:
            self.sample = s


def _slug(s):
    return re.sub(r"[^A-Za-z0-9_.:<>#-]+", "_", s)[:160]


class Cx:
    def __init__(self, prop, prog, tier="quick", config="dev", tree=None, repo=None):
        self.repo = repo or facts.REPO
        self.prop = prop
        self.prog = prog
        self.tier = tier
        self.config = config
        self.tree = tree
        self.obs = []

    def ob(self, oid, rule, desc):
        return Ob(self, oid, rule, desc)

    def _close(self, ob):
        self.obs.append(ob)

    # -- anchors -----------------------------------------------------------------
    def body(self, path):
        b = self.prog.body(path)
        if b is None:
            raise AnchorLost(f"body {path} not found")
        return b

    def coroutine(self, fn_path):
        self.body(fn_path)
        c = self.prog.coroutine_of(fn_path)
        if c is None:
            raise AnchorLost(f"coroutine of async fn {fn_path} not found")
        return c

    def impl_method(self, type_name, trait_name, method):
        bs = self.prog.impl_methods(type_name, trait_name, method)
        if len(bs) != 1:
            raise AnchorLost(f"impl method <{type_name} as {trait_name}>::{method}: found {len(bs)}")
        return bs[0]

    def adt(self, path):
        a = self.prog.adts.get(path)
        if a is None:
            raise AnchorLost(f"type {path} not found")
        return a


def load_known():
    p = os.path.join(VERIF, "known_findings.json")
    if not os.path.isfile(p):
        return []
    with open(p) as fh:
        return json.load(fh).get("findings", [])


PROPS = ["C%02d" % i for i in range(1, 21)]


def run_property(prop, tier="quick", configs=None, repo=None, quiet=False, target=None):
    """Evaluate all rules of `prop` on the current tree. Returns (violations, known_hits, evidence dict)."""
    t0 = time.time()
    mod = importlib.import_module(f"rules.{prop.lower()}")
    configs = configs or (["dev"] if tier == "quick" else ["dev", "nodebug"])
    all_obs = []
    extraction = {}
    tree = None
    for cfg in configs:
        d, tree, wall = facts.facts_dir(cfg, repo=repo, target=target)
        try:
            crates = facts.load_dir(d)
        except FileNotFoundError:
            # the cached set vanished under us (concurrent prune): extract again, once
            import shutil
            shutil.rmtree(d, ignore_errors=True)
            d, tree, wall = facts.facts_dir(cfg, repo=repo, target=target)
            crates = facts.load_dir(d)
        prog = Program(crates)
        from .normalize import normalize
        norm = normalize(prog)          # identity on the pinned tree; inlines functions the pinned tree does not have
        cx = Cx(prop, prog, tier, cfg, tree, repo=repo)
        from . import lib as _lib
        _lib.set_program(prog)
        try:
            mod.run(cx)
        except Exception as e:            # an error between obligations (e.g. a value an earlier, failed obligation was to bind)
            import traceback
            with cx.ob(f"{prop}.run", "R-SHAPE", "rule module ran to completion") as ob_:
                ob_.fail("undecidable-shape", "checker-error/run", f"checker error outside an obligation (fail closed): {e!r}\n{traceback.format_exc()[-600:]}", prop)
        extraction[cfg] = {
            "normalisation": {"new_functions_inlined": norm["new_functions"], "sites": norm["inlined_sites"], "left_as_calls": [list(x) for x in norm["not_inlined"]][:20],
                              "renames_undone": norm.get("renamed", [])},
            "facts_dir": os.path.relpath(d, VERIF) if d.startswith(VERIF) else d, "extract_wall_s": round(wall, 1),
            "crates": {k: v["n_bodies"] for k, v in crates.items()},
            "rustc": next(iter(crates.values()))["rustc"],
        }
        for o in cx.obs:
            all_obs.append((cfg, o))
    known = [k for k in load_known() if k["property"] == prop]
    known_keys = {k["key"]: k for k in known if k.get("status") == "known"}
    violations = []
    known_hits = []
    seen_keys = set()
    for cfg, o in all_obs:
        for v in o.violations:
            if v.key in seen_keys:
                continue
            seen_keys.add(v.key)
            if v.key in known_keys:
                known_hits.append((known_keys[v.key], v))
            else:
                violations.append(v)
    wall = time.time() - t0
    ev = build_evidence(prop, mod, tier, all_obs, violations, known_hits, extraction, tree, wall)
    return violations, known_hits, ev, all_obs


def build_evidence(prop, mod, tier, all_obs, violations, known_hits, extraction, tree, wall):
    obs_json = []
    nontrivial = set()
    evals = 0
    discharged = 0
    samples = []
    for cfg, o in all_obs:
        st = "violated" if o.violations else "discharged"
        if o.violations and all(any(v is kv for _, kv in known_hits) for v in o.violations):
            st = "known-finding"
        if st == "discharged":
            discharged += 1
        evals += o.evals
        if o.matched > 0:
            nontrivial.add(o.oid)
        obs_json.append({"id": o.oid, "config": cfg, "rule": o.rule, "desc": o.desc, "status": st,
                         "evaluations": o.evals, "matched": o.matched, "notes": o.notes[:6]})
        if o.sample is not None and len(samples) < 8 and cfg == "dev":
            samples.append({"obligation": o.oid, "rule": o.rule, "case": o.sample})
    if not samples:
        samples = [{"obligation": o.oid, "rule": o.rule, "desc": o.desc} for _, o in all_obs[:3]]
    seed = int(os.environ.get("VERIF_SEED", "0") or 0)
    return {
        "property_id": prop,
        "tier": tier,
        "seed": seed,
        "level": "other",
        "coverage": {
            "explanation": getattr(mod, "EXPLANATION", "").strip(),
            "rule": "one evaluation = one rule instance applied to one construct (call site, CFG path, table row, "
                    "type shape) of the type-checked program; an obligation is non-trivial when it matched at "
                    "least one real construct in /repo (a selector matching nothing is an anchor-lost violation)",
            "evaluations": evals,
            "distinct_nontrivial": len(nontrivial),
            "obligations": len(all_obs),
            "discharged": discharged,
            "exhaustive": True,
            "samples": samples,
            "obligation_list": obs_json,
            "checker_cmd": f"./check {prop} --tier {tier}",
            "trusted_base": getattr(mod, "TRUSTED", []) + [
                "rustc type checker and MIR construction (mir_built)", "the mirfacts extractor (driver/)",
                "the rule engine (rules/)"],
            "tree_hash": tree,
            "extraction": extraction,
            "known_findings_printed": [k["key"] for k, _ in known_hits],
            "not_decided": getattr(mod, "NOT_DECIDED", []),
        },
        "assumptions": getattr(mod, "ASSUMPTIONS", []),
        "wall_s": round(wall, 2),
        "violations": len(violations),
    }


def main(argv=None):
    argv = argv or sys.argv[1:]
    if not argv:
        print("usage: check <Cxx> [--tier quick|thorough] [--replay file]")
        return 2
    prop = argv[0]
    tier = os.environ.get("VERIF_TIER") or "quick"
    replay = None
    i = 1
    while i < len(argv):
        if argv[i] == "--tier":
            tier = argv[i + 1]
            i += 2
        elif argv[i] == "--replay":
            replay = argv[i + 1]
            i += 2
        else:
            i += 1
    if tier not in ("quick", "thorough"):
        tier = "quick"
    try:
        violations, known_hits, ev, all_obs = run_property(prop, tier)
    except facts.ExtractionError as e:
        print(f"extraction failed (fail closed): {e}")
        os.makedirs(os.path.join(VERIF, "violations"), exist_ok=True)
        rp = os.path.join("violations", f"{prop}-extraction-failed.json")
        with open(os.path.join(VERIF, rp), "w") as fh:
            json.dump({"property": prop, "kind": "extraction-failed", "message": str(e)[-4000:]}, fh, indent=1)
        print(f"VIOLATION property={prop} replay={rp}")
        return 1

    selftest = None
    if tier == "thorough" and replay is None:
        from . import selftest as st
        selftest = st.run_for(prop)
        ev["coverage"]["selftest"] = selftest["summary"]
        ev["coverage"]["evaluations"] += selftest["summary"].get("evaluations", 0)

    known_vs = {id(v) for _, v in known_hits}
    for cfg, o in all_obs:
        st_ = "ok"
        if o.violations:
            st_ = "knwn" if all(id(v) in known_vs or any(v.key == kv.key for _, kv in known_hits) for v in o.violations) else "FAIL"
        print(f"[{st_:4}] {cfg:7} {o.oid:10} {o.rule:10} {o.desc}  (evals={o.evals}, matched={o.matched})")
    for k, v in known_hits:
        print(f"KNOWN-FINDING: property={prop} {k['what']} [key={k['key']}]")

    os.makedirs(os.path.join(VERIF, "evidence"), exist_ok=True)
    with open(os.path.join(VERIF, "evidence", f"{prop}.json"), "w") as fh:
        json.dump(ev, fh, indent=1)

    rc = 0
    if replay:
        with open(os.path.join(VERIF, replay) if not os.path.isabs(replay) else replay) as fh:
            want = json.load(fh).get("key")
        hit = [v for v in violations if v.key == want]
        if hit:
            print(f"replay: violation {want} still present: {hit[0].msg}")
            print(f"VIOLATION property={prop} replay={replay}")
            return 1
        print(f"replay: violation {want} not present on the current tree")
        return 0
    if violations:
        os.makedirs(os.path.join(VERIF, "violations"), exist_ok=True)
        for v in violations:
            rp = os.path.join("violations", f"{prop}-{_slug(v.key.split('/', 1)[1])[:120]}.json")
            with open(os.path.join(VERIF, rp), "w") as fh:
                j = v.to_json()
                j["tree_hash"] = ev["coverage"]["tree_hash"]
                json.dump(j, fh, indent=1)
            print(f"  {v.kind}: {v.msg}")
            if v.construct:
                print(f"    construct: {v.construct}  at {v.where}")
            print(f"VIOLATION property={prop} replay={rp}")
        rc = 1
    if selftest is not None and not selftest["ok"]:
        for m in selftest["failures"]:
            print(f"  selftest: {m}")
        print("SELFTEST-FAILURE: the checker itself is not trustworthy on this run (exit 2, no verdict on the property)")
        rc = rc or 2
    return rc


if __name__ == "__main__":
    sys.exit(main())
