"""C06 — A connected hostile peer cannot crash or stall the network."""
import re

from .engine import AnchorLost, Undecidable
from .lib import *
from .mir import Origins, show, strip_identity, walk, name_matches, term_has_call, op_place, place_local

RH = "anemo::network::request_handler"
WIRE = "anemo::network::wire"
CM = "anemo::network::connection_manager"

EXPLANATION = """
A panic in a request task is re-raised up to the connection manager, so 'cannot crash' reduces to: no
panic-capable construct is reachable from remotely driven input except justified ones, and a decode
error ends only its own task. The check computes the workspace bodies reachable (call graph incl.
spawned closures/coroutines and Drop impls) from every entry point a remote peer can drive without user
code (connection handler loop, per-stream handler, wire decoders/encoders, handshake, header
conversion, inbound timeout/add-extension layers, router, disconnect-reason mapping, connection
construction, inbound admission) and lists every unwrap/expect/panic!/assert/index/slice-copy in them;
each must be in an allow-table whose justification is itself re-checked where it is checkable
(receiver type Result<_, Infallible>; constant indices within [u8; 8]; copy_from_slice lengths equal;
route-map invariant; re-raise only on the is_panic edge after is_cancelled was excluded; no panic site
inside any RwLock critical section, which discharges the poisoning unwraps). It further decides that
BiStreamRequestHandler::handle consumes do_handle's error with a trace only (returns () on all
paths), that in the handler loop stray uni streams and datagrams return to the select without touching
the peer map or closing anything while every accept/read error leaves the loop, and that no
close()/shutdown is reachable from the per-request code.
The typed-RPC layer between the wire and the handler (Rpc::unary, codecs, Status conversions) has an empty panic inventory (C06.1c, C17.6 re-evaluated); the list of panic-capable calls includes the String / Bytes / slice APIs documented to panic on out-of-range or non-char-boundary arguments.
The connection manager's own panic sites (reachable through dial results and task joins) keep their re-checked justifications (C08.5 re-evaluated, finding F3b excepted).
No arm of the handler loop has a precondition, and no arm body that continues the loop contains a suspension point (a drain of a stream the peer never finishes would stall the peer's other requests).
"""
TRUSTED = ["third-party bodies are not analysed: matchit::Router::at, bincode::deserialize, tokio-util codec, quinn (stated, not assumed away)",
           "rustls rejects empty certificate chains when client auth is mandatory (try_peer_id unwraps)"]
NOT_DECIDED = ["liveness / fairness ('keeps serving')", "QUIC-level misbehaviour handled inside quinn", "panics inside third-party crates on adversarial input"]
ASSUMPTIONS = ["tokio::select!-generated arithmetic asserts operate on compile-time constants (branch count < 64)"]


def entries(cx):
    prog = cx.prog

    def im(t, tr, m):
        return cx.impl_method(t, tr, m).path
    return [f"{RH}::InboundRequestHandler::start", f"{RH}::BiStreamRequestHandler::new", f"{RH}::BiStreamRequestHandler::handle", f"{RH}::BiStreamRequestHandler::do_handle",
            f"{WIRE}::read_request", f"{WIRE}::read_version_frame", f"{WIRE}::write_response", f"{WIRE}::write_version_frame", f"{WIRE}::handshake",
            f"{WIRE}::network_message_frame_codec", "anemo::types::request::RequestHeader::from_raw", "anemo::types::request::Request::from_parts",
            im("anemo::middleware::timeout::inbound::Timeout", "Service", "call"), im("anemo::middleware::timeout::inbound::ResponseFuture", "Future", "poll"),
            "anemo::middleware::timeout::try_parse_timeout", im("anemo::middleware::add_extension::AddExtension", "Service", "call"),
            im("anemo::routing::Router", "Service", "call"), "anemo::routing::route::Route::oneshot_inner", im("anemo::routing::not_found::NotFound", "Service", "call"),
            "anemo::types::DisconnectReason::from_quinn_error", f"{CM}::ActivePeers::remove_with_stable_id",
            "anemo::connection::Connection::new", "anemo::connection::Connection::try_peer_id", im("anemo::endpoint::Connecting", "Future", "poll"),
            im("anemo::endpoint::Accept", "Future", "poll"), f"{CM}::ConnectionManager::handle_incoming_task", im("anemo::connection::SendStream", "Drop", "drop")]


def const_index_ok(site, b, limit=8):
    """Index / IndexMut call with a constant range inside [0, limit)."""
    c = b.call_at(site["bb"])
    o = Origins(b)
    r = strip_identity(o.of_operand(c.args[1]))
    base = strip_identity(o.of_operand(c.args[0]))
    if base[0] != "repeat" or not base[2].startswith(str(limit)):
        return False
    rb = range_bounds(r, limit)
    return rb is not None and 0 <= rb[0] <= rb[1] <= limit


def bounds_assert_ok(site, b):
    t = b.blocks[site["bb"]]["t"]
    m = re.match(r"BoundsCheck \{ len: const (\d+)_usize, index: (?:copy|move) _(\d+) \}", t["msg"])
    if not m:
        return False
    ln, loc = int(m.group(1)), int(m.group(2))
    v = int_of(Origins(b).of_local(loc))
    return v is not None and 0 <= v < ln


def copy_len_ok(site, b):
    c = b.call_at(site["bb"])
    o = Origins(b)
    dst = strip_identity(o.of_operand(c.args[0]))
    src = strip_identity(o.of_operand(c.args[1]))
    if not (dst[0] == "call" and name_matches(dst[1], "IndexMut::index_mut")):
        return False
    rb = range_bounds(dst[2][1], 8)
    if rb is None:
        return False
    n = rb[1] - rb[0]
    cv = const_of(src)
    if cv is not None and cv.startswith('b"'):
        lit = parse_bytes_literal(cv)
        return lit is not None and len(lit) == n
    if src[0] == "call" and name_matches(src[1], ("core::num::to_be_bytes", "core::num::to_le_bytes", "core::num::to_ne_bytes")):
        cb = b.call_at(src[3])
        ty = b.local_ty(place_local(cb.dest)) if cb is not None else ""
        m = re.match(r"\[u8; (\d+)\]", ty)
        return bool(m) and int(m.group(1)) == n
    return False


def run(cx):
    prog = cx.prog
    ents = entries(cx)
    start = cx.coroutine(f"{RH}::InboundRequestHandler::start")
    do_handle = cx.coroutine(f"{RH}::BiStreamRequestHandler::do_handle")
    router_call = cx.impl_method("anemo::routing::Router", "Service", "call")

    def infallible_expect(site, b):
        c = b.call_at(site["bb"])
        return len(c.ga) == 2 and c.ga[1] == "core::convert::Infallible"

    def reraise_only_on_panic(site, b):
        # dominated by the `true` edge of is_panic() (or the Ok arm of try_into_panic()) and the `false` edge of is_cancelled()
        es = join_error_edges(b)
        ok_p = any(nm == "is_panic" and tv and b.dominates(tgt, site["bb"]) for tgt, nm, tv in es)
        ok_c = any(nm == "is_cancelled" and not tv and b.dominates(tgt, site["bb"]) for tgt, nm, tv in es)
        return ok_p and ok_c

    def failed_only_after_cancel_and_panic_excluded(site, b):
        es = join_error_edges(b)
        return {nm for tgt, nm, tv in es if not tv and b.dominates(tgt, site["bb"])} == {"is_panic", "is_cancelled"}

    def serialize_expect(site, b):
        c = b.call_at(site["bb"])
        o = Origins(b)
        t = strip_identity(o.of_operand(c.args[0]))
        return t[0] == "call" and name_matches(t[1], "bincode::serialize_into") and term_has_call(t, "BufMut::writer") and term_has_call(t, "BytesMut::new")

    allow = {
        f"{router_call.path}/call:Option::expect#0": "route id from the matcher is always present in routes (C16.3)",
        "anemo::connection::Connection::try_peer_id/call:Option::unwrap#0": "peer_identity() is Some after a completed mTLS handshake (client auth mandatory, C01.6)",
        "anemo::connection::Connection::try_peer_id/call:Result::unwrap#0": "rustls peer identity is a Vec<CertificateDer> (downcast of quinn's documented type)",
        "anemo::connection::Connection::try_peer_id/call:Index::index#0": "certificate chain is non-empty: rustls rejects empty chains when client auth is mandatory",
        f"{CM}::ActivePeers::inner/call:Result::unwrap#0": "RwLock poisoning: no panic site inside any critical section (C06.1b)",
        f"{CM}::ActivePeers::inner_mut/call:Result::unwrap#0": "RwLock poisoning: no panic site inside any critical section (C06.1b)",
        f"{CM}::KnownPeers::inner/call:Result::unwrap#0": "RwLock poisoning: no panic site inside any critical section (C06.1b)",
        f"{do_handle.path}/call:Result::expect#0": ("receiver is Result<_, Infallible>", infallible_expect),
        f"{start.path}/call:panic::resume_unwind#0": ("re-raise only on the is_panic edge, after is_cancelled was excluded: only after a request task already panicked", reraise_only_on_panic),
        f"{start.path}/call:panicking::panic_fmt#0": ("'request handler task failed' only when the JoinError is neither cancelled nor a panic (no such tokio variant)", failed_only_after_cancel_and_panic_excluded),
        f"{WIRE}::read_version_frame::{{closure#0}}/call:Index::index#0": ("constant range inside the 8-byte preamble buffer", const_index_ok),
        f"{WIRE}::read_version_frame::{{closure#0}}/assert:BoundsCheck#0": ("constant index < 8", bounds_assert_ok),
        f"{WIRE}::read_version_frame::{{closure#0}}/assert:BoundsCheck#1": ("constant index < 8", bounds_assert_ok),
        f"{WIRE}::read_version_frame::{{closure#0}}/assert:BoundsCheck#2": ("constant index < 8", bounds_assert_ok),
        f"{WIRE}::write_response::{{closure#0}}/call:Result::expect#0": ("bincode serialisation of (u16, HashMap<String,String>) into a growable BytesMut cannot fail", serialize_expect),
        f"{WIRE}::write_version_frame::{{closure#0}}/call:IndexMut::index_mut#0": ("constant range inside the 8-byte preamble buffer", const_index_ok),
        f"{WIRE}::write_version_frame::{{closure#0}}/call:IndexMut::index_mut#1": ("constant range inside the 8-byte preamble buffer", const_index_ok),
        f"{WIRE}::write_version_frame::{{closure#0}}/call:slice::copy_from_slice#0": ("destination range length == source length", copy_len_ok),
        f"{WIRE}::write_version_frame::{{closure#0}}/call:slice::copy_from_slice#1": ("destination range length == source length", copy_len_ok),
    }

    with cx.ob("C06.1a", "R-PANIC", "panic inventory of everything a remote peer can drive without user code: every site justified (and the justification re-checked)") as ob:
        for e in ents:
            cx.body(e)
        reach, sites = panic_sites(prog, ents, extra_edges=drop_edges(prog))
        ob.count(len(reach))
        ob.floor(len(reach), 80, "bodies reachable from the remote-driven entry points")
        listed = []
        for s in sites:
            b = prog.body(s["body"])
            if (s["exp"] or "").split("::")[-1] == "select!":
                ob.evals += 1
                ob.matched += 1      # class: generated by tokio::select! (see ASSUMPTIONS)
                continue
            listed.append(s["key"])
            a = allow.get(s["key"])
            if a is None and static_bounds_ok(s, b):
                ob.evals += 1
                ob.matched += 1          # constant index into a fixed-size array: cannot fail
                continue
            if a is None:
                ob.fail("refuted", f"panic/unlisted/{s['key']}",
                        f"panic-capable construct `{s['what']}` in {s['body']} is reachable from remote-driven code (via {s['via']}) and is not justified in the inventory",
                        s["body"], b.loc(s["bb"]))
                continue
            ob.evals += 1
            if isinstance(a, tuple) and not a[1](s, b):
                ob.fail("refuted", f"panic/justification-failed/{s['key']}", f"justification `{a[0]}` for `{s['what']}` in {s['body']} no longer holds", s["body"], b.loc(s["bb"]))
            else:
                ob.matched += 1
        ob.set_sample({"entries": len(ents), "reachable_bodies": len(reach), "sites": listed})

    with cx.ob("C06.1c", "R-PANIC", "the typed-RPC layer between the wire and the user's handler (Rpc::unary, codecs, Status conversions) is driven by remote bytes too: its panic inventory is empty (C17.6 re-evaluated)") as ob:
        from . import c17
        sub = cx.__class__("C06", prog, cx.tier, cx.config, cx.tree, repo=cx.repo)
        c17.run(sub)
        w = [x for x in sub.obs if x.oid == "C17.6"]
        ob.count(sum(x.evals for x in w))
        bad = [v for x in w for v in x.violations if "rpc-panic" in v.key]
        ob.require(len(w) == 1, "rpc-layer/inventory-evaluated", "C17.6 could not be evaluated", "anemo::rpc")
        for v in bad:
            ob.fail("refuted", "rpc-layer/" + v.key.split("rpc-panic/", 1)[-1], "remote-reachable panic in the typed-RPC layer: " + str(v.msg)[:300], v.construct, v.where)
        # ... and its decoders stay bounded by the bytes actually received: the built-in codecs call only the slice-based
        # (de)serialisers (C17.8) - a reader-based one pre-allocates what a length prefix announces
        w8 = [x for x in sub.obs if x.oid == "C17.8"]
        ob.count(sum(x.evals for x in w8))
        bad8 = [v for x in w8 for v in x.violations]
        ob.require(len(w8) == 1 and not bad8, "rpc-layer/bounded-decoders", "a peer-controlled length can drive an allocation in the typed-RPC codecs: " + "; ".join(str(v.msg) for v in bad8)[:300], "anemo::rpc::codec")

    with cx.ob("C06.1d", "R-SHAPE", "untrusted header bytes are decoded by the derived serde impls of the raw header types only - no custom (de)serialisation hook runs on them (C07.4 re-evaluated)") as ob:
        from . import c07
        sub = cx.__class__("C06", prog, cx.tier, cx.config, cx.tree, repo=cx.repo)
        c07.run(sub)
        w = [x for x in sub.obs if x.oid == "C07.4"]
        ob.count(sum(x.evals for x in w))
        bad = [v for x in w for v in x.violations if "serde-" in v.key]
        ob.require(len(w) == 1 and not bad, "decode/no-custom-serde-hook", "code outside the analysed decode path runs on bytes a peer controls: " + "; ".join(str(v.msg) for v in bad)[:300], "anemo::types::request::RawRequestHeader")

    with cx.ob("C06.1e", "R-PANIC", "the connection manager's own panic sites are reachable through what peers do as well (a dial that fails, a connection that ends, a task that joins): its inventory and the justifications of its 'cannot happen' panics hold (C08.5 re-evaluated, except the runtime-teardown assert recorded as finding F3b)") as ob:
        from . import c08
        sub = cx.__class__("C06", prog, cx.tier, cx.config, cx.tree, repo=cx.repo)
        c08.run(sub)
        w = [x for x in sub.obs if x.oid == "C08.5"]
        ob.count(sum(x.evals for x in w))
        bad = [v for x in w for v in x.violations if not v.key.endswith("assert-active-peers-empty")]
        ob.require(len(w) == 1 and not bad, "manager/panic-inventory", "a peer can drive the connection manager into a panic (which ends the whole network): " + "; ".join(str(v.msg) for v in bad)[:400],
                   "anemo::network::connection_manager::ConnectionManager")

    with cx.ob("C06.1b", "R-PANIC", "no panic-capable construct executes inside a peer-map / known-peers critical section (discharges lock-poisoning unwraps)") as ob:
        inner = [p for p in prog.bodies if p.startswith(f"{CM}::ActivePeersInner::") and "__CALLSITE" not in p and "::{" not in p]
        ob.floor(inner, 7, "ActivePeersInner methods")          # (the two one-line accessors contains/len are always inlined)
        # code that runs while a guard is held elsewhere: the eligibility filter closure of handle_connectivity_check, shutdown's assert
        hc = cx.body(f"{CM}::ConnectionManager::handle_connectivity_check")
        closures = [k.path for k in prog.children(hc)]
        def reads_peer_map(kb_):
            ko_ = Origins(kb_)
            return any(name_matches(x.fn, "HashMap::contains_key") and mentions_field(ko_.of_operand(x.args[0]), "connections") for x in kb_.calls())
        guarded = inner + [c for c in closures if reads_peer_map(prog.body(c))]
        reach, sites = panic_sites(prog, guarded)
        ob.count(len(reach))
        for s in sites:
            b = prog.body(s["body"])
            if is_tracing(b.call_at(s["bb"])) if b.blocks[s["bb"]]["t"]["k"] == "call" else False:
                continue
            ob.fail("refuted", f"panic-under-lock/{s['key']}", f"`{s['what']}` in {s['body']} can panic while a peer-map lock is held (would poison it)", s["body"], b.loc(s["bb"]))
        if not sites:
            ob.matched += 1
        # KnownPeers methods: only std HashMap operations under the guard
        kp = [p for p in prog.bodies if p.startswith(f"{CM}::KnownPeers::") and "::{" not in p and not p.endswith("::inner") and not p.endswith("::inner_mut")]
        for p in kp:
            b = prog.body(p)
            for c in b.calls():
                if b.is_cleanup(c.bb):
                    continue
                if name_matches(c.fn, PANIC_CALLS) and not name_matches(c.fn, NON_PANICKING_LOCKS):
                    ob.fail("refuted", f"panic-under-lock/{p}/{c.fn.split('::')[-1]}", f"{p}: `{c.fn}` under the known-peers lock", p, b.loc(c.bb))
        ob.count(len(kp))

    with cx.ob("C06.2", "R-PATHSEQ", "a failing request ends only its own task: handle() returns () on all paths and only traces do_handle's error") as ob:
        hb = cx.coroutine(f"{RH}::BiStreamRequestHandler::handle")
        ob.require(hb.local_ty(0) == "()", "handle/unit", f"handle returns {hb.local_ty(0)}", hb.path)
        calls = [c for c in hb.calls() if not hb.is_cleanup(c.bb) and not is_tracing(c) and not in_ignored_expansion(hb, c.bb) and await_target(c) is None
                 and not name_matches(c.fn, ("IntoFuture::into_future", "Pin::new_unchecked", "future::get_context"))]
        names = sorted({c.fn for c in calls if c.local or (c.fn or "").startswith(("quinn", "tokio::task", "tokio::runtime", "std::process", "std::panic", "core::panicking"))})
        ob.require(names == [f"{RH}::BiStreamRequestHandler::do_handle"], "handle/only-do_handle", f"handle calls {names}", hb.path)
        # every fallible step in do_handle is consumed by `?` (no unwrap on IO/decode results): covered by the inventory; here: all error exits are propagations
        ws = seq_words(do_handle, lambda c, o: None, lambda bb, s, o: None, None, strict=False)
        ob.count(len(ws))
        # spawn target is handle(), never do_handle() directly (whose Err would be lost as a JoinError otherwise)
        sp = start.calls_to("tokio::task::join_set::JoinSet::spawn")
        ob.floor(sp, 1, "spawn in handler loop", exact=True)
        t = strip_identity(Origins(start).of_operand(sp[0].args[1]))
        ob.require(t[0] == "call" and name_matches(t[1], f"{RH}::BiStreamRequestHandler::handle"), "spawn/handle", f"spawned future is {show(t)[:60]}", start.path)

    with cx.ob("C06.3", "R-STICKY", "handler loop: stray uni streams / datagrams are ignored; every accept/read error leaves the loop; join results never stop it") as ob:
        sites = select_sites(prog, start)
        ob.floor(sites, 1, "select! in the handler loop", exact=True)
        site = sites[0]
        check_no_select_preconditions(ob, prog, start, "loop")          # (an arm switched off by a condition would not see its errors)
        want = {"Connection::accept_uni": "ignore", "Connection::accept_bi": "spawn", "Connection::read_datagram": "ignore", "JoinSet::join_next": "join"}
        ob.require(len(site["arms"]) == 4, "loop/arms", f"select! arms: {site['polled']}", start.path)

        def call_sym(c, o):
            if is_tracing(c):
                return None
            for nm, sym in ((f"{CM}::ActivePeers::remove_with_stable_id", "remove"), (f"{CM}::ActivePeers::remove", "remove-by-peer"), ("anemo::connection::Connection::close", "close"),
                            ("tokio::task::join_set::JoinSet::spawn", "spawn"), ("tokio::task::join_set::JoinSet::shutdown", "shutdown"), ("panic::resume_unwind", "reraise"),
                            ("JoinError::is_cancelled", None), ("JoinError::is_panic", None), (f"{RH}::BiStreamRequestHandler::new", "new-handler"),
                            ("tokio::task::join_set::JoinSet::abort_all", "abort_all")):
                if name_matches(c.fn, nm):
                    return sym
            if name_matches(c.fn, ("core::panicking::panic_fmt", "core::panicking::panic")) and (c.exp or "").split("::")[-1] != "select!":
                return "panic"
            return None

        def extra(a, bb, subj, labels, o):
            lab = "|".join(sorted(labels))
            if join_error_test(subj, labels) is not None:
                return join_error_test(subj, labels)[0] + "=" + str(join_error_test(subj, labels)[1]).lower()
            if subj[0] == "discr":
                u = subj[1]
                vs = [x for x in walk(u) if x[0] == "variant"]
                r = strip_identity(u)
                if vs and r[0] in ("field", "variant"):
                    return "[" + lab + "]"
            jt = join_error_test(subj, labels)
            if jt is not None:
                return jt[0] + "=" + str(jt[1]).lower()
            return None
        for idx, tgt in sorted(site["arms"].items()):
            fut = site["polled"].get(idx, "?")
            kind = next((k for n, k in want.items() if n in fut), None)
            ob.require(kind is not None, f"loop/arm{idx}/future", f"select arm {idx} polls {fut}", start.path)
            if kind is None:
                continue
            # an arm body that continues the loop does not suspend: while it awaits something a peer controls (a drain of a
            # stream the peer never finishes) the other arms - the peer's well-formed requests - are not polled
            body_ = start.reachable_from(tgt, avoid={site["head"]})
            stall = sorted(y_ for y_ in body_ if start.term(y_)["k"] == "yield" and site["head"] in start.reachable_from(y_))
            ob.require(not stall, f"loop/arm{idx}/suspends", f"select arm {idx} ({fut.split('::')[-2] if '::' in fut else fut}) awaits inside its body before the loop continues (bb{stall[0] if stall else ''})",
                       start.path, start.loc(stall[0]) if stall else None)
            ws = {fmt_word(w) for w in arm_words(start, site, idx, call_sym, extra)}
            if kind == "ignore":
                exp = {"[Ok] <stop>", "[Err] remove shutdown <return>"}
            elif kind == "spawn":
                exp = {"[Ok] new-handler spawn <stop>", "[Err] remove shutdown <return>"}
            else:
                exp = {"[Some] [Ok] <stop>", "[Some] [Err] is_cancelled=true <stop>", "[Some] [Err] is_cancelled=false is_panic=true reraise <diverge>",
                       "[Some] [Err] is_cancelled=false is_panic=false panic <diverge>"}
                ws = {w for w in ws if not w.startswith("[None]")}     # pattern-mismatch path of `Some(x) = ..` disables the branch and loops
            ob.count(len(ws))
            for w in sorted(ws - exp):
                ob.fail("refuted", f"loop/arm-{fut.split('::')[-2] if '::' in fut else fut}/unexpected/{w.replace(' ', '_')}",
                        f"handler loop arm `{fut}`: behaviour `{w}` (allowed: {sorted(exp)})", start.path, start.loc(tgt), path=w)
            for w in sorted(exp - ws):
                ob.fail("refuted", f"loop/arm-{fut.split('::')[-2] if '::' in fut else fut}/missing/{w.replace(' ', '_')}",
                        f"handler loop arm `{fut}`: required behaviour `{w}` missing (got {sorted(ws)})", start.path, start.loc(tgt), path=w)
            if ws == exp:
                ob.matched += len(ws)
        ob.set_sample({"loop": start.path, "select": {str(k): v for k, v in site["polled"].items()}})

    with cx.ob("C06.4", "R-CALLERS", "nothing in the per-request / decode path closes the connection, the endpoint or removes the peer") as ob:
        per_request = [f"{RH}::BiStreamRequestHandler::new", f"{RH}::BiStreamRequestHandler::handle", f"{RH}::BiStreamRequestHandler::do_handle", f"{WIRE}::read_request",
                       f"{WIRE}::write_response", f"{WIRE}::read_version_frame", f"{WIRE}::write_version_frame", "anemo::types::request::RequestHeader::from_raw",
                       cx.impl_method("anemo::routing::Router", "Service", "call").path, cx.impl_method("anemo::middleware::timeout::inbound::Timeout", "Service", "call").path,
                       cx.impl_method("anemo::middleware::timeout::inbound::ResponseFuture", "Future", "poll").path,
                       cx.impl_method("anemo::middleware::add_extension::AddExtension", "Service", "call").path]
        reach = prog.reachable_bodies(per_request, extra_edges=drop_edges(prog))
        ob.count(len(reach))
        for p in reach:
            b = prog.body(p)
            for c in b.calls():
                if name_matches(c.fn, ("anemo::connection::Connection::close", "anemo::endpoint::Endpoint::close", "quinn::connection::Connection::close", "quinn::endpoint::Endpoint::close",
                                       f"{CM}::ActivePeers::remove", f"{CM}::ActivePeers::remove_with_stable_id", "std::process::exit", "std::process::abort")):
                    ob.fail("refuted", f"per-request-close/{p}/{c.fn.split('::')[-1]}", f"{p} calls {c.fn} on the per-request path", p, b.loc(c.bb))
        ob.matched += 1
        # the only close path of the handler: remove_with_stable_id after the loop
        check_callers(ob, prog, "anemo::connection::Connection::close", [f"{CM}::ActivePeersInner::add", f"{CM}::ActivePeersInner::remove", f"{CM}::ActivePeersInner::remove_with_stable_id"],
                      exact=4, crates=["anemo"], what="Connection::close")

    with cx.ob("C06.5", "R-CONST", "request header is decoded from an in-memory frame already bounded by the frame codec") as ob:
        co = cx.coroutine(f"{WIRE}::read_request")
        o = Origins(co)
        ds = co.calls_to("bincode::deserialize")
        ob.floor(ds, 1, "bincode::deserialize in read_request", exact=True)
        t = o.of_operand(ds[0].args[0])
        ob.require(term_has_call(t, "StreamExt::next") and mentions_upvar(t, "recv_stream"), "decode/from-frame", f"header decoded from {show(t)[:100]}", co.path)
        ob.require(not co.calls_to(("bincode::deserialize_from", "bincode::de::Deserializer::with_reader")), "decode/no-streaming-decoder", "read_request decodes directly from the stream (unbounded)", co.path)
        # the stream handed to read_request is framed with the network's codec (C15.1)
        hn = cx.body(f"{RH}::BiStreamRequestHandler::new")
        fr = hn.calls_to("tokio_util::codec::framed_read::FramedRead::new")
        ob.require(len(fr) == 1 and term_has_call(Origins(hn).of_operand(fr[0].args[1]), f"{WIRE}::network_message_frame_codec"), "decode/framed", "recv stream is not framed with the network codec", hn.path)
