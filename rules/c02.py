"""C02 — RPC delivery integrity, pairing and at-most-once handling."""
from .engine import AnchorLost, Undecidable
from .lib import *
from .mir import Origins, show, strip_identity, walk, name_matches, term_has_call

CONN = "anemo::connection::Connection"
PEER = "anemo::network::peer::Peer"
RH = "anemo::network::request_handler"
WIRE = "anemo::network::wire"

EXPLANATION = """
Stream-per-RPC isolation and exactly-once dispatch are structural: raw quinn stream opens/accepts occur
only inside Connection's wrappers, open_bi only in Peer::do_rpc and accept_bi only in the connection
handler loop; in do_rpc there is exactly one open_bi, on no cycle, the request is written to half 0 and
the response read from half 1 of that same call's result, in the order write_request → finish →
read_response on every path to Ok, and no function on the call path (Peer::call/rpc, NetworkInner::rpc)
contains a loop around it (no transparent retry that could deliver a request twice); no type other than
BiStreamRequestHandler owns a stream or framed codec (no caching/sharing of streams between RPCs); the
handler loop gives BiStreamRequestHandler::new both halves of the same accept_bi result and spawns one
handler per accepted stream; in do_handle the service is invoked exactly once, on no cycle, with the
request decoded from the handler's own receive stream, and the response written to the handler's own
send stream is the output of that invocation. Frame order agreement between the four codecs is C07's
sibling rule, re-evaluated here. Content integrity on the way: nothing in anemo::network /
anemo::middleware calls a mutating Request/Response method (classified from the method signatures) or
writes a header field, except on a message the library itself has just created.
One layer out: Network::rpc only forwards to NetworkInner::rpc, and the router hands the handler the request it received (C16.1 re-evaluated).
Each path is registered, and re-registered by merge, with its own handler (C16.3, C16.4 re-evaluated).
Every tower Layer of the anemo crate (incl. the boxed per-method layer of generated servers) returns a service built directly around the inner service it was given.
"""
TRUSTED = ["QUIC stream reliability/ordering under datagram loss, reordering, duplication (quinn)", "tower ServiceExt::oneshot calls the service once"]
NOT_DECIDED = ["behaviour under datagram loss/reordering/duplication (inside quinn)", "interleavings of concurrent handlers (they share no mutable state by the ownership rules above)",
               "multi-megabyte bodies at run time"]
ASSUMPTIONS = []


def run(cx):
    prog = cx.prog
    A = ["anemo"]

    with cx.ob("C02.1", "R-CALLERS", "raw quinn stream opens/accepts only in Connection's wrappers; open_bi only in do_rpc, accept_bi only in the handler loop") as ob:
        for m in ("open_bi", "accept_bi", "open_uni", "accept_uni", "read_datagram", "send_datagram"):
            cs = prog.callers_of(f"quinn::connection::Connection::{m}", crates=A)
            for c in cs:
                ob.require(owner_path(prog, c.body) == f"{CONN}::{m}", f"raw/{m}/{owner_path(prog, c.body)}", f"quinn {m} called from {c.body.path}", c.body.path, c.body.loc(c.bb))
            if m in ("open_bi", "accept_bi", "open_uni", "accept_uni"):
                ob.floor(cs, 1, f"quinn {m} sites", exact=True)
        check_callers(ob, prog, f"{CONN}::open_bi", [f"{PEER}::do_rpc"], exact=1, crates=A, what="Connection::open_bi")
        check_callers(ob, prog, f"{CONN}::accept_bi", [f"{RH}::InboundRequestHandler::start"], exact=1, crates=A, what="Connection::accept_bi")
        # wrappers return the pair of the same quinn call, send half wrapped
        for m in ("open_bi", "accept_bi"):
            co = cx.coroutine(f"{CONN}::{m}")
            t = Origins(co).of_local(0)
            def pair_ok(r):
                """(SendStream(x.0), x.1) of one pair x"""
                if not (r[0] == "agg" and r[1] == "tuple" and len(r[3]) == 2 and r[3][0][0] == "agg" and r[3][0][2].endswith("SendStream::SendStream")):
                    return None
                s0, s1 = strip_identity(r[3][0][3][0]), strip_identity(r[3][1])
                if s0[0] == "field" and s0[2] == "0" and s1[0] == "field" and s1[2] == "1" and strip_identity(s0[1]) == strip_identity(s1[1]):
                    return strip_identity(s0[1])
                return None
            if t[0] == "call" and name_matches(t[1], "Result::map"):
                # `.map(|(s, r)| (SendStream(s), r))` or `.map(wrap_fn)`
                ok = term_has_call(t[2][0], f"quinn::connection::Connection::{m}")
                ob.require(ok, f"wrapper/{m}", f"Connection::{m} returns {show(t)[:100]}", co.path)
                cl = strip_identity(t[2][1]) if ok else ("u",)
                kb = prog.body(cl[2]) if cl[0] == "agg" else prog.body(cl[1]) if cl[0] == "fnptr" else None
                if kb is not None:
                    r = Origins(kb).of_local(0)
                    root = pair_ok(r)
                    ob.require(root is not None and root[0] == "param", f"wrapper/{m}/pair", f"Connection::{m} maps the pair to {show(r)}", kb.path)
                else:
                    ob.fail("refuted", f"wrapper/{m}/pair", f"Connection::{m}: mapper {show(cl)[:60]} not analysable", co.path)
            else:
                # written out: `match quinn.{m}().await { Ok((s, r)) => Ok((SendStream(s), r)), Err(e) => Err(e) }`
                alts = list(t[1]) if t[0] == "phi" else [t]
                oks = [x for x in alts if x[0] == "agg" and str(x[2]).endswith("Result::Ok")]
                ob.require(len(oks) == 1 and all((x[0] == "agg" and str(x[2]).endswith(("Result::Ok", "Result::Err"))) or term_has_call(x, "FromResidual::from_residual") for x in alts),
                           f"wrapper/{m}", f"Connection::{m} returns {show(t)[:100]}", co.path)
                if oks:
                    root = pair_ok(strip_identity(oks[0][3][0]))
                    okr = root is not None and term_has_call(root, f"quinn::connection::Connection::{m}") and any(x[0] == "variant" and x[2] in ("Ok", "Continue") for x in walk(root))
                    ob.require(okr, f"wrapper/{m}/pair", f"Connection::{m} builds its Ok value from {show(oks[0])[:120]}", co.path)

    with cx.ob("C02.2", "R-FLOW", "do_rpc: one open_bi (no cycle); request on half 0, response from half 1 of the same stream; write → finish → read on every Ok path; no retry loop on the call path") as ob:
        co = cx.coroutine(f"{PEER}::do_rpc")
        o = Origins(co)
        ob_ = co.calls_to(f"{CONN}::open_bi")
        ob.floor(ob_, 1, "open_bi in do_rpc", exact=True)
        cyc = co.cyclic_blocks()
        ob.require(ob_[0].bb not in cyc, "do_rpc/open-not-in-loop", "open_bi lies on a cycle", co.path, co.loc(ob_[0].bb))
        fw = co.calls_to("tokio_util::codec::framed_write::FramedWrite::new")
        fr = co.calls_to("tokio_util::codec::framed_read::FramedRead::new")
        ob.floor(fw, 1, "FramedWrite::new in do_rpc", exact=True)
        ob.floor(fr, 1, "FramedRead::new in do_rpc", exact=True)

        def half(t, idx):
            s = strip_identity(t)
            return s[0] == "field" and s[2] == str(idx) and any(x[0] == "variant" and x[2] in ("Continue", "Ok") for x in walk(s)) and \
                [x[3] for x in walk(s) if x[0] == "call" and name_matches(x[1], f"{CONN}::open_bi")] == [ob_[0].bb]
        ob.require(half(arg_origin(fw[0], 0, o), 0), "do_rpc/write-half", f"FramedWrite wraps {show(arg_origin(fw[0], 0, o))[:100]}", co.path, co.loc(fw[0].bb))
        ob.require(half(arg_origin(fr[0], 0, o), 1), "do_rpc/read-half", f"FramedRead wraps {show(arg_origin(fr[0], 0, o))[:100]}", co.path, co.loc(fr[0].bb))

        def call_sym(c, oo):
            if await_target(c) is not None:
                return None
            if name_matches(c.fn, f"{CONN}::open_bi"):
                return "open_bi"
            if name_matches(c.fn, f"{WIRE}::write_request"):
                t = oo.of_operand(c.args[0])
                ok = [x[3] for x in walk(t) if x[0] == "call" and name_matches(x[1], "FramedWrite::new")] == [fw[0].bb] and strip_identity(oo.of_operand(c.args[1])) == ("upvar", "request")
                return "write_request(send,request)" if ok else "write_request(?)"
            if name_matches(c.fn, "quinn::send_stream::SendStream::finish"):
                t = oo.of_operand(c.args[0])
                return "finish(send)" if [x[3] for x in walk(t) if x[0] == "call" and name_matches(x[1], "FramedWrite::new")] == [fw[0].bb] else "finish(?)"
            if name_matches(c.fn, f"{WIRE}::read_response"):
                t = oo.of_operand(c.args[0])
                return "read_response(recv)" if [x[3] for x in walk(t) if x[0] == "call" and name_matches(x[1], "FramedRead::new")] == [fr[0].bb] else "read_response(?)"
            if name_matches(c.fn, (f"{WIRE}::write_response", f"{WIRE}::read_request", f"{CONN}::accept_bi", f"{PEER}::do_rpc")):
                return "odd:" + c.fn.split("::")[-1]
            return None

        def stmt_sym(bbi, s, oo):
            if s["lhs"] == 0 and s["rv"]["k"] == "agg" and s["rv"].get("adt") == "core::result::Result" and s["rv"]["variant"] == "Ok":
                t = oo.of_operand(s["rv"]["ops"][0])
                return "ret=Ok(response read)" if term_has_call(t, f"{WIRE}::read_response") else "ret=Ok(?)"
            return None
        ws = seq_words(co, call_sym, stmt_sym)
        okw = {fmt_word(w) for w in ok_words(ws)}
        ob.require(okw == {"open_bi write_request(send,request) finish(send) read_response(recv) ret=Ok(response read) <return>"}, "do_rpc/order",
                   f"do_rpc success paths: {sorted(okw)}", co.path, co.loc())
        ob.set_sample({"body": co.path, "ok_words": sorted(okw)})
        # no loop around the RPC on the caller path
        for path, what in ((cx.impl_method(PEER, "Service", "call").path, ("tower_service::Service::call", "tower_layer::Layer::layer")),
                           (cx.coroutine(f"{PEER}::rpc").path, ("tower_service::Service::call",)),
                           (cx.coroutine("anemo::network::NetworkInner::rpc").path, (f"{PEER}::rpc",)),
                           (cx.coroutine("anemo::network::Network::rpc").path, ("anemo::network::NetworkInner::rpc",))):
            b = prog.body(path)
            cyc = b.cyclic_blocks()
            cs = [c for c in b.calls() if name_matches(c.fn, what) and not b.is_cleanup(c.bb)]
            ob.require(len(cs) >= 1 and all(c.bb not in cyc for c in cs), f"no-retry/{path}", f"{path}: the RPC dispatch is on a cycle (retry loop) or missing", path, b.loc())
            n = len([c for c in cs if name_matches(c.fn, what[0])])
            ob.require(n == 1, f"single-dispatch/{path}", f"{path}: {n} dispatch sites", path, b.loc())
        check_api_forwarder(ob, prog, "rpc")          # Network::rpc(peer, request) = NetworkInner::rpc(peer, request), nothing else
        # the closure handed to service_fn calls do_rpc once with the given request
        pc = cx.impl_method(PEER, "Service", "call")
        ds = prog.callers_of(f"{PEER}::do_rpc")
        ob.floor(ds, 1, "do_rpc call sites", exact=True)
        dc = ds[0]
        t = arg_origin(dc, 1)
        ob.require(dc.bb not in dc.body.cyclic_blocks() and (strip_identity(t) == ("upvar", "request") or is_param(t, "request")), "do_rpc/called-once-with-request",
                   f"do_rpc invoked with {show(t)}", dc.body.path)

    with cx.ob("C02.3", "R-SHAPE", "only BiStreamRequestHandler owns stream / framed-codec fields (no stream caching or sharing)") as ob:
        n = 0
        for path, a in prog.adts.items():
            if not path.startswith("anemo::"):
                continue
            for v in a["variants"]:
                for f in v["fields"]:
                    ty = f["ty"]
                    if any(k in ty for k in ("quinn::send_stream::SendStream", "quinn::recv_stream::RecvStream", "anemo::connection::SendStream", "FramedWrite<", "FramedRead<", "codec::framed::Framed<")):
                        n += 1
                        ok = path in (f"{RH}::BiStreamRequestHandler", "anemo::connection::SendStream")
                        if not ok:
                            # a struct that merely groups the two halves *inside one RPC* is not a cache: nothing else embeds
                            # it, and values of it exist only as locals of the per-RPC functions
                            embedded = [q for q, a2 in prog.adts.items() if q != path and any(path in f2["ty"] for v2 in a2["variants"] for f2 in v2["fields"])]
                            PER_RPC = (f"{PEER}::do_rpc", f"{RH}::BiStreamRequestHandler::new", f"{RH}::BiStreamRequestHandler::handle", f"{RH}::BiStreamRequestHandler::do_handle")
                            holders = [b2 for b2 in prog.bodies.values() if b2.crate == "anemo" and any(path in (l_.get("ty") or "") for l_ in b2.locals)]
                            ok = not embedded and bool(holders) and all(all(o_ in PER_RPC for o_ in owner_paths(prog, b2)) and owner_paths(prog, b2) for b2 in holders)
                        ob.require(ok, f"stream-owner/{path}.{f['name']}", f"{path}.{f['name']}: {ty} holds a stream", path)
        ob.floor(n, 3, "stream-holding fields (BiStreamRequestHandler.send_stream/.recv_stream, SendStream.0)")
        # no static/global holding streams: no `static` whose type mentions a stream
        for p, b in prog.bodies.items():
            if b.kind.startswith("Static") and b.crate == "anemo":
                ob.require(not any(k in b.local_ty(0) for k in ("SendStream", "RecvStream", "Framed")), f"static-stream/{p}", f"static {p} holds a stream", p)

    with cx.ob("C02.4", "R-FLOW", "handler loop: both halves of one accept_bi result go to one new BiStreamRequestHandler, spawned once") as ob:
        cs = prog.callers_of(f"{RH}::BiStreamRequestHandler::new")
        ob.floor(cs, 1, "BiStreamRequestHandler::new sites", exact=True)
        c = cs[0]
        o = Origins(c.body)
        s_, r_ = strip_identity(arg_origin(c, 3, o)), strip_identity(arg_origin(c, 4, o))

        def pay(t, idx):
            return t[0] == "field" and t[2] == str(idx) and t[1][0] == "field" and t[1][1][0] == "variant" and t[1][1][2] == "Ok"
        ob.require(pay(s_, 0) and pay(r_, 1) and s_[1] == r_[1], "accept/same-pair", f"handler gets send={show(s_)[:80]} recv={show(r_)[:80]}", c.body.path, c.body.loc(c.bb))
        # that Ok payload is the select! branch whose future is accept_bi
        sel = s_[1][1][1] if pay(s_, 0) else ("u",)
        var = [x for x in walk(sel) if x[0] == "variant" and x[2].startswith("_")]
        ob.require(len(var) >= 1, "accept/select-branch", f"stream pair comes from {show(sel)[:80]}", c.body.path)
        if var:
            idx = int(var[0][2][1:])
            # the poll_fn closure polls futures.<idx> = accept_bi
            pf = [k for k in prog.children(c.body) if any(name_matches(x.fn, "poll_budget_available") or (x.exp or "").endswith("select!") for x in k.calls())]
            polled = None
            for k in pf:
                ko = Origins(k)
                for x in k.calls():
                    if name_matches(x.fn, "future::future::Future::poll") and x.res and any(
                            v[0] == "field" and v[2] == str(idx) and mentions_upvar(v, "futures") for v in walk(ko.of_operand(x.args[0]))):
                        polled = x.res
            ob.require(polled == f"{CONN}::accept_bi::{{closure#0}}", "accept/branch-is-accept_bi", f"select branch {idx} polls {polled}", c.body.path)
        hs = [x for x in c.body.calls_to(f"{RH}::BiStreamRequestHandler::handle")]
        sp = [x for x in c.body.calls_to("tokio::task::join_set::JoinSet::spawn")]
        ob.floor(hs, 1, "handle() call", exact=True)
        ob.floor(sp, 1, "JoinSet::spawn in handler loop", exact=True)
        ht = strip_identity(o.of_operand(hs[0].args[0]))
        ob.require(ht[0] == "call" and ht[3] == c.bb, "spawn/handles-new-handler", f"handle() called on {show(ht)[:60]}", c.body.path)
        st = strip_identity(o.of_operand(sp[0].args[1]))
        ob.require(st[0] == "call" and st[3] == hs[0].bb, "spawn/spawns-that-handler", f"spawned future is {show(st)[:60]}", c.body.path)
        ob.require(c.body.dominates(c.bb, hs[0].bb) and c.body.dominates(hs[0].bb, sp[0].bb), "spawn/once-per-stream", "new → handle → spawn are not in one straight-line region", c.body.path)
        nb = cx.body(f"{RH}::BiStreamRequestHandler::new")
        t = Origins(nb).of_local(0)
        f = dict(zip(t[4], t[3])) if t[0] == "agg" else {}
        ok = term_has_call(f.get("send_stream", ("u",)), "FramedWrite::new") and mentions_param(f.get("send_stream", ("u",)), "send_stream") and \
            term_has_call(f.get("recv_stream", ("u",)), "FramedRead::new") and mentions_param(f.get("recv_stream", ("u",)), "recv_stream") and is_param(f.get("service", ("u",)), "service")
        ob.require(ok, "handler-new/fields", f"BiStreamRequestHandler::new builds {show(t)[:160]}", nb.path)

    with cx.ob("C02.5", "R-MUSTPASS", "do_handle: service invoked exactly once (no cycle) on the request read from the own stream; the response written is that invocation's output") as ob:
        co = cx.coroutine(f"{RH}::BiStreamRequestHandler::do_handle")
        o = Origins(co)
        one = co.calls_to("tower::util::ServiceExt::oneshot")
        ob.floor(one, 1, "oneshot in do_handle", exact=True)
        svc_calls = [c for c in co.calls() if name_matches(c.fn, ("tower_service::Service::call", "tower::util::ServiceExt::oneshot", "ServiceExt::call_all", "ServiceExt::ready")) and not co.is_cleanup(c.bb)]
        ob.require(len(svc_calls) == 1, "do_handle/single-invocation", f"{len(svc_calls)} service invocation sites in do_handle", co.path)
        ob.require(one[0].bb not in co.cyclic_blocks(), "do_handle/not-in-loop", "service invocation lies on a cycle", co.path, co.loc(one[0].bb))
        rr = co.calls_to(f"{WIRE}::read_request")
        ob.floor(rr, 1, "read_request in do_handle", exact=True)
        ob.require(co.dominates(rr[0].bb, one[0].bb), "do_handle/read-before-dispatch", "read_request does not dominate the service call", co.path)
        t = arg_origin(rr[0], 0, o)
        ob.require(mentions_field(t, "recv_stream") and mentions_upvar(t, "self"), "do_handle/own-recv", f"request read from {show(t)}", co.path)
        rq = arg_origin(one[0], 1, o)
        ob.require([x[3] for x in walk(rq) if x[0] == "call" and name_matches(x[1], f"{WIRE}::read_request")] == [rr[0].bb] and
                   any(x[0] == "variant" and x[2] in ("Continue", "Ok") for x in walk(rq)), "do_handle/dispatches-read-request", f"service gets {show(rq)[:100]}", co.path)
        sv = arg_origin(one[0], 0, o)
        ob.require(mentions_field(sv, "service") and mentions_upvar(sv, "self"), "do_handle/own-service", f"service is {show(sv)}", co.path)
        wr = co.calls_to(f"{WIRE}::write_response")
        ob.floor(wr, 1, "write_response in do_handle", exact=True)
        ob.require(co.dominates(one[0].bb, wr[0].bb), "do_handle/respond-after-dispatch", "write_response not dominated by the service call", co.path)
        t = arg_origin(wr[0], 0, o)
        ob.require(mentions_field(t, "send_stream") and mentions_upvar(t, "self"), "do_handle/own-send", f"response written to {show(t)}", co.path)
        resp = arg_origin(wr[0], 1, o)
        # the response is the select! output of the branch that polls the oneshot future
        var = [x for x in walk(resp) if x[0] == "variant" and x[2].startswith("_")]
        rs = deep_payload(resp)          # `Ok(x)?` round trips of an extracted helper are looked through
        # the written value must BE the unwrapped select output (not a phi / rebuilt response)
        ok = bool(var) and rs[0] == "call" and name_matches(rs[1], ("Result::expect", "Result::unwrap", "Result::into_ok", "Result::unwrap_or_else"))
        unwrapped = rs[2][0] if ok else None
        if not ok and bool(var) and rs[0] == "field" and rs[2] == "0" and rs[1][0] == "variant" and rs[1][2] == "Ok":
            # `match served { Ok(response) => response, Err(never) => match never {} }`: the Ok payload of the (infallible) result
            ok, unwrapped = True, rs[1][1]
        if ok:
            t_ = strip_identity(unwrapped)
            reached = False
            for _ in range(8):
                if t_[0] == "variant" and t_[2].startswith("_"):
                    reached = True
                    break
                if t_[0] in ("field", "variant"):
                    t_ = strip_identity(t_[1])
                    continue
                break
            ok = reached      # spine root → select output is made of projections only (no phi, no rebuilt value)
        if ok:
            idx = int(var[0][2][1:])
            futs = [s for bl in co.blocks if not bl.get("cleanup") for s in bl["s"] if s["k"] == "assign" and s["rv"]["k"] == "agg" and s["rv"]["ak"] == "tuple"
                    and any(term_has_call(o.of_operand(x), "ServiceExt::oneshot") for x in s["rv"]["ops"])]
            ok = len(futs) >= 1 and all(
                [i for i, x in enumerate(f_["rv"]["ops"]) if term_has_call(o.of_operand(x), "ServiceExt::oneshot")] == [idx] for f_ in futs)
        ob.require(ok, "do_handle/response-is-service-output", f"response written is {show(resp)[:120]}", co.path, co.loc(wr[0].bb))

    with cx.ob("C02.6", "R-SIBLING", "request/response codecs agree on frame order and header types and transform nothing (C07.3 + C07.6 re-evaluated)") as ob:
        from . import c07
        sub = cx.__class__("C02", prog, cx.tier, cx.config, cx.tree, repo=cx.repo)
        c07.run(sub)
        w = [x for x in sub.obs if x.oid.startswith("C07.3") or x.oid == "C07.6"]
        ob.count(sum(x.evals for x in w))
        bad = [v for x in w for v in x.violations]
        ob.require(len(w) == 5 and not bad, "codec-siblings", "codec sibling / closed-world rules refuted: " + "; ".join(v.msg for v in bad)[:300], WIRE)

    with cx.ob("C02.7", "R-CALLERS", "the transport never rewrites message content: no call to a mutating Request/Response method (classified by signature) and no write to a header field anywhere in anemo::network / anemo::middleware, except on a message the library itself has just created") as ob:
        REQ, RSP = "anemo::types::request::Request", "anemo::types::response::Response"
        mutators = {}
        n_methods = 0
        for p, b in prog.bodies.items():
            for T in (REQ, RSP):
                if p.startswith(T + "::") and b.kind != "Closure" and b.argc >= 1:
                    n_methods += 1
                    tys = [l.get("ty", "") for l in b.locals[:b.argc + 1]]
                    recv, ret = tys[1], tys[0]
                    name = p[len(T) + 2:]
                    if name == "extensions_mut":
                        continue                         # extensions never travel on the wire; their write discipline is C01.10
                    if recv.startswith("&mut " + T + "<"):
                        mutators[p] = "&mut self"
                    elif recv.startswith(T + "<") and ret.startswith(T + "<"):
                        mutators[p] = "self -> Self"
        ob.floor(n_methods, 40, "Request/Response methods classified")
        ob.floor(len(mutators), 18, "mutating Request/Response methods (by signature)")
        ob.set_sample({"mutators": sorted(m.split("::", 3)[-1] + " (" + k + ")" for m, k in mutators.items())})
        TRANSPORT = ("anemo::network::", "<anemo::network::", "anemo::middleware::", "<anemo::middleware::")
        FRESH = (REQ + "::new", RSP + "::new", REQ + "::empty", RSP + "::empty")
        n_bodies = n_calls = 0
        for p, b in prog.bodies.items():
            if b.crate != "anemo" or not p.startswith(TRANSPORT):
                continue
            n_bodies += 1
            o = None
            for c in b.calls():
                if b.is_cleanup(c.bb) or not c.callee.startswith((REQ + "::", RSP + "::")):
                    continue
                n_calls += 1
                if c.callee not in mutators:
                    continue
                o = o or Origins(b)
                r = strip_identity(arg_origin(c, 0, o))
                fresh = r[0] == "call" and name_matches(r[1], FRESH)
                ob.require(fresh, f"content-mutator/{owner_path(prog, b)}/{c.callee.split('::')[-1]}",
                           f"{p} calls {c.callee.split('::', 3)[-1]} ({mutators[c.callee]}) on {show(r)[:80]}: the transport rewrites a message it did not create", p, b.loc(c.bb))
        ob.floor(n_bodies, 150, "transport bodies scanned")
        ob.floor(n_calls, 15, "Request/Response method calls on the transport path")
        for adt, fields in (("anemo::types::request::RequestHeader", ("route", "headers", "version")), ("anemo::types::response::ResponseHeader", ("status", "headers", "version"))):
            for f in fields:
                for (b, bb, kind, _s) in field_accesses(prog, adt, f, crates=A):
                    if kind in ("write", "mutref") and b.path.startswith(TRANSPORT):
                        ob.fail("refuted", f"content-field-write/{owner_path(prog, b)}/{f}", f"{b.path} writes/mutably borrows {adt.split('::')[-1]}.{f} on the transport path", b.path, b.loc(bb))
                    else:
                        ob.count(1)

    with cx.ob("C02.8", "R-CALLERS", "SendStream's AsyncWrite impl is pure delegation: each poll_* forwards once to the same poll_* of the wrapped quinn stream with its own arguments (no buffering, no non-cancel-safe future in between)") as ob:
        n = 0
        for m in ("poll_write", "poll_flush", "poll_shutdown"):
            b = cx.impl_method("anemo::connection::SendStream", "AsyncWrite", m)
            o = Origins(b)
            fw = [c for c, ch in call_sites_through(prog, b, lambda c_: True, depth=2)
                  if not name_matches(c.fn, ("Pin::new", "DerefMut::deref_mut", "Deref::deref", "Pin::as_mut", "Pin::get_mut", "Poll::map_err", "Poll::map", "Into::into", "From::from", "Pin::new_unchecked"))
                  and not is_tracing(c)]
            n += len(fw)
            ok = len(fw) == 1 and (fw[0].fn or "").split("::")[-1] == m and ("quinn::send_stream::SendStream" in (fw[0].callee or "") or "quinn::send_stream::SendStream" in (fw[0].self_ty or "") or "quinn::send_stream::SendStream" in str(fw[0].ga))
            ob.require(ok, f"sendstream/{m}/delegates", f"{b.path} calls {[c.callee for c in fw]} instead of forwarding once to quinn's {m}", b.path)
            if ok:
                t = arg_origin(fw[0], 0, Origins(fw[0].body))
                ob.require(mentions_field(t, "0") and mentions_param(t, "self"), f"sendstream/{m}/on-wrapped-stream", f"{m} forwarded on {show(t)[:80]}", b.path)
                if m == "poll_write":
                    ob.require(is_param(strip_identity(arg_origin(fw[0], 2, Origins(fw[0].body))), "buf"), "sendstream/poll_write/same-buffer", "poll_write forwards a different buffer", b.path)
            kids = [k for k in prog.children(b)]
            ob.require(not [k for k in kids if k.coroutine], f"sendstream/{m}/no-future", f"{b.path} builds an async block / future (not cancel-safe across polls)", b.path)
        ob.floor(n, 3, "forwarding calls inspected")

    with cx.ob("C02.9", "R-PATHSEQ", "one layer out: the router hands the handler the request it received - one dispatch per request, route untouched, each path registered with its own handler (C16.1, C16.3, C16.4 re-evaluated)") as ob:
        from . import c16
        sub = cx.__class__("C02", prog, cx.tier, cx.config, cx.tree, repo=cx.repo)
        c16.run(sub)
        w = [x for x in sub.obs if x.oid in ['C16.1']]
        ob.count(sum(x.evals for x in w))
        bad = [v for x in w for v in x.violations]
        ob.require(len(w) == 1 and not bad, "router/request-unchanged", "the router can rewrite or re-dispatch a request: " + "; ".join(str(v.msg) for v in bad)[:300], "anemo::routing::Router")
        # ... and the handler it dispatches to is the one registered under that route: registration (route) and
        # re-registration (merge) keep each path paired with its own service value (C16.3, C16.4 re-evaluated)
        w = [x for x in sub.obs if x.oid in ['C16.3', 'C16.4']]
        ob.count(sum(x.evals for x in w))
        bad = [v for x in w for v in x.violations]
        ob.require(len(w) == 2 and not bad, "router/handler-of-route", "a route can end up paired with another route's handler: " + "; ".join(str(v.msg) for v in bad)[:300], "anemo::routing::Router")

    with cx.ob("C02.11", "R-SIBLING", "one layer out: an error a typed handler answers with reaches the caller as the handler built it - Status::into_response writes the status, every header and the message, and from_response reads them back (C17.7 re-evaluated)") as ob:
        from . import c17
        sub = cx.__class__("C02", prog, cx.tier, cx.config, cx.tree, repo=cx.repo)
        c17.run(sub)
        w = [x for x in sub.obs if x.oid == "C17.7"]
        ob.count(sum(x.evals for x in w))
        bad = [v for x in w for v in x.violations]
        # ... and the server helper answers a handler's Err(status) with exactly that conversion (C17.5 map_response clauses)
        w5 = [x for x in sub.obs if x.oid == "C17.5"]
        ob.count(sum(x.evals for x in w5))
        bad += [v for x in w5 for v in x.violations if "map_response" in v.key]
        ob.require(len(w) == 1 and len(w5) == 1 and not bad, "status/handler-error-intact", "the error status a handler produced is altered on its way to the caller: " + "; ".join(str(v.msg) for v in bad)[:300], "anemo::rpc::Status")

    with cx.ob("C02.10", "R-SHAPE", "one layer out: every tower Layer of the anemo crate (the boxed per-method layer of generated servers, the timeout and extension layers) wraps the service it is given - layer() builds its result directly around `inner` on every call, so a handler is never replaced by one built for another route") as ob:
        lbs = [b_ for b_ in prog.bodies.values() if b_.crate == "anemo" and "tower_layer::Layer" in b_.path and b_.path.endswith(">::layer")]
        ob.floor(lbs, 4, "Layer impls in the anemo crate")
        for lb in lbs:
            t = strip_identity(Origins(lb).of_local(0))
            alts = list(t[1]) if t[0] == "phi" else [t]
            def wraps(a_):
                a_ = strip_identity(a_)
                if a_[0] == "agg":
                    return any(is_param(strip_identity(x_), "inner") for x_ in a_[3])
                if a_[0] == "call":
                    return any(is_param(strip_identity(x_), "inner") for x_ in a_[2]) and (a_[1].endswith("::new") or name_matches(a_[1], "tower_layer::Layer::layer"))
                return False
            ob.require(all(wraps(a_) for a_ in alts), f"layer-wraps-inner/{lb.path.split(' as ')[0].lstrip('<').split('<')[0].split('::')[-1]}",
                       f"{lb.path} returns {show(t)[:140]} - not (always) a service built around the `inner` it was given", lb.path)

