"""In-memory model of the extracted program: bodies, CFG, dominators, call sites,
origin terms (backward def-use), projected path words.

All analyses run over `mir_built` bodies (source-shaped CFG, before the coroutine
transform): `await` is the `into_future -> loop { poll; switch; yield }` idiom.
"""
import re
from collections import defaultdict

# ---------------------------------------------------------------------------
# name normalisation


def strip_generics(s):
    """Remove `::<...>` generic argument groups (balanced) from a def path."""
    if s is None:
        return None
    out = []
    i = 0
    n = len(s)
    while i < n:
        if s.startswith("::<", i):
            depth = 0
            j = i + 2
            while j < n:
                c = s[j]
                if c == "<":
                    depth += 1
                elif c == ">" and s[j - 1] != "-":
                    depth -= 1
                    if depth == 0:
                        break
                j += 1
            i = j + 1
            continue
        out.append(s[i])
        i += 1
    return "".join(out)


def name_matches(name, spec):
    """spec: exact path, or a suffix starting at a `::` boundary; `re:` prefix = regex search."""
    if name is None:
        return False
    if isinstance(spec, (list, tuple, set, frozenset)):
        return any(name_matches(name, s) for s in spec)
    if spec.startswith("re:"):
        return re.search(spec[3:], name) is not None
    return name == spec or name.endswith("::" + spec)


# ---------------------------------------------------------------------------
# places / operands helpers


def place_local(pl):
    return pl if isinstance(pl, int) else pl["l"]


def place_proj(pl):
    return [] if isinstance(pl, int) else pl["p"]


def op_place(op):
    if op.get("k") in ("copy", "move"):
        return op["pl"]
    return None


def proj_str(p):
    out = []
    for e in p:
        if e == "*":
            out.append("*")
        elif "f" in e:
            out.append("." + str(e.get("n", e["f"])))
        elif "d" in e:
            out.append("@" + e["d"])
        elif "i" in e:
            out.append("[_%d]" % e["i"])
        elif "ci" in e:
            out.append("[%d]" % e["ci"])
        else:
            out.append("?")
    return "".join(out)


class Call:
    """A call terminator with a resolved callee."""
    __slots__ = ("body", "bb", "t", "fn", "raw_fn", "inst", "ga", "trait", "self_ty", "res", "local",
                 "args", "dest", "target", "line", "exp", "closure_body", "fty")

    def __init__(self, body, bb, t):
        self.body = body
        self.bb = bb
        self.t = t
        f = t["func"]
        self.raw_fn = f.get("fn")
        self.fn = strip_generics(f.get("fn")) if f.get("fn") else None
        self.inst = f.get("inst")
        self.ga = f.get("ga", [])
        self.trait = f.get("trait")
        self.self_ty = f.get("self_ty")
        self.res = strip_generics(f.get("res")) if f.get("res") else None
        self.local = bool(f.get("local")) or bool(f.get("res_local"))
        self.args = t.get("args", [])
        self.dest = t.get("dest")
        self.target = t.get("target")
        self.line = t.get("line")
        self.exp = t.get("exp")
        self.closure_body = strip_generics(t.get("closure_body"))
        self.fty = t.get("fty")

    @property
    def callee(self):
        """Most specific name: resolved impl method if any, else the declared callee."""
        return self.res or self.fn

    def names(self):
        return [n for n in (self.fn, self.res, self.inst) if n]

    def is_(self, spec):
        return name_matches(self.fn, spec) or name_matches(self.res, spec) or (
            self.inst is not None and name_matches(strip_generics(self.inst), spec))

    def site(self):
        return f"{self.body.path} bb{self.bb} -> {self.callee or self.fty} ({self.body.file}:{self.line})"

    def __repr__(self):
        return f"<Call {self.callee} @{self.body.path}:bb{self.bb}>"


_PINNED = None


def _pinned():
    global _PINNED
    if _PINNED is None:
        import json as _json
        import os as _os
        try:
            with open(_os.path.join(_os.path.dirname(_os.path.abspath(__file__)), "pinned_names.json")) as fh:
                _PINNED = _json.load(fh)
        except OSError:
            _PINNED = {"params": {}, "upvars": {}}
    return _PINNED


def _canonical_names(body, j):
    """Present parameters / captured variables under the names they had on the pinned tree (tools/gen_pinned_names.py)
    when the body still has the same parameter types / the same number of captures: position carries the semantics, the
    spelling does not, so a rename must not matter to any rule."""
    pn = _pinned()
    ent = pn["params"].get(j["path"])
    argc = j.get("argc", 0)
    locs = j["locals"]
    def _nt(t_):
        # closure / async-block types carry their source position: not part of the signature
        return re.sub(r"@[^}>]*?:\d+:\d+: \d+:\d+", "@", t_)
    if ent and len(ent["names"]) == argc and [_nt(locs[i]["ty"]) for i in range(1, argc + 1)] == [_nt(x) for x in ent["tys"]]:
        for i, nm in enumerate(ent["names"]):
            if nm is not None and locs[i + 1].get("name") != nm:
                locs[i + 1]["name_actual"] = locs[i + 1].get("name")
                locs[i + 1]["name"] = nm
    uv = pn["upvars"].get(j["path"])
    cur = j.get("upvars") or []
    if uv and len(uv) == len(cur):
        act = [u.get("name") for u in cur]
        common = set(act) & set(uv)
        # only a *rename* is undone: the captures that kept their names must sit at the same positions (otherwise the capture
        # list was reordered or changed, and position says nothing)
        if all(((a in common) == (b in common)) and (a == b or a not in common) for a, b in zip(act, uv)):
            for u, nm in zip(cur, uv):
                if u.get("name") != nm:
                    u["name_actual"] = u.get("name")
                    u["name"] = nm


class Body:
    def __init__(self, j, crate):
        self.j = j
        self.crate = crate
        self.raw_path = j["path"]
        self.path = strip_generics(j["path"])
        self.kind = j["kind"]
        self.coroutine = j["coroutine"]
        self.parent = strip_generics(j["parent"])
        self.file = j["file"]
        self.line = j["line"]
        self.argc = j["argc"]
        self.locals = j["locals"]
        self.blocks = j["blocks"]
        self.upvars = j.get("upvars", [])
        _canonical_names(self, j)
        self._calls = None
        self._succ = None
        self._pred = None
        self._dom = None
        self._defs = None
        self._reach_cache = {}

    def __repr__(self):
        return f"<Body {self.path}>"

    # -- CFG ---------------------------------------------------------------
    def term(self, bb):
        return self.blocks[bb]["t"]

    def is_cleanup(self, bb):
        return bool(self.blocks[bb].get("cleanup"))

    def succ(self, bb):
        """Normal (non-unwind) successors."""
        if self._succ is None:
            self._succ = [self._succ_of(i) for i in range(len(self.blocks))]
        return self._succ[bb]

    def _succ_of(self, bb):
        t = self.blocks[bb]["t"]
        k = t["k"]
        if k == "goto":
            return [t["target"]]
        if k == "switch":
            out = []
            for _, b in t["arms"]:
                if b not in out:
                    out.append(b)
            if t["otherwise"] not in out:
                out.append(t["otherwise"])
            return out
        if k in ("call", "drop", "assert", "falseedge", "falseunwind", "yield"):
            tg = t.get("target")
            return [tg] if tg is not None else []
        return []

    def succ_noawait(self, bb):
        """Successors with `yield` treated as a dead end: an await either completes
        (Ready edge) or the future is dropped while suspended."""
        t = self.blocks[bb]["t"]
        if t["k"] == "yield":
            return []
        return self.succ(bb)

    def preds(self, bb):
        if self._pred is None:
            self._pred = [[] for _ in self.blocks]
            for i in range(len(self.blocks)):
                for s in self.succ(i):
                    self._pred[s].append(i)
        return self._pred[bb]

    def reachable_from(self, start, succ=None, avoid=()):
        """Blocks reachable from `start` (inclusive) over normal edges not entering `avoid`."""
        succ = succ or self.succ
        avoid = set(avoid)
        seen = set()
        st = [start]
        while st:
            b = st.pop()
            if b in seen or b in avoid:
                continue
            seen.add(b)
            st.extend(succ(b))
        return seen

    def cyclic_blocks(self, succ=None):
        """Blocks lying on a cycle of the (await-collapsed by default) normal-edge CFG."""
        succ = succ or self.succ_noawait
        key = ("cyc", succ.__name__)
        if key in self._reach_cache:
            return self._reach_cache[key]
        reach = self.reachable_from(0, succ=succ)
        out = set()
        # simple: b is cyclic iff b reachable from one of its successors
        memo = {}
        for b in reach:
            for s in succ(b):
                if s not in memo:
                    memo[s] = self.reachable_from(s, succ=succ)
                if b in memo[s]:
                    out.add(b)
                    break
        self._reach_cache[key] = out
        return out

    def return_blocks(self):
        return [i for i, b in enumerate(self.blocks) if b["t"]["k"] == "return" and not b.get("cleanup")]

    def dominators(self):
        """dom[b] = set of blocks dominating b (normal edges from bb0)."""
        if self._dom is not None:
            return self._dom
        n = len(self.blocks)
        reach = self.reachable_from(0)
        order = self._rpo()
        dom = {b: None for b in reach}
        dom[0] = {0}
        changed = True
        while changed:
            changed = False
            for b in order:
                if b == 0:
                    continue
                ps = [p for p in self.preds(b) if p in reach and dom[p] is not None]
                if not ps:
                    continue
                new = set.intersection(*[dom[p] for p in ps]) | {b}
                if dom[b] != new:
                    dom[b] = new
                    changed = True
        self._dom = dom
        return dom

    def _rpo(self):
        seen = set()
        post = []
        st = [(0, iter(self.succ(0)))]
        seen.add(0)
        while st:
            b, it = st[-1]
            adv = False
            for s in it:
                if s not in seen:
                    seen.add(s)
                    st.append((s, iter(self.succ(s))))
                    adv = True
                    break
            if not adv:
                post.append(b)
                st.pop()
        return post[::-1]

    def dominates(self, a, b):
        d = self.dominators().get(b)
        return d is not None and a in d

    def all_paths_pass(self, start, goals, through, succ=None):
        """True iff every path start ->* g (g in goals) passes a block in `through`
        (start itself counts).  Equivalently: no goal reachable from start avoiding `through`."""
        succ = succ or self.succ
        through = set(through)
        if start in through:
            return True
        r = self.reachable_from(start, succ=succ, avoid=through)
        return not (r & set(goals))

    # -- calls ---------------------------------------------------------------
    def calls(self):
        if self._calls is None:
            self._calls = []
            for i, b in enumerate(self.blocks):
                if b["t"]["k"] == "call":
                    self._calls.append(Call(self, i, b["t"]))
        return self._calls

    def calls_to(self, spec, include_cleanup=False):
        return [c for c in self.calls() if c.is_(spec) and (include_cleanup or not self.is_cleanup(c.bb))]

    def call_at(self, bb):
        t = self.blocks[bb]["t"]
        if t["k"] != "call":
            return None
        for c in self.calls():
            if c.bb == bb:
                return c

    # -- definitions -----------------------------------------------------------
    def defs(self):
        """local -> list of definition records (kind, bb, idx, payload).
        kind: 'assign' (whole local), 'partial' (projection write), 'call', 'yield'."""
        if self._defs is not None:
            return self._defs
        d = defaultdict(list)
        for i, b in enumerate(self.blocks):
            if b.get("cleanup"):
                continue
            for si, s in enumerate(b["s"]):
                if s["k"] == "assign":
                    lhs = s["lhs"]
                    if isinstance(lhs, int):
                        d[lhs].append(("assign", i, si, s["rv"]))
                    else:
                        d[lhs["l"]].append(("partial", i, si, s))
                elif s["k"] == "setdiscr":
                    d[place_local(s["lhs"])].append(("partial", i, si, s))
            t = b["t"]
            if t["k"] == "call":
                dst = t["dest"]
                if isinstance(dst, int):
                    d[dst].append(("call", i, None, t))
                else:
                    d[dst["l"]].append(("partial", i, None, t))
            elif t["k"] == "yield":
                ra = t["resume_arg"]
                d[place_local(ra)].append(("yield", i, None, t))
        self._defs = d
        return d

    def local_ty(self, l):
        return self.locals[l]["ty"]

    def local_name(self, l):
        return self.locals[l].get("name")

    def local_by_name(self, name):
        return [i for i, l in enumerate(self.locals) if l.get("name") == name]

    def loc(self, bb=None):
        if bb is None:
            return f"{self.file}:{self.line}"
        return f"{self.file}:{self.blocks[bb]['t'].get('line')}"


# ---------------------------------------------------------------------------
# origin terms
#
# Terms are nested tuples:
#   ('param', idx, name)            argument of the body
#   ('upvar', name)                 captured variable of a closure/coroutine (field of _1)
#   ('const', value_string)         literal / evaluated constant
#   ('named', path)                 named constant / static (unevaluated)
#   ('fnptr', path)                 function item used as a value
#   ('call', callee, (args...), bb) result of a call
#   ('field', base, name)           field projection
#   ('variant', base, name)         enum downcast
#   ('deref', base) ('ref', base)
#   ('agg', kind, name, (ops...))   aggregate
#   ('binop', op, a, b) ('unop', op, a) ('discr', base) ('cast', base, to)
#   ('phi', (t1, t2, ...))          several reaching definitions
#   ('resume',)                     coroutine resume argument
#   ('unknown', why)

IDENTITY_CALLS = (
    "clone::Clone::clone",
    "convert::Into::into",
    "convert::From::from",
    "ops::deref::Deref::deref",
    "ops::deref::DerefMut::deref_mut",
    "convert::AsRef::as_ref",
    "convert::AsMut::as_mut",
    "borrow::Borrow::borrow",
    "borrow::ToOwned::to_owned",
    "future::into_future::IntoFuture::into_future",
    "pin::Pin::new_unchecked",
    "pin::Pin::new",
    "pin::Pin::as_mut",
    "pin::Pin::get_mut",
    "pin::Pin::get_unchecked_mut",
    "convert::identity",
    "iter::traits::collect::IntoIterator::into_iter",
    "sync::Arc::new",
    "boxed::Box::new",
    "boxed::Box::pin",
)


def fold_int(t, _depth=0):
    """Integer value of a constant term, folding arithmetic on constants (named constants, `OFFSET + 1`)."""
    import re as _re
    if _depth > 8:
        return None
    s = strip_identity(t)
    if s[0] == "const":
        m = _re.match(r"^(-?\d+)(?:_[iu](?:8|16|32|64|128|size))?$", str(s[1]))
        return int(m.group(1)) if m else None
    if s[0] == "field" and s[2] == "0" and s[1][0] == "binop" and s[1][1].endswith("WithOverflow"):
        s = ("binop", s[1][1][:-len("WithOverflow")], s[1][2], s[1][3])
    if s[0] == "binop" and len(s) >= 4:
        a, b = fold_int(s[2], _depth + 1), fold_int(s[3], _depth + 1)
        if a is None or b is None:
            return None
        try:
            return {"Add": a + b, "Sub": a - b, "Mul": a * b, "Shl": a << b, "Shr": a >> b, "BitOr": a | b, "BitAnd": a & b, "BitXor": a ^ b,
                    "Div": a // b if b else None, "Rem": a % b if b else None, "AddUnchecked": a + b, "SubUnchecked": a - b}.get(s[1])
        except (ValueError, OverflowError):
            return None
    return None


class Origins:
    """Backward def-use resolution inside one body."""

    def __init__(self, body, max_depth=40):
        self.body = body
        self.max_depth = max_depth
        self.upvar_names = {}
        for uv in body.upvars:
            pl = uv["place"]
            if not isinstance(pl, int) and pl["l"] == 1:
                # key: tuple of field indices
                key = tuple(e["f"] for e in pl["p"] if isinstance(e, dict) and "f" in e)
                self.upvar_names[key] = uv["name"]

    def of_operand(self, op, depth=0, seen=frozenset()):
        k = op.get("k")
        if k in ("copy", "move"):
            return self.of_place(op["pl"], depth, seen)
        if k == "const":
            if "fn" in op:
                return ("fnptr", strip_generics(op["fn"]))
            if "int" in op and op.get("ty") != "bool":
                return ("const", str(op["int"]))
            if "static" in op:
                return ("static", op["static"])
            if "uneval" in op:
                return ("named", op["uneval"], op.get("ev"))
            return ("const", op.get("v"))
        return ("unknown", "operand")

    def of_place(self, pl, depth=0, seen=frozenset()):
        l = place_local(pl)
        proj = place_proj(pl)
        # closure / coroutine upvars: _1.field (through refs)
        if l == 1 and self.body.kind == "Closure" and proj:
            key = []
            rest = list(proj)
            # consume leading derefs and the first field
            while rest and rest[0] == "*":
                rest.pop(0)
            if rest and isinstance(rest[0], dict) and "f" in rest[0]:
                key.append(rest.pop(0)["f"])
                nm = self.upvar_names.get(tuple(key))
                if nm is not None:
                    base = ("upvar", nm)
                    while rest and rest[0] == "*":
                        rest.pop(0)
                    return self._apply_proj(base, rest)
        base = self.of_local(l, depth, seen)
        return self._apply_proj(base, proj)

    def _apply_proj(self, base, proj):
        t = base
        for e in proj:
            if e == "*":
                t = simplify(("deref", t))
            elif "f" in e:
                t = simplify(("field", t, str(e.get("n", e["f"]))))
            elif "d" in e:
                t = ("variant", t, e["d"])
            elif "i" in e:
                it = self.of_local(e["i"]) if hasattr(self, "body") else ("unknown",)
                if it[0] != "const":
                    v_ = fold_int(it)          # `buf[OFFSET + 1]`: a constant expression is a constant index
                    if v_ is not None:
                        it = ("const", str(v_))
                t = ("index", t, it[1] if it[0] == "const" else "_%d" % e["i"])
            elif "ci" in e:
                t = ("index", t, str(e["ci"]))
            else:
                t = ("proj?", t)
        return t

    def of_local(self, l, depth=0, seen=frozenset()):
        body = self.body
        if depth > self.max_depth:
            return ("unknown", "depth")
        if l in seen:
            return ("cycle", l)
        if 1 <= l <= body.argc:
            if l == 1 and body.kind == "Closure":
                return ("env",)
            ds = body.defs().get(l, [])
            if not [d for d in ds if d[0] != "partial"]:
                return ("param", l, body.local_name(l))
        ds = [d for d in body.defs().get(l, []) if d[0] != "partial"]
        if not ds:
            partial = body.defs().get(l, [])
            if partial:
                return ("partial", l, body.local_name(l))
            return ("undef", l)
        seen = seen | {l}
        terms = []
        for d in ds:
            terms.append(self._of_def(d, depth + 1, seen))
        uniq = []
        for t in terms:
            if t not in uniq:
                uniq.append(t)
        if len(uniq) == 1:
            return uniq[0]
        return ("phi", tuple(uniq))

    def _apply_new_closure(self, c, args, bb):
        """`let f = || expr(captures); .. f() ..` with a straight-line closure that the pinned tree does not have: the call
        denotes `expr` with the captures put back (a closure introduced in place of a repeated expression)."""
        try:
            from . import lib as _lib
            prog = getattr(_lib._TLS, "prog", None)
            if prog is None or not args:
                return None
            env = args[0]
            while env[0] in ("ref", "deref", "copy", "move"):
                env = env[1]
            if not (env[0] == "agg" and env[1] == "closure" and (c.closure_body is None or env[2] == c.closure_body)):
                return None
            cpath = env[2]
            if cpath in _lib._pinned_set():
                return None
            kb = prog.bodies.get(cpath)
            if kb is None or kb.coroutine:
                return None
            if any(bl["t"]["k"] == "switch" for bl in kb.blocks if not bl.get("cleanup")):
                return None
            ret = Origins(kb).of_local(0)
            if any(isinstance(x, tuple) and x and x[0] in ("phi", "unknown", "cycle", "undef", "resume") for x in walk(ret)):
                return None
            names = [u["name"] for u in kb.upvars]
            caps = env[3]

            def repl(t):
                if isinstance(t, tuple):
                    if len(t) == 2 and t[0] == "upvar" and t[1] in names and names.index(t[1]) < len(caps):
                        return caps[names.index(t[1])]
                    return tuple(repl(x) for x in t)
                return t
            mapping = {}
            if len(args) > 1:
                tup = args[1]
                while tup[0] in ("ref", "deref", "copy", "move"):
                    tup = tup[1]
                if tup[0] == "agg" and tup[1] == "tuple":
                    mapping = {2 + i: el for i, el in enumerate(tup[3])}
            return subst_params(repl(ret), mapping, tag=f"closure@bb{bb}")
        except Exception:
            return None

    def _of_def(self, d, depth, seen):
        kind, bb, si, payload = d
        if kind == "assign":
            return self.of_rvalue(payload, depth, seen)
        if kind == "call":
            c = self.body.call_at(bb)
            args = tuple(self.of_operand(a, depth, seen) for a in c.args)
            name = c.fn or ("indirect:" + str(c.fty))
            if c.closure_body:
                name = "closure:" + c.closure_body
            if c.closure_body or name_matches(name, ("ops::function::Fn::call", "ops::function::FnMut::call_mut", "ops::function::FnOnce::call_once")):
                app = self._apply_new_closure(c, args, bb)
                if app is not None:
                    return app
            return simplify(("call", name, args, bb))
        if kind == "yield":
            return ("resume",)
        return ("unknown", kind)

    def of_rvalue(self, rv, depth=0, seen=frozenset()):
        k = rv["k"]
        if k == "use":
            return self.of_operand(rv["op"], depth, seen)
        if k in ("ref", "rawptr"):
            return simplify(("ref", self.of_place(rv["pl"], depth, seen)))
        if k == "cast":
            return ("cast", self.of_operand(rv["op"], depth, seen), rv["to"])
        if k == "binop":
            return ("binop", rv["op"], self.of_operand(rv["a"], depth, seen), self.of_operand(rv["b"], depth, seen))
        if k == "unop":
            return ("unop", rv["op"], self.of_operand(rv["a"], depth, seen))
        if k == "discr":
            return ("discr", self.of_place(rv["pl"], depth, seen))
        if k == "agg":
            ops = tuple(self.of_operand(o, depth, seen) for o in rv["ops"])
            ak = rv["ak"]
            if ak == "adt":
                return ("agg", "adt", rv["adt"] + "::" + rv["variant"], ops, tuple(rv.get("fields", [])))
            if ak in ("closure", "coroutine", "coroutine_closure"):
                return ("agg", ak, strip_generics(rv["body"]), ops, ())
            return ("agg", ak, "", ops, ())
        if k == "repeat":
            return ("repeat", self.of_operand(rv["op"], depth, seen), rv["n"])
        return ("unknown", "rvalue:" + k)


class ChoiceOrigins(Origins):
    """Origins in which designated multi-definition locals are resolved to ONE chosen definition (the one a given
    path passed last) instead of a flow-insensitive phi.  `touched` records which of them an evaluation met unresolved."""

    def __init__(self, body, multi, choice):
        super().__init__(body)
        self.multi = multi
        self.choice = choice
        self.touched = set()

    def of_local(self, l, depth=0, seen=frozenset()):
        if l in self.multi and l not in seen:
            if l in self.choice:
                if depth > self.max_depth:
                    return ("unknown", "depth")
                return self._of_def(self.multi[l][self.choice[l]], depth + 1, seen | {l})
            self.touched.add(l)
        return super().of_local(l, depth, seen)


def simplify(t):
    """Local algebraic simplifications of origin terms."""
    if t[0] == "deref":
        b = t[1]
        if b[0] == "ref":
            return b[1]
        return t
    if t[0] == "ref":
        b = t[1]
        if b[0] == "deref":
            return b[1]
        return t
    if t[0] == "field":
        b, name = t[1], t[2]
        if b[0] == "agg":
            ops = b[3]
            fields = b[4] if len(b) > 4 else ()
            if fields and name in fields:
                i = fields.index(name)
                if i < len(ops):
                    return ops[i]
            if name.isdigit() and int(name) < len(ops) and (b[1] in ("tuple",) or not fields or fields[0].isdigit()):
                return ops[int(name)]
        if b[0] == "phi":
            return ("phi", tuple(simplify(("field", x, name)) for x in b[1]))
        return t
    return t


def subst_params(t, mapping, tag=None):
    """Replace ('param', i, name) leaves of an origin term by mapping[i] (caller-side terms) and re-simplify.
    `tag`: call-site block numbers inside the substituted (callee) term are rewritten to f"{tag}#bb{n}" so that they
    can never be confused with block numbers of the caller."""
    if isinstance(t, tuple):
        if not t:
            return t
        if not isinstance(t[0], str):
            return tuple(subst_params(x, mapping, tag) for x in t)
        if t and t[0] == "param" and len(t) >= 2 and t[1] in mapping:
            return mapping[t[1]]
        if t and t[0] == "call" and len(t) >= 4 and tag is not None and isinstance(t[3], int):
            return simplify(("call", t[1], tuple(subst_params(x, mapping, tag) for x in t[2]), f"{tag}#bb{t[3]}") + tuple(t[4:]))
        return simplify(tuple(subst_params(x, mapping, tag) for x in t))
    if isinstance(t, list):
        return [subst_params(x, mapping, tag) for x in t]
    return t


class SubstOrigins:
    """Origins of a callee body with its parameters bound to caller-side terms (inlined view)."""

    def __init__(self, body, mapping):
        self.body = body
        self.base = Origins(body)
        self.mapping = mapping
        self.upvar_names = self.base.upvar_names
        self.max_depth = self.base.max_depth

    def _s(self, t):
        return subst_params(t, self.mapping, self.body.path)

    def of_operand(self, op, *a, **k):
        return self._s(self.base.of_operand(op, *a, **k))

    def of_place(self, pl, *a, **k):
        return self._s(self.base.of_place(pl, *a, **k))

    def of_local(self, l, *a, **k):
        return self._s(self.base.of_local(l, *a, **k))

    def of_rvalue(self, rv, *a, **k):
        return self._s(self.base.of_rvalue(rv, *a, **k))


def strip_identity(t, extra=()):
    """See through identity-like calls, refs, derefs, casts (recursively at the root)."""
    while True:
        if t[0] in ("ref", "deref"):
            t = t[1]
            continue
        if t[0] == "cast":
            t = t[1]
            continue
        if t[0] == "call" and (name_matches(t[1], IDENTITY_CALLS) or name_matches(t[1], tuple(extra))) and t[2]:
            t = t[2][0]
            continue
        return t


def walk(t):
    """Yield every sub-term."""
    yield t
    for x in t[1:]:
        if isinstance(x, tuple):
            if x and isinstance(x[0], str):
                yield from walk(x)
            else:
                for y in x:
                    if isinstance(y, tuple) and y and isinstance(y[0], str):
                        yield from walk(y)


def term_calls(t):
    return [x for x in walk(t) if x[0] == "call"]


def term_has_call(t, spec):
    return any(name_matches(x[1], spec) for x in term_calls(t))


def term_mentions(t, pred):
    return any(pred(x) for x in walk(t))


def show(t, depth=0):
    if depth > 8:
        return "…"
    k = t[0]
    if k == "param":
        return f"param#{t[1]}:{t[2]}"
    if k == "upvar":
        return f"upvar:{t[1]}"
    if k == "const":
        return f"{t[1]}"
    if k == "named":
        return f"{t[1]}"
    if k == "static":
        return f"static {t[1]}"
    if k == "fnptr":
        return f"fn {t[1]}"
    if k == "call":
        return f"{short(t[1])}({', '.join(show(a, depth + 1) for a in t[2])})"
    if k == "field":
        return f"{show(t[1], depth + 1)}.{t[2]}"
    if k == "variant":
        return f"({show(t[1], depth + 1)} as {t[2]})"
    if k == "deref":
        return f"*{show(t[1], depth + 1)}"
    if k == "ref":
        return f"&{show(t[1], depth + 1)}"
    if k == "agg":
        return f"{short(t[2]) or t[1]}{{{', '.join(show(a, depth + 1) for a in t[3])}}}"
    if k == "binop":
        return f"{t[1]}({show(t[2], depth + 1)}, {show(t[3], depth + 1)})"
    if k == "unop":
        return f"{t[1]}({show(t[2], depth + 1)})"
    if k == "discr":
        return f"discr({show(t[1], depth + 1)})"
    if k == "cast":
        return f"({show(t[1], depth + 1)} as _)"
    if k == "phi":
        return "phi(" + " | ".join(show(a, depth + 1) for a in t[1]) + ")"
    if k == "index":
        return f"{show(t[1], depth + 1)}[{t[2]}]"
    return str(t)


def short(path):
    if not path:
        return path
    parts = path.split("::")
    return "::".join(parts[-2:]) if len(parts) > 1 else path


# ---------------------------------------------------------------------------
# whole program


class Program:
    def __init__(self, crates):
        self.crates = crates
        self.bodies = {}          # path -> Body (first) ; duplicates in self.dups
        self.by_crate = defaultdict(list)
        self.adts = {}
        self.impls = []
        self.fns = {}
        for cname, data in crates.items():
            for bj in data["bodies"]:
                b = Body(bj, cname)
                self.by_crate[cname].append(b)
                key = b.path
                if key in self.bodies:
                    # anonymous duplicates (tracing callsite consts); keep all under a list key
                    n = 1
                    while f"{key}#{n}" in self.bodies:
                        n += 1
                    key = f"{key}#{n}"
                self.bodies[key] = b
            for a in data["adts"]:
                self.adts[a["path"]] = a
            for im in data["impls"]:
                im = dict(im)
                im["crate"] = cname
                self.impls.append(im)
            for f in data["fns"]:
                self.fns[f["path"]] = f
        self._callers = None

    # -- selection ------------------------------------------------------------
    def body(self, path):
        return self.bodies.get(path)

    def find_bodies(self, spec):
        return [b for p, b in self.bodies.items() if name_matches(b.path, spec)]

    def children(self, body, kind=None):
        """Closures/coroutines whose parent is `body`."""
        inl = set(getattr(body, "inlined", []) or [])
        out = [b for b in self.bodies.values() if (b.parent == body.path or b.parent in inl) and b.kind == "Closure"]
        return sorted(out, key=lambda b: b.path)

    def coroutine_of(self, fn_path):
        """The coroutine body of `async fn fn_path` (its single coroutine child)."""
        b = self.body(fn_path)
        if b is None:
            return None
        kids = [c for c in self.children(b) if c.coroutine]
        if len(kids) == 1:
            return kids[0]
        return None

    def all_calls(self, crates=None):
        for b in self.bodies.values():
            if crates and b.crate not in crates:
                continue
            for c in b.calls():
                yield c

    def callers_of(self, spec, crates=None, include_cleanup=False):
        out = []
        for c in self.all_calls(crates):
            if c.is_(spec) and (include_cleanup or not c.body.is_cleanup(c.bb)):
                out.append(c)
        return out

    def fn_refs(self, spec, crates=None):
        """Uses of a function item as a *value* (not in callee position)."""
        out = []
        for b in self.bodies.values():
            if crates and b.crate not in crates:
                continue
            for i, bl in enumerate(b.blocks):
                for s in bl["s"]:
                    if s["k"] == "assign":
                        for op in rvalue_operands(s["rv"]):
                            if op.get("k") == "const" and "fn" in op and (
                                    name_matches(strip_generics(op["fn"]), spec)
                                    or name_matches(strip_generics(op.get("res")), spec)):
                                out.append((b, i))
                t = bl["t"]
                if t["k"] == "call":
                    for op in t["args"]:
                        if op.get("k") == "const" and "fn" in op and (
                                name_matches(strip_generics(op["fn"]), spec)
                                or name_matches(strip_generics(op.get("res")), spec)):
                            out.append((b, i))
        return out

    def impl_methods(self, type_name, trait_name, method):
        """Bodies `<Type<..> as ..Trait<..>>::method` (trait impl methods), matched structurally."""
        out = []
        for p, b in self.bodies.items():
            if not p.startswith("<") or b.kind != "AssocFn":
                continue
            m = re.match(r"^<(.+) as (.+)>::([A-Za-z0-9_]+)$", b.path)
            if not m:
                continue
            ty, tr, me = m.groups()
            ty0 = re.split(r"[<]", ty, 1)[0].lstrip("&").strip()
            tr0 = re.split(r"[<]", tr, 1)[0]
            if me == method and (ty0 == type_name or ty0.endswith("::" + type_name)) and (tr0 == trait_name or tr0.endswith("::" + trait_name)):
                out.append(b)
        return out

    def impls_of(self, trait_spec):
        return [im for im in self.impls if im["trait"] and name_matches(strip_generics(im["trait"]), trait_spec)]

    # -- call graph ------------------------------------------------------------
    def local_callees(self, body):
        """Paths of workspace bodies directly reachable from `body`: resolved local calls,
        closures/coroutines it creates, local fn items it mentions as values."""
        out = set()
        for c in body.calls():
            if body.is_cleanup(c.bb):
                pass
            for n in (c.res, c.fn):
                if n and n in self.bodies:
                    out.add(n)
            # raw (generic) path of inherent methods equals body path after stripping generics
            if c.closure_body and c.closure_body in self.bodies:
                out.add(c.closure_body)
            for op in c.args:
                if op.get("k") == "const" and "fn" in op:
                    for n in (strip_generics(op.get("res")), strip_generics(op["fn"])):
                        if n and n in self.bodies:
                            out.add(n)
        for bl in body.blocks:
            for s in bl["s"]:
                if s["k"] != "assign":
                    continue
                rv = s["rv"]
                if rv["k"] == "agg" and rv["ak"] in ("closure", "coroutine", "coroutine_closure"):
                    if strip_generics(rv["body"]) in self.bodies:
                        out.add(strip_generics(rv["body"]))
                for op in rvalue_operands(rv):
                    if op.get("k") == "const" and "fn" in op:
                        for n in (strip_generics(op.get("res")), strip_generics(op["fn"])):
                            if n and n in self.bodies:
                                out.add(n)
        return out

    def reachable_bodies(self, entries, extra_edges=None, stop=()):
        seen = {}
        st = [(e, None) for e in entries]
        while st:
            p, frm = st.pop()
            if p in seen or p in stop or any(p.startswith(s_ + "::{") for s_ in stop):
                continue
            b = self.bodies.get(p)
            if b is None:
                continue
            seen[p] = frm
            for q in self.local_callees(b):
                st.append((q, p))
            if extra_edges:
                for q in extra_edges(b):
                    st.append((q, p))
        return seen


def rvalue_operands(rv):
    k = rv["k"]
    if k in ("use", "cast", "repeat"):
        return [rv["op"]]
    if k == "binop":
        return [rv["a"], rv["b"]]
    if k == "unop":
        return [rv["a"]]
    if k == "agg":
        return rv["ops"]
    return []


# ---------------------------------------------------------------------------
# projected path words (R-PATHSEQ / R-TABLE core)


class NotLoopFree(Exception):
    pass


def path_words(body, start, sym_block, sym_edge=None, stops=(), succ=None, max_words=4096):
    """Set of projected words over all paths from `start` to a terminal block
    (return / no successor / a block in `stops`).

    sym_block(bb) -> list of symbols emitted when the block executes (statements+terminator)
    sym_edge(bb, succ_bb) -> list of symbols emitted when that edge is taken
    Words end with the pseudo-symbol ('end', kind, bb) where kind in return/stop/dead/unreachable.
    Cycles (SCCs) that emit no symbol are collapsed; a cycle that emits a symbol raises NotLoopFree.
    """
    succ = succ or body.succ_noawait
    stops = set(stops)
    sym_edge = sym_edge or (lambda a, b: [])

    # Tarjan SCC over reachable subgraph
    reach = []
    seen = set()
    st = [start]
    while st:
        b = st.pop()
        if b in seen:
            continue
        seen.add(b)
        reach.append(b)
        if b in stops:
            continue
        for s in succ(b):
            st.append(s)
    index = {}
    low = {}
    onst = set()
    stack = []
    comp = {}
    comps = []
    counter = [0]

    def succs(b):
        return [] if b in stops else succ(b)

    # iterative Tarjan
    for root in reach:
        if root in index:
            continue
        work = [(root, 0)]
        while work:
            v, pi = work.pop()
            if pi == 0:
                index[v] = low[v] = counter[0]
                counter[0] += 1
                stack.append(v)
                onst.add(v)
            recurse = False
            ss = succs(v)
            for i in range(pi, len(ss)):
                w = ss[i]
                if w not in index:
                    work.append((v, i + 1))
                    work.append((w, 0))
                    recurse = True
                    break
                elif w in onst:
                    low[v] = min(low[v], index[w])
            if recurse:
                continue
            if low[v] == index[v]:
                c = []
                while True:
                    w = stack.pop()
                    onst.discard(w)
                    comp[w] = len(comps)
                    c.append(w)
                    if w == v:
                        break
                comps.append(c)
            if work:
                u = work[-1][0]
                low[u] = min(low[u], low[v])

    # check symbol-free cycles
    for ci, c in enumerate(comps):
        cyc = len(c) > 1 or (c[0] in succs(c[0]))
        if not cyc:
            continue
        cs = set(c)
        for b in c:
            if sym_block(b):
                raise NotLoopFree(f"{body.path}: block bb{b} in a cycle emits {sym_block(b)}")
            for s in succs(b):
                if s in cs and sym_edge(b, s):
                    raise NotLoopFree(f"{body.path}: edge bb{b}->bb{s} in a cycle emits {sym_edge(b, s)}")

    memo = {}

    def comp_words(ci):
        if ci in memo:
            return memo[ci]
        c = comps[ci]
        cs = set(c)
        cyc = len(c) > 1 or (c[0] in succs(c[0]))
        res = set()
        if not cyc:
            b = c[0]
            pre = tuple(sym_block(b))
            t = body.blocks[b]["t"]["k"]
            ss = succs(b)
            if b in stops:
                res.add(pre + (("end", "stop", b),))
            elif not ss:
                kind = {"return": "return", "unreachable": "unreachable", "yield": "suspend"}.get(t, "dead")
                if kind == "dead" and t == "call":
                    kind = "diverge"
                # `unreachable` terminators are the statically impossible arms of exhaustive
                # matches: no execution ends there, so they contribute no word
                if kind != "unreachable":
                    res.add(pre + (("end", kind, b),))
            else:
                for s in ss:
                    e = sym_edge(b, s)
                    if e is None:
                        continue        # statically infeasible edge (no enum variant left for it)
                    e = tuple(e)
                    for w in comp_words(comp[s]):
                        res.add(pre + e + w)
                        if len(res) > max_words:
                            raise NotLoopFree(f"{body.path}: word set too large")
        else:
            # symbol-free SCC: union of exits
            exits = False
            for b in c:
                for s in succs(b):
                    if s not in cs:
                        e = sym_edge(b, s)
                        if e is None:
                            continue
                        exits = True
                        e = tuple(e)
                        for w in comp_words(comp[s]):
                            res.add(e + w)
            if not exits:
                res.add((("end", "diverge", c[0]),))
        memo[ci] = res
        return res

    import sys
    old = sys.getrecursionlimit()
    sys.setrecursionlimit(max(old, 10000))
    try:
        return comp_words(comp[start])
    finally:
        sys.setrecursionlimit(old)


# ---------------------------------------------------------------------------
# switch edges


WELL_KNOWN_ENUMS = {
    "core::option::Option": {0: "None", 1: "Some"},
    "core::result::Result": {0: "Ok", 1: "Err"},
    "core::ops::control_flow::ControlFlow": {0: "Continue", 1: "Break"},
    "core::task::poll::Poll": {0: "Ready", 1: "Pending"},
}


def switch_info(body, bb, origins=None):
    """For a switch terminator: (subject_term, {succ_bb: set(labels)}).
    If the discriminant local is defined by `discriminant(place)`, labels are variant names
    and subject is the origin of that place; for bools labels are 'true'/'false';
    otherwise integer values."""
    t = body.blocks[bb]["t"]
    if t["k"] != "switch":
        return None
    origins = origins or Origins(body)
    op = t["discr"]
    pl = op_place(op)
    labels = defaultdict(set)
    subject = origins.of_operand(op)
    variants = None
    if pl is not None and isinstance(pl, int):
        ds = [d for d in body.defs().get(pl, []) if d[0] == "assign" and d[3]["k"] == "discr"]
        if len(ds) == 1 and len(body.defs().get(pl, [])) == 1:
            rv = ds[0][3]
            subject = ("discr", origins.of_place(rv["pl"]))
            if "variants" in rv:
                variants = {d: n for n, d in rv["variants"]}
    if t["dty"] == "bool":
        for v, b in t["arms"]:
            labels[b].add("false" if v == 0 else "true")
        labels[t["otherwise"]].add("true" if any(v == 0 for v, _ in t["arms"]) else "other")
    elif variants is not None:
        used = set()
        for v, b in t["arms"]:
            labels[b].add(variants.get(v, str(v)))
            used.add(v)
        rest = [n for d, n in variants.items() if d not in used]
        for n in rest:
            labels[t["otherwise"]].add(n)
        if not rest:
            labels[t["otherwise"]]  # unreachable otherwise
    else:
        for v, b in t["arms"]:
            labels[b].add(str(v))
        labels[t["otherwise"]].add("other")
    return subject, dict(labels)
