"""C03 — Dialing with an expected identity only ever reaches that identity."""
from .engine import AnchorLost, Undecidable
from .lib import *
from .mir import Origins, show, strip_identity, walk, name_matches, term_has_call

CM = "anemo::network::connection_manager"
MGR = f"{CM}::ConnectionManager"
CR = "anemo::crypto"
EV = f"{CR}::ExpectedCertVerifier"

EXPLANATION = """
Decides the wiring and ordering facts that make a pinned dial reach only the pinned identity: in
dial_peer_task the pinned connect is the only connect on the Some(peer_id) edge and carries that very
payload, which flows unchanged through connect_with_expected_peer_id →
client_config_with_expected_server_identity → ExpectedCertVerifier(_, id) → rustls; in
ExpectedCertVerifier::verify_server_cert every path to Ok computes the presented certificate's id,
compares it with the pinned id (mismatch edge → Err only) and only then delegates to CertVerifier
with the same certificate (pin before validation, pin never skipped). In wire::handshake the listener
side returns Ok only after open_uni → write_version_frame → finish → await stopped (acknowledgement
consumed by the dialer) and the dialer side only after accept_uni + a successful read_version_frame;
connections reach ActivePeers::add / a request handler only via handle_connecting_result's Ok arm whose
value originates from wire::handshake; the id returned to the caller is Connection::peer_id() of the
registered connection and add_peer dominates the reply; inside add_peer every path to return passes
ActivePeers::add(own id, the connection handed in) and add_peer never closes a connection itself, so
"answered Ok" implies the reached peer is (or already was) in the connected set - every returning path of
ActivePeersInner::add leaves an entry for that peer (C04.2a re-evaluated); the returned id is the key of the first
(end-entity) certificate of that very connection (C01.7 re-evaluated).
The connect API always carries the dial out: every return of NetworkInner::connect passes the ConnectRequest(addr, expected id) it sent and a success is the manager's reply (C03.10).
The pinned verifier keeps demanding the proof of possession: its handshake-signature checks are rustls' own (C01.2/C01.3 re-evaluated).
"""
TRUSTED = ["rustls calls the configured ServerCertVerifier for every handshake", "C01's chain (identity = verified key)"]
NOT_DECIDED = ["datagram loss during the handshake", "timing of concurrent dials", "the impostor's cryptographic inability (trusted base of C01)"]
ASSUMPTIONS = []


def _reach_avoiding(b, start, goal, avoid, via):
    """is there a path start -> via -> goal that does not pass `avoid`?"""
    r1 = b.reachable_from(start, avoid=(avoid,))
    if via not in r1:
        return False
    return goal in b.reachable_from(via, avoid=(avoid,))


def run(cx):
    prog = cx.prog

    with cx.ob("C03.1", "R-TABLE", "dial_peer_task: pinned connect on the Some(id) edge with that id; unpinned connect only on the None edge") as ob:
        task = cx.coroutine(f"{MGR}::dial_peer_task")
        kids = [k for k in prog.children(task) if k.coroutine]
        ob.floor(kids, 1, "async block in dial_peer_task", exact=True)
        b = kids[0]

        def call_sym(c, o):
            if name_matches(c.fn, "anemo::endpoint::Endpoint::connect_with_expected_peer_id"):
                t = strip_identity(o.of_operand(c.args[2]))
                ok = t[0] == "field" and t[1][0] == "variant" and t[1][2] == "Some" and strip_identity(t[1][1]) == ("upvar", "peer_id")
                return "connect_pinned(payload)" if ok else f"connect_pinned(?{show(t)})"
            if name_matches(c.fn, "anemo::endpoint::Endpoint::connect"):
                return "connect_unpinned"
            if name_matches(c.fn, ("anemo::endpoint::Endpoint::connect_with_client_config", "quinn::endpoint::Endpoint::connect", "quinn::endpoint::Endpoint::connect_with")):
                return "connect_raw?"
            if name_matches(c.fn, "anemo::network::wire::handshake"):
                t = o.of_operand(c.args[0])
                ok = term_has_call(t, "future::future::Future::poll") and any(x[0] == "variant" and x[2] == "Continue" for x in walk(t))
                return "handshake(connection)" if ok else "handshake(?)"
            return None

        def extra(a, bb, subj, labels, o):
            if subj[0] == "discr" and strip_identity(subj[1]) == ("upvar", "peer_id"):
                return "pin=" + "|".join(sorted(labels))
            return None
        ws = seq_words(b, call_sym, None, extra)
        okw = {fmt_word(w) for w in ok_words(ws)}
        ob.require(okw == {"pin=Some connect_pinned(payload) handshake(connection) <return>", "pin=None connect_unpinned handshake(connection) <return>"},
                   "dial/words", f"dial_peer_task success paths: {sorted(okw)}", b.path, b.loc())
        ob.set_sample({"body": b.path, "words": sorted(okw)})
        # result of the task = result of the handshake, under the connect timeout; oneshot and target id travel with it
        to = Origins(task)
        rets = [s for bl in task.blocks if not bl.get("cleanup") for s in bl["s"] if s["k"] == "assign" and s["rv"]["k"] == "agg" and s["rv"].get("adt") == f"{CM}::ConnectingOutput"]
        ob.floor(rets, 1, "ConnectingOutput in dial_peer_task", exact=True)
        t = to.of_rvalue(rets[0]["rv"])
        f = dict(zip(t[4], t[3]))
        ok = term_has_call(f["connecting_result"], "tokio::time::timeout::timeout") and any(x[0] == "agg" and x[1] == "coroutine" and x[2] == b.path for x in walk(f["connecting_result"]))
        ob.require(ok, "dial/result-from-handshake", f"connecting_result = {show(f['connecting_result'])[:140]}", task.path)
        mo = strip_identity(f["maybe_oneshot"])
        ob.require(mo[0] == "agg" and mo[2].endswith("Option::Some") and strip_identity(mo[3][0]) == ("upvar", "oneshot"), "dial/oneshot", f"maybe_oneshot = {show(mo)}", task.path)

    with cx.ob("C03.2", "R-FLOW", "the expected id flows unchanged into ExpectedCertVerifier.1 and that verifier is the one handed to rustls") as ob:
        b = cx.body("anemo::endpoint::Endpoint::connect_with_expected_peer_id")
        o = Origins(b)
        cc = b.calls_to("anemo::config::EndpointConfig::client_config_with_expected_server_identity")
        ob.floor(cc, 1, "client_config_with_expected_server_identity call", exact=True)
        ob.require(is_param(arg_origin(cc[0], 1, o), "peer_id"), "connect_pinned/id-arg", f"expected id argument is {show(arg_origin(cc[0], 1, o))}", b.path)
        w = b.calls_to("anemo::endpoint::Endpoint::connect_with_client_config")
        ob.floor(w, 1, "connect_with_client_config call", exact=True)
        t = strip_identity(arg_origin(w[0], 1, o))
        ob.require(t[0] == "call" and t[3] == cc[0].bb and w[0].dest == 0 and is_param(arg_origin(w[0], 2, o), "address"), "connect_pinned/config-used",
                   f"pinned dial uses config {show(t)[:80]}", b.path)
        kb = cx.body("anemo::config::EndpointConfig::client_config_with_expected_server_identity")
        ko = Origins(kb)
        wv = kb.calls_to("with_custom_certificate_verifier")
        ob.floor(wv, 1, "with_custom_certificate_verifier in pinned client config", exact=True)
        t = ko.of_operand(wv[0].args[1])
        aggs = [x for x in walk(t) if x[0] == "agg" and x[2] == f"{EV}::ExpectedCertVerifier"]
        ob.require(len(aggs) == 1 and is_param(aggs[0][3][1], "peer_id"), "pinned-config/verifier-carries-id", f"verifier handed to rustls: {show(t)[:160]}", kb.path)
        ret = ko.of_local(0)
        ob.require(term_has_call(ret, "with_custom_certificate_verifier"), "pinned-config/returned", "returned client config is not the one built with the pinned verifier", kb.path)
        check_constructed_only_in(ob, prog, EV, [kb.path, f"<{EV} as core::clone::Clone>::clone"])
        check_field_writers(ob, prog, EV, "1", [], kinds=("mutref", "write"))
        check_callers(ob, prog, "anemo::config::EndpointConfig::client_config_with_expected_server_identity", [b.path], exact=1, what="pinned client config")

    with cx.ob("C03.3", "R-MUSTPASS", "ExpectedCertVerifier::verify_server_cert: id of presented cert compared with the pin before delegating; mismatch → Err") as ob:
        check_pin_verifier(ob, cx)

    with cx.ob("C03.4", "R-MUSTPASS", "wire::handshake: listener returns Ok only after ack written, finished and consumed; dialer only after reading a valid ack") as ob:
        b = cx.coroutine("anemo::network::wire::handshake")

        def call_sym(c, o):
            aw = await_target(c)
            if aw is not None:
                last = aw.split("::")[-1]
                return "await(stopped)" if aw.endswith("SendStream::stopped") else None
            for nm, sym in (("anemo::connection::Connection::open_uni", "open_uni"), ("anemo::connection::Connection::accept_uni", "accept_uni"),
                            ("anemo::network::wire::write_version_frame", "write_version"), ("anemo::network::wire::read_version_frame", "read_version"),
                            ("quinn::send_stream::SendStream::finish", "finish"), ("quinn::send_stream::SendStream::stopped", "stopped"),
                            ("anemo::connection::Connection::open_bi", "open_bi"), ("anemo::connection::Connection::accept_bi", "accept_bi")):
                if name_matches(c.fn, nm):
                    if sym in ("open_uni", "accept_uni"):
                        return sym if strip_identity(o.of_operand(c.args[0])) == ("upvar", "connection") else sym + "(?)"
                    if sym == "write_version":
                        v = strip_identity(o.of_operand(c.args[1]))
                        return sym if term_has_call(o.of_operand(c.args[0]), "Connection::open_uni") and v[0] == "agg" and v[2].endswith("Version::V1") else sym + "(?)"
                    if sym == "read_version":
                        return sym if term_has_call(o.of_operand(c.args[0]), "Connection::accept_uni") else sym + "(?)"
                    if sym in ("finish", "stopped"):
                        return sym if term_has_call(o.of_operand(c.args[0]), "Connection::open_uni") else sym + "(?)"
                    return sym
            return None

        def extra(a, bb, subj, labels, o):
            if subj[0] == "discr":
                r = strip_identity(subj[1])
                while r[0] == "field":
                    r = strip_identity(r[1])
                if r[0] == "call" and name_matches(r[1], "anemo::connection::Connection::origin"):
                    return "origin=" + "|".join(sorted(labels))
            w_ = origin_eq_test(subj, labels)           # `if connection.origin() == ConnectionOrigin::Inbound { .. } else { .. }`
            if w_ is not None:
                return "origin=" + w_
            return None

        def stmt_sym(bbi, s, o):
            if s["lhs"] == 0 and s["rv"]["k"] == "agg" and s["rv"].get("adt") == "core::result::Result":
                if s["rv"]["variant"] == "Ok":
                    return "ret=Ok(connection)" if strip_identity(o.of_operand(s["rv"]["ops"][0])) == ("upvar", "connection") else "ret=Ok(?)"
                return "ret=Err"
            return None
        ws = seq_words(b, call_sym, stmt_sym, extra)
        okw = {fmt_word(w) for w in ok_words(ws)}
        ob.require(okw == {"origin=Inbound open_uni write_version finish stopped await(stopped) ret=Ok(connection) <return>",
                           "origin=Outbound accept_uni read_version ret=Ok(connection) <return>"}, "handshake/words",
                   f"handshake success paths: {sorted(okw)}", b.path, b.loc())
        ob.set_sample({"body": b.path, "words": sorted(okw)})
        errs = {fmt_word(w) for w in ws if "!err" in w}
        ob.require(len(errs) == 6, "handshake/error-exits", f"handshake error exits: {sorted(errs)}", b.path)
        # handshake is reached only from the two connecting tasks
        check_callers(ob, prog, "anemo::network::wire::handshake", [f"{MGR}::dial_peer_task", f"{MGR}::handle_incoming_task"], exact=2, what="wire::handshake")

    with cx.ob("C03.5", "R-CALLERS", "a connection is registered / served only through handle_connecting_result's Ok arm") as ob:
        check_callers(ob, prog, f"{CM}::ActivePeers::add", [f"{MGR}::add_peer"], exact=1, what="ActivePeers::add")
        check_callers(ob, prog, f"{MGR}::add_peer", [f"{MGR}::handle_connecting_result"], exact=1, what="add_peer")
        check_callers(ob, prog, "anemo::network::request_handler::InboundRequestHandler::new", [f"{MGR}::add_peer"], exact=1, what="InboundRequestHandler::new")
        check_callers(ob, prog, f"{MGR}::handle_connecting_result", [f"{MGR}::start"], exact=1, what="handle_connecting_result")
        check_constructed_only_in(ob, prog, f"{CM}::ConnectingOutput", [f"{MGR}::dial_peer_task", f"{MGR}::handle_incoming_task"], floor=2)
        # in start: the argument is the joined task output
        c = prog.callers_of(f"{MGR}::handle_connecting_result")[0]
        st = c.body
        so = Origins(st)
        t = so.of_operand(c.args[1])
        ob.require(term_has_call(t, "core::result::Result::unwrap") or any(x[0] == "variant" and x[2] == "Ok" for x in walk(t)), "start/joined-output",
                   f"handle_connecting_result argument: {show(t)[:120]}", st.path)
        # only pending_connections spawns the two tasks
        for fn in ("dial_peer_task", "handle_incoming_task"):
            cs = prog.callers_of(f"{MGR}::{fn}")
            for cc in cs:
                sp = [x for x in cc.body.calls_to("tokio::task::join_set::JoinSet::spawn") if term_has_call(Origins(cc.body).of_operand(x.args[1]), f"{MGR}::{fn}")]
                ob.require(len(sp) == 1 and mentions_field(Origins(cc.body).of_operand(sp[0].args[0]), "pending_connections"), f"{fn}/spawned-on-pending",
                           f"{fn} future is not spawned on pending_connections", cc.body.path)

    with cx.ob("C03.6", "R-FLOW", "success reply = authenticated id of the registered connection; registration dominates the reply") as ob:
        b = cx.body(f"{MGR}::handle_connecting_result")
        o = Origins(b)
        sends = b.calls_to("tokio::sync::oneshot::Sender::send")
        ob.floor(sends, 1, "oneshot sends in handle_connecting_result")
        ap = b.calls_to(f"{MGR}::add_peer")
        ob.floor(ap, 1, "add_peer call", exact=True)
        conn = strip_identity(arg_origin(ap[0], 1, o))
        ok_conn = conn[0] == "field" and conn[1][0] == "variant" and conn[1][2] == "Ok" and mentions_field(conn, "connecting_result")
        ob.require(ok_conn, "reply/registers-ok-payload", f"add_peer argument is {show(conn)}", b.path)
        n_ok = 0
        for c in sends:
            ch = arg_origin(c, 0, o)
            ob.require(mentions_field(ch, "maybe_oneshot"), "reply/channel", f"reply sent on {show(ch)}", b.path, b.loc(c.bb))
            # one send per arm, or one send of a reply value built in the arms (hoisted): judge each reply value where it is built
            for dbb, v in phi_alternatives(b, o, c.args[1]):
                v = strip_identity(v)
                at = dbb if dbb is not None else c.bb
                if v[0] == "agg" and v[2].endswith("Result::Ok"):
                    n_ok += 1
                    p = strip_identity(v[3][0])
                    ok = p[0] == "call" and name_matches(p[1], "anemo::connection::Connection::peer_id") and strip_identity(p[2][0]) == conn
                    ob.require(ok, "reply/id-is-authenticated", f"success reply carries {show(p)}", b.path, b.loc(at))
                    ob.require(b.dominates(ap[0].bb, c.bb) if dbb is None else (ap[0].bb in b.reachable_from(0) and (b.dominates(ap[0].bb, dbb) or dbb in b.reachable_from(ap[0].bb) and not _reach_avoiding(b, 0, c.bb, ap[0].bb, via=dbb))),
                               "reply/after-registration", "success reply is not preceded by add_peer on every path", b.path, b.loc(at))
                elif v[0] == "agg" and v[2].endswith("Result::Err"):
                    e = strip_identity(v[3][0])
                    ob.require(e[0] == "field" and e[1][0] == "variant" and e[1][2] == "Err", "reply/err-forwarded", f"failure reply carries {show(e)}", b.path, b.loc(at))
                    ob.require(not b.dominates(ap[0].bb, at) and ap[0].bb not in b.reachable_from(at), "reply/err-not-registered", "failure path registers a peer", b.path)
                else:
                    ob.fail("refuted", "reply/unknown", f"reply value {show(v)}", b.path, b.loc(at))
        ob.require(n_ok == 1, "reply/one-success-site", f"{n_ok} success reply sites", b.path)
        # "registered" must mean registered: inside add_peer every path to return passes ActivePeers::add(own id, the
        # connection handed in) — afterwards either this connection or the one that won the tie-break is in the map —
        # and add_peer itself never closes the connection (only the map's tie-break may).
        pb = cx.body(f"{MGR}::add_peer")
        po = Origins(pb)
        adds = [c for c in pb.calls_to(f"{CM}::ActivePeers::add") if not pb.is_cleanup(c.bb)]
        ob.floor(adds, 1, "ActivePeers::add in add_peer", exact=True)
        must_pass(ob, pb, {adds[0].bb}, key="add_peer/registers-on-every-path", what="return (a path returns without ActivePeers::add)")
        a_self = arg_origin(adds[0], 0, po)
        a_own = arg_origin(adds[0], 1, po)
        a_conn = strip_identity(arg_origin(adds[0], 2, po))
        ob.require(mentions_field(a_self, "active_peers") and term_has_call(a_own, "anemo::endpoint::Endpoint::peer_id") and is_param(a_conn, "new_connection"),
                   "add_peer/registers-the-connection", f"add_peer registers {show(a_conn)[:80]} into {show(a_self)[:60]} with own id {show(a_own)[:80]}", pb.path)
        closes = [c for c in pb.calls() if name_matches(c.fn, ("anemo::connection::Connection::close", "quinn::connection::Connection::close")) and not pb.is_cleanup(c.bb)]
        ob.require(not closes, "add_peer/never-closes", f"add_peer closes a connection at {[pb.loc(c.bb) for c in closes]} although the dial is answered Ok", pb.path)
        # NetworkInner::connect returns what the manager replied
        nb = cx.coroutine("anemo::network::NetworkInner::connect")
        no = Origins(nb)
        ret = no.of_local(0)
        ob.require(term_has_call(ret, "Try::branch") or any(x[0] == "variant" for x in walk(ret)), "connect/returns-reply", f"NetworkInner::connect returns {show(ret)[:100]}", nb.path)
        rq = [s for bl in nb.blocks if not bl.get("cleanup") for s in bl["s"] if s["k"] == "assign" and s["rv"]["k"] == "agg" and str(s["rv"].get("adt", "")).endswith("ConnectionManagerRequest")]
        ob.floor(rq, 1, "ConnectRequest construction", exact=True)
        t = no.of_rvalue(rq[0]["rv"])
        ok = t[2].endswith("::ConnectRequest") and strip_identity(t[3][0]) == ("upvar", "addr") and strip_identity(t[3][1]) == ("upvar", "peer_id")
        ob.require(ok, "connect/request", f"connect request is {show(t)}", nb.path)
        # the mailbox arm of the manager loop forwards the request's (address, peer_id, oneshot) to dial_peer
        # (handle_connect_request, a pure forwarder, is always inlined by the normaliser)
        lb_ = prog.callers_of(f"{MGR}::handle_connecting_result")[0].body
        c = [x for x in lb_.calls_to(f"{MGR}::dial_peer") if not lb_.is_cleanup(x.bb)]
        ho = Origins(lb_)

        def req_field(t, idx):
            t = strip_identity(t)
            return t[0] == "field" and t[2] == str(idx) and any(x[0] == "variant" and x[2] == "ConnectRequest" for x in walk(t)) and term_has_call(t, "mpsc::bounded::Receiver::recv")
        ob.require(len(c) == 1 and all(req_field(arg_origin(c[0], i + 1, ho), i) for i in range(3)),
                   "connect/forwarded", "the ConnectRequest arm does not forward (address, peer_id, oneshot) to dial_peer", lb_.path)
        db = cx.body(f"{MGR}::dial_peer")
        c = db.calls_to(f"{MGR}::dial_peer_task")
        do = Origins(db)
        ob.require(len(c) == 1 and is_param(arg_origin(c[0], 1, do), "address") and is_param(arg_origin(c[0], 2, do), "peer_id") and is_param(arg_origin(c[0], 3, do), "oneshot"),
                   "dial_peer/forwarded", "dial_peer does not forward (address, peer_id, oneshot) to dial_peer_task", db.path)

    with cx.ob("C03.7", "R-FLOW", "every dial that knows the identity it expects is pinned: background dials pass Some(known peer's id), explicit dials forward the caller's Option") as ob:
        check_dials_pinned(ob, cx)

    with cx.ob("C03.8", "R-FLOW", "the identity a dial returns is the key the handshake authenticated: Connection.peer_id = id of the first (end-entity) certificate of the same connection (C01.7 re-evaluated)") as ob:
        from . import c01
        sub = cx.__class__("C03", prog, cx.tier, cx.config, cx.tree, repo=cx.repo)
        c01.run(sub)
        w = [x for x in sub.obs if x.oid == "C01.7"]
        ob.count(w[0].evals if w else 0)
        bad = [v for x in w for v in x.violations]
        ob.require(len(w) == 1 and not bad, "returned-identity/authenticated-certificate",
                   "the PeerId of a connection is not derived from the certificate the pin / signature check authenticated: " + "; ".join(v.msg for v in bad)[:300],
                   "anemo::connection::Connection::new")
        # ... and the pinned verifier still demands the proof of possession: its handshake-signature checks are rustls' own
        # (C01.2 / C01.3 re-evaluated for ExpectedCertVerifier) - comparing the presented key with the pin is not enough, a
        # certificate can be replayed
        w2 = [x for x in sub.obs if x.oid in ("C01.2", "C01.3")]
        ob.count(sum(x.evals for x in w2))
        bad2 = [v for x in w2 for v in x.violations if x.oid == "C01.3" or "ExpectedCertVerifier" in v.key]
        ob.require(len(w2) == 2 and not bad2, "pinned-verifier/proof-of-possession",
                   "a pinned dial accepts a handshake signature it did not verify: " + "; ".join(v.msg for v in bad2)[:300], "anemo::crypto::ExpectedCertVerifier")

    with cx.ob("C03.9", "R-PATHSEQ", "a dial answered Ok is in the connected set: every returning path of ActivePeersInner::add leaves an entry for the new connection's peer (inserted, replaced, or the kept winner) - C04.2a re-evaluated") as ob:
        from . import c04
        sub = cx.__class__("C03", prog, cx.tier, cx.config, cx.tree, repo=cx.repo)
        c04.run(sub)
        w = [x for x in sub.obs if x.oid == "C04.2a"]
        ob.count(sum(x.evals for x in w))
        bad = [v for x in w for v in x.violations]
        ob.require(len(w) == 1 and not bad, "registered-before-reply/add-always-leaves-an-entry",
                   "ActivePeersInner::add has a path that returns without an entry for the peer (the dial is still answered Ok): " + "; ".join(v.msg for v in bad)[:300],
                   "anemo::network::connection_manager::ActivePeersInner::add")

    with cx.ob("C03.10", "R-MUSTPASS", "every dial the application asks for is carried out: connect()/connect_with_peer_id() answer only with the manager's reply to a ConnectRequest(addr, expected id) they sent - no shortcut that answers without reaching the address") as ob:
        check_connect_always_dials(ob, cx)

    with cx.ob("C03.11", "R-STICKY", "the manager carries every ConnectRequest out: the mailbox arm hands each one to dial_peer (no 'already connected' shortcut that answers without dialing) - C08.2 re-evaluated") as ob:
        from . import c08
        sub = cx.__class__("C03", prog, cx.tier, cx.config, cx.tree, repo=cx.repo)
        c08.run(sub)
        w = [x for x in sub.obs if x.oid in ['C08.2']]
        ob.count(sum(x.evals for x in w))
        bad = [v for x in w for v in x.violations if 'loop/mailbox' in v.key]
        ob.require(len(w) == 1 and not bad, "connect-request/always-dialed", "a ConnectRequest can be answered without a dial: " + "; ".join(str(v.msg) for v in bad)[:300], "anemo::network::connection_manager::ConnectionManager::start")


def check_connect_always_dials(ob, cx):
    """body of C03.10 (also used by C01.11): the connect API always sends the ConnectRequest and answers with the manager's reply"""
    prog = cx.prog
    NI_ = "anemo::network::NetworkInner"
    co = cx.coroutine(f"{NI_}::connect")
    o = Origins(co)
    sn = [c for c in co.calls_to("tokio::sync::mpsc::bounded::Sender::send") if not co.is_cleanup(c.bb)]
    ob.floor(sn, 1, "mailbox send in NetworkInner::connect", exact=True)
    rets = co.return_blocks()
    ob.count(len(rets))
    ob.require(bool(rets) and all(co.all_paths_pass(0, [r], [sn[0].bb], succ=co.succ_noawait) for r in rets), "connect/always-asks-the-manager",
               "NetworkInner::connect has a path that returns without sending a ConnectRequest (a dial answered without dialing)", co.path, co.loc(sn[0].bb))
    req = strip_identity(o.of_operand(sn[0].args[1]))
    okr = req[0] == "agg" and str(req[2]).endswith("ConnectRequest") and len(req[3]) == 3 and is_param_or_upvar(req[3][0], "addr") and is_param_or_upvar(req[3][1], "peer_id") \
        and term_has_call(req[3][2], "oneshot::channel")
    ob.require(okr, "connect/request-carries-the-arguments", f"the request sent is {show(req)[:120]}", co.path, co.loc(sn[0].bb))
    rx = [c for c in co.calls() if await_target(c) and "oneshot::Receiver" in await_target(c) and not co.is_cleanup(c.bb)]
    same = len(rx) == 1 and okr and [x[3] for x in walk(o.of_operand(rx[0].args[0])) if x[0] == "call" and name_matches(x[1], "oneshot::channel")] == \
        [x[3] for x in walk(req[3][2]) if x[0] == "call" and name_matches(x[1], "oneshot::channel")]
    ob.require(same, "connect/awaits-that-reply", "the reply awaited is not the receiver of the channel whose sender went into the request", co.path)
    oks = [x for x in walk(o.of_local(0)) if x[0] == "agg" and str(x[2]).endswith("Result::Ok")]
    ob.require(all(term_has_call(x, "Future::poll") for x in oks), "connect/ok-is-the-reply", f"NetworkInner::connect builds an Ok of its own: {[show(x)[:60] for x in oks]}", co.path)
    for fn_, pin in (("connect", False), ("connect_with_peer_id", True)):
        cb_ = cx.coroutine(f"anemo::network::Network::{fn_}")
        cs_ = [c for c in cb_.calls_to(f"{NI_}::connect") if not cb_.is_cleanup(c.bb)]
        ob.require(len(cs_) == 1, f"{fn_}/forwards", f"Network::{fn_} does not call NetworkInner::connect exactly once", cb_.path)
        if len(cs_) == 1:
            a2 = strip_identity(Origins(cb_).of_operand(cs_[0].args[2]))
            okp = (a2[0] == "agg" and str(a2[2]).endswith("Option::Some") and is_param_or_upvar(a2[3][0], "peer_id")) if pin else (a2[0] == "agg" and str(a2[2]).endswith("Option::None"))
            ob.require(okp, f"{fn_}/expected-id", f"Network::{fn_} passes {show(a2)[:60]} as the expected identity", cb_.path)


def check_dials_pinned(ob, cx):
    """Body of C03.7 (also re-evaluated by C01.11 without running all of C03)."""
    prog = cx.prog
    sites = prog.callers_of(f"{MGR}::dial_peer")
    ob.floor(sites, 2, "dial_peer call sites (explicit + background)", exact=True)
    for c in sites:
        o = Origins(c.body)
        own = owner_path(prog, c.body)
        t = strip_identity(o.of_operand(c.args[2]))
        if own == f"{MGR}::start":
            okf = t[0] == "field" and t[2] == "1" and any(x[0] == "variant" and x[2] == "ConnectRequest" for x in walk(t))
            ob.require(okf, "pin/explicit-forwards", f"explicit dial passes {show(t)[:60]} as expected identity", c.body.path, c.body.loc(c.bb))
        elif own == f"{MGR}::handle_connectivity_check":
            ok = t[0] == "agg" and t[2].endswith("Option::Some") and mentions_field(t[3][0], "peer_id") and term_has_call(t[3][0], "Iterator::next")
            ob.require(ok, "pin/background-pinned", f"background dial passes {show(t)[:80]} as expected identity (must be Some(known peer id))", c.body.path, c.body.loc(c.bb))
        else:
            ob.fail("refuted", f"pin/unknown-dial-site/{own}", f"dial_peer called from {c.body.path}", c.body.path, c.body.loc(c.bb))
    # the address dialed belongs to that same known-peer entry
    hc = cx.body(f"{MGR}::handle_connectivity_check")
    ho = Origins(hc)
    dp = hc.calls_to(f"{MGR}::dial_peer")
    if dp:
        addr = ho.of_operand(dp[0].args[1])
        pid = ho.of_operand(dp[0].args[2])
        a_it = [x[3] for x in walk(addr) if x[0] == "call" and name_matches(x[1], "Iterator::next")]
        p_it = [x[3] for x in walk(pid) if x[0] == "call" and name_matches(x[1], "Iterator::next")]
        ob.require(bool(a_it) and set(a_it) == set(p_it) and mentions_field(addr, "address"), "pin/address-of-same-peer", "dialed address and pinned id do not come from the same known-peer entry", hc.path)


def check_pin_verifier(ob, cx):
    """Body of C03.3 (also re-evaluated by C01.11 without running all of C03)."""
    prog = cx.prog
    b = cx.impl_method(EV, "ServerCertVerifier", "verify_server_cert")
    cv = cx.impl_method(f"{CR}::CertVerifier", "ServerCertVerifier", "verify_server_cert")

    def call_sym(c, o):
        if name_matches(c.fn, f"{CR}::peer_id_from_certificate"):
            return "id(end_entity)" if is_param(o.of_operand(c.args[0]), "end_entity") else "id(?)"
        if c.res == cv.path or name_matches(c.fn, "ServerCertVerifier::verify_server_cert"):
            a = [o.of_operand(x) for x in c.args]
            ok = mentions_field(a[0], "0") and mentions_param(a[0], "self") and is_param(a[1], "end_entity") and is_param(a[2], "intermediates") \
                and is_param(a[3], "server_name") and is_param(a[5], "now") and c.dest == 0 and c.res == cv.path
            return "ret=delegate(end_entity)" if ok else "delegate(?)"
        if name_matches(c.fn, ("ServerCertVerified::assertion",)):
            return "assertion!"
        return None

    def extra(a, bb, subj, labels, o):
        n = normalize_cmp(subj)
        if n is None:
            return None
        neg, op, x, y = n
        if op not in ("eq", "ne") or labels not in ({"true"}, {"false"}):
            return None
        sides = []
        for t in (x, y):
            if term_has_call(t, f"{CR}::peer_id_from_certificate") and any(v[0] == "variant" and v[2] == "Continue" for v in walk(t)):
                sides.append("presented")
            elif mentions_field(t, "1") and mentions_param(t, "self"):
                sides.append("pin")
            else:
                sides.append("?")
        if sorted(sides) != ["pin", "presented"]:
            return f"?cmp({show(x)[:30]},{show(y)[:30]})"
        equal = (labels == {"true"}) != neg
        if op == "ne":
            equal = not equal
        return "pin==presented" if equal else "pin!=presented"

    def stmt_sym(bbi, s, o):
        if s["lhs"] == 0 and s["rv"]["k"] == "agg" and s["rv"].get("adt") == "core::result::Result":
            return "ret=" + s["rv"]["variant"]
        return None
    ws = seq_words(b, call_sym, stmt_sym, extra)
    # an error exit is an error exit whether written `return Err(..)` or propagated with `?` (from a helper that built it)
    ws = {tuple(x_ for i_, x_ in enumerate(w2) if not (x_ == "ret=Err" and i_ > 0 and w2[i_ - 1] == "ret=Err"))
          for w2 in (["ret=Err" if x_ == "!err" else x_ for x_ in w_] for w_ in ws)}
    check_words(ob, b, ws, {"id(end_entity) ret=Err <return>", "id(end_entity) pin!=presented ret=Err <return>",
                            "id(end_entity) pin==presented ret=delegate(end_entity) <return>"}, "ExpectedCertVerifier::verify_server_cert")
