"""C04 — At most one connection per peer; events are an exact change log."""
from .engine import AnchorLost, Undecidable
from .lib import *
from .mir import Origins, show, strip_identity, walk, name_matches, term_has_call

CM = "anemo::network::connection_manager"
API = f"{CM}::ActivePeers"
INNER = f"{CM}::ActivePeersInner"
MUTATORS = [f"{INNER}::add", f"{INNER}::remove", f"{INNER}::remove_with_stable_id"]
RH = "anemo::network::request_handler::InboundRequestHandler"

EXPLANATION = """
Static decision of the structural conditions that make the peer map and the event stream a single
atomic change log: (1) who-may-write: the `connections` map of ActivePeersInner is mutably borrowed
only inside add/remove/remove_with_stable_id, events are sent only by send_event which is called only
from those three, the only RwLock::write is in ActivePeers::inner_mut which is called only by the three
public wrappers with the mutator invoked on the guard; (2) path-event language: every CFG path of each
mutator, projected on {entry, insert, remove, close(old|new), send(New|Lost), ret}, is one of the
allowed words (mutation iff event, Lost before New, the closed connection is the one not kept, removal
by stable id only on the equal edge); (3) snapshot+subscribe under one read guard; (4) the handler
exit removes by (own peer id, own stable id) and never by peer id alone, and that removal lies on every path on which
the handler task returns (after the loop, not skippable). Decides these shape facts
for all paths; does not execute histories.
One layer out: clones of the peer-map handle share the map, PeerId equality and hashing are the derived byte-wise ones, and the public listing / subscription are plain views of the map.
Between leaving its loop (connection seen closed) and the removal the handler task has no suspension point.
The network closes a connection only inside the three mutators (where its entry leaves the map); a stable id is the transport's own id of the connection.
"""
TRUSTED = ["std HashMap/Entry/RwLock semantics", "tokio broadcast channel delivers in send order"]
NOT_DECIDED = ["lagging subscribers (broadcast capacity overflow)", "interleavings below the lock granularity"]
ASSUMPTIONS = ["a &mut to the map can only be obtained through a mutable borrow of the field (no interior mutability in HashMap)"]


def event_calls(b, o=None):
    """Event emissions in body `b`, in either form: `self.send_event(ev)` or a direct `peer_event_sender.send(ev)`
    (what is left when a helper taking the sender explicitly was inlined). Returns [(call, event term)]."""
    o = o or Origins(b)
    out = []
    for c in b.calls():
        if b.is_cleanup(c.bb):
            continue
        if name_matches(c.fn or "", f"{INNER}::send_event"):
            out.append((c, strip_identity(o.of_operand(c.args[1]))))
        elif name_matches(c.fn or "", "tokio::sync::broadcast::Sender::send") and any("PeerEvent" in g for g in c.ga) \
                and mentions_field(o.of_operand(c.args[0]), "peer_event_sender"):
            out.append((c, strip_identity(o.of_operand(c.args[1]))))
    return out


def run(cx):
    prog = cx.prog
    A = ["anemo"]

    # ---- rule 1: who may write / emit / lock --------------------------------------------------
    with cx.ob("C04.1a", "R-WRITERS", "ActivePeersInner.connections is mutably accessed only by add/remove/remove_with_stable_id") as ob:
        cx.adt(INNER)
        check_field_writers(ob, prog, INNER, "connections", MUTATORS, floor=3)
        # "no peer whose connection it has closed": a connection is closed by the network only where its entry leaves (or never
        # enters) the map, inside the same critical section
        check_callers(ob, prog, "anemo::connection::Connection::close", MUTATORS, crates=["anemo"], floor=3, what="Connection::close", key="close-only-with-removal")

    with cx.ob("C04.1b", "R-CALLERS", "peer events are sent only by send_event, called only by the three mutators") as ob:
        # every broadcast send of a PeerEvent in the workspace
        sends = [c for c in prog.callers_of("tokio::sync::broadcast::Sender::send")
                 if any("PeerEvent" in g for g in c.ga)]
        ob.floor(sends, 1, "broadcast::Sender<PeerEvent>::send sites")
        n_emit = 0
        for c in sends:
            owns = owner_paths(prog, c.body)
            in_helper = c.body.path == f"{INNER}::send_event"
            in_mut = bool(owns) and all(o_ in MUTATORS for o_ in owns)
            ob.require(in_helper or in_mut, f"event-send/{owner_path(prog, c.body)}",
                       f"PeerEvent is broadcast from {c.body.path}, not from send_event / one of the three mutators", c.body.path, c.body.loc(c.bb))
            ob.require(mentions_field(Origins(c.body).of_operand(c.args[0]), "peer_event_sender"), f"event-send/sender/{owner_path(prog, c.body)}",
                       "PeerEvent is broadcast on something other than self.peer_event_sender", c.body.path, c.body.loc(c.bb))
            if in_mut and not in_helper:
                n_emit += 1
        n_emit += len(check_callers(ob, prog, f"{INNER}::send_event", MUTATORS, what="send_event"))
        ob.floor(n_emit, 4, "event emission sites in the three mutators")
        # the sender field itself: only read (shared) — never moved out / replaced
        check_field_writers(ob, prog, INNER, "peer_event_sender", [f"{INNER}::new"], kinds=("mutref", "write", "move"))

    with cx.ob("C04.1c", "R-WRITERS", "ActivePeersInner is constructed once, directly inside RwLock::new in ActivePeers::new") as ob:
        check_constructed_only_in(ob, prog, INNER, [f"{INNER}::new"])
        sites = check_callers(ob, prog, f"{INNER}::new", [f"{API}::new"], exact=1, what="ActivePeersInner::new")
        b = cx.body(f"{API}::new")
        o = Origins(b)
        lock_new = b.calls_to("RwLock::new")
        ob.floor(lock_new, 1, "RwLock::new in ActivePeers::new", exact=True)
        t = arg_origin(lock_new[0], 0, o)
        ob.require(t[0] == "call" and name_matches(t[1], f"{INNER}::new"), "rwlock-new-arg",
                   f"RwLock::new argument is {show(t)}, not ActivePeersInner::new(..)", b.path, b.loc(lock_new[0].bb))

    with cx.ob("C04.1d", "R-CALLERS", "write access to the lock only via ActivePeers::inner_mut, used only by the three wrappers on the guard") as ob:
        def on_inner(c):
            return any("ActivePeersInner" in g for g in c.ga) or "ActivePeersInner" in (c.self_ty or "")
        for meth in ("write", "try_write", "get_mut", "into_inner"):
            for c in prog.callers_of(f"RwLock::{meth}", crates=A):
                if not on_inner(c):
                    continue
                ob.require(meth == "write" and c.body.path == f"{API}::inner_mut", f"lock-{meth}/{owner_path(prog, c.body)}",
                           f"RwLock<ActivePeersInner>::{meth} in {c.body.path}", c.body.path, c.body.loc(c.bb))
        for meth in ("get_mut", "try_unwrap", "into_inner", "make_mut"):
            for c in prog.callers_of(f"Arc::{meth}", crates=A):
                if on_inner(c):
                    ob.fail("refuted", f"arc-{meth}/{owner_path(prog, c.body)}", f"Arc<RwLock<ActivePeersInner>>::{meth} in {c.body.path}",
                            c.body.path, c.body.loc(c.bb))
        wrappers = [f"{API}::add", f"{API}::remove", f"{API}::remove_with_stable_id"]
        check_callers(ob, prog, f"{API}::inner_mut", wrappers, exact=3, what="ActivePeers::inner_mut")
        for w, m in zip(wrappers, MUTATORS):
            b = cx.body(w)
            o = Origins(b)
            cs = b.calls_to(m)
            ob.floor(cs, 1, f"call of {m} in {w}", exact=True)
            t = arg_origin(cs[0], 0, o)
            core = strip_identity(t)
            ob.require(term_has_call(t, "DerefMut::deref_mut") and core[0] == "call" and name_matches(core[1], f"{API}::inner_mut"),
                       f"mutator-on-guard/{w}", f"{w}: mutator receiver is {show(t)}, not the write guard", b.path, b.loc(cs[0].bb))
            # the guard temporary is not dropped before the mutator call
            guard_local = None
            for c in b.calls_to(f"{API}::inner_mut"):
                guard_local = c.dest if isinstance(c.dest, int) else None
            drops = [i for i, bl in enumerate(b.blocks) if bl["t"]["k"] == "drop" and not bl.get("cleanup")
                     and place_local(bl["t"]["pl"]) == guard_local]
            ob.require(guard_local is not None and drops and all(b.dominates(cs[0].bb, d) for d in drops), f"guard-live/{w}",
                       f"{w}: write guard is dropped before the mutator runs", b.path, b.loc())
        # mutators are reachable only through the wrappers
        for w, m in zip(wrappers, MUTATORS):
            check_callers(ob, prog, m, [w], exact=1, what=m.split("::")[-1] + " (inner)")

    # ---- rule 2: path event language of the mutators --------------------------------------------
    MAPMUT = ("insert", "remove", "remove_entry", "clear", "drain", "retain", "get_mut", "iter_mut", "values_mut",
              "entry", "extend", "or_insert", "or_insert_with", "and_modify", "get_or_insert_with")

    def mk_call_sym(kind):
        def call_sym(c, o):
            if is_tracing(c):
                return None
            fn = c.fn or ""
            if name_matches(fn, "HashMap::entry"):
                return "entry"
            if name_matches(fn, "VacantEntry::insert"):
                return "vacant.insert(%s)" % conn_name(o.of_operand(c.args[1]))
            if name_matches(fn, "OccupiedEntry::insert"):
                return "occupied.insert(%s)" % conn_name(o.of_operand(c.args[1]))
            if name_matches(fn, "OccupiedEntry::remove_entry"):
                return "remove_entry"
            if name_matches(fn, "HashMap::remove"):
                return "map.remove"
            if "::hash::map::" in fn:
                last = fn.split("::")[-1]
                if last in MAPMUT:
                    return "mapmut:" + last
                return None
            if name_matches(fn, "anemo::connection::Connection::close"):
                return "close(%s)" % conn_name(o.of_operand(c.args[0]))
            if name_matches(fn, f"{INNER}::send_event") or (name_matches(fn, "tokio::sync::broadcast::Sender::send") and any("PeerEvent" in g for g in c.ga)):
                t = strip_identity(o.of_operand(c.args[1]))
                if t[0] == "agg" and t[2].endswith("PeerEvent::LostPeer"):
                    return "send(Lost)"
                if t[0] == "agg" and t[2].endswith("PeerEvent::NewPeer"):
                    return "send(New)"
                return "send(?)"
            if name_matches(fn, f"{INNER}::simultaneous_dial_tie_breaking"):
                return "tie_break"
            if c.local and not name_matches(fn, ("Connection::peer_id", "Connection::origin", "Connection::stable_id",
                                                 "Clone::clone", "PartialEq::eq", "PartialEq::ne")):
                return "call:" + fn.split("::")[-1]
            return None
        return call_sym

    def conn_name(t):
        """Which connection a term denotes: new (the parameter), old (the displaced/removed map value)."""
        s = strip_identity(t)
        if s[0] == "param" and s[2] == "new_connection":
            return "new"
        if s[0] == "call" and name_matches(s[1], "OccupiedEntry::insert"):
            return "old"
        if s[0] == "variant" and s[2] == "Some" or (s[0] == "field" and s[1][0] == "variant"):
            inner = s[1] if s[0] == "variant" else s[1][1]
            if inner[0] == "call" and name_matches(inner[1], "HashMap::remove"):
                return "removed"
        if s[0] == "field" and s[1][0] == "call" and name_matches(s[1][1], "OccupiedEntry::remove_entry") and s[2] == "1":
            return "removed"
        return "?" + show(s)[:40]

    def stmt_sym(bb, s, o):
        if s["lhs"] == 0 and s["rv"]["k"] == "agg":
            rv = s["rv"]
            if rv.get("adt") == "core::option::Option":
                if rv["variant"] == "Some":
                    return "ret(Some:%s)" % conn_name(o.of_operand(rv["ops"][0]))
                return "ret(None)"
        return None

    def edge_sym(a, b, subj, labels, o):
        s = strip_identity(subj)
        neg = False
        while s[0] == "unop" and s[1] == "Not":          # `let keep_existing = !tie_break(..); if keep_existing ..`
            neg = not neg
            s = strip_identity(s[2])
        if s[0] == "call" and name_matches(s[1], f"{INNER}::simultaneous_dial_tie_breaking") and labels in ({"true"}, {"false"}):
            return "tb=" + ("true" if (labels == {"true"}) != neg else "false")
        s = strip_identity(subj)
        if s[0] == "discr":
            u = strip_identity(s[1])
            if u[0] == "call" and name_matches(u[1], "HashMap::entry"):
                return "[" + "|".join(sorted(labels)) + "]"
            if u[0] == "call" and name_matches(u[1], "HashMap::remove"):
                return "[" + "|".join(sorted(labels)) + "]"
        if s[0] == "call" and name_matches(s[1], ("PartialEq::eq", "PartialEq::ne")) or s[0] == "binop":
            ops = s[2] if s[0] == "call" else (s[2], s[3])
            opname = s[1].split("::")[-1] if s[0] == "call" else s[1]
            if any(term_has_call(x, "Connection::stable_id") for x in ops):
                other = [x for x in ops if not term_has_call(x, "Connection::stable_id")]
                against = "param" if other and is_param(other[0], "stable_id") else "?"
                lab = "|".join(sorted(labels))
                if opname.lower() == "ne":
                    lab = {"true": "false", "false": "true"}.get(lab, lab)
                return f"stable_id==({against})={lab}"
        return None

    with cx.ob("C04.2a", "R-PATHSEQ", "ActivePeersInner::add: mutation iff event, Lost before New, loser closed") as ob:
        b = cx.body(f"{INNER}::add")
        ws = words_of(b, mk_call_sym("add"), edge_sym, stmt_sym)
        allowed = {
            "entry [Vacant] vacant.insert(new) send(New) ret(Some:new) <return>",
            "entry [Occupied] tie_break tb=true occupied.insert(new) close(old) send(Lost) send(New) ret(Some:new) <return>",
            "entry [Occupied] tie_break tb=false close(new) ret(None) <return>",
        }
        check_words(ob, b, ws, allowed, "add")

    with cx.ob("C04.2b", "R-FLOW", "ActivePeersInner::add: map key and event ids are the new connection's authenticated peer id") as ob:
        b = cx.body(f"{INNER}::add")
        o = Origins(b)

        def is_new_pid(t):
            s = strip_identity(t)
            return s[0] == "call" and name_matches(s[1], "anemo::connection::Connection::peer_id") and is_param(s[2][0], "new_connection")
        e = b.calls_to("HashMap::entry")
        ob.floor(e, 1, "HashMap::entry in add", exact=True)
        ob.require(is_new_pid(arg_origin(e[0], 1, o)), "add/entry-key", f"add: entry key is {show(arg_origin(e[0], 1, o))}", b.path, b.loc(e[0].bb))
        ob.require(mentions_field(arg_origin(e[0], 0, o), "connections"), "add/entry-map", "add: entry() not on self.connections", b.path)
        evs = event_calls(b, o)
        ob.floor(evs, 2, "event emissions in add", exact=True)
        for c, t in evs:
            ob.require(t[0] == "agg" and is_new_pid(t[3][0]), f"add/event-id", f"add: event carries {show(t)}", b.path, b.loc(c.bb))
            if t[0] == "agg" and t[2].endswith("LostPeer"):
                r = strip_identity(t[3][1])
                ob.require(is_unit_variant(r, "DisconnectReason::Requested"), "add/lost-reason",
                           f"add: replaced connection reported with {show(r)}", b.path, b.loc(c.bb))

    with cx.ob("C04.2c", "R-PATHSEQ", "ActivePeersInner::remove: remove → close removed → LostPeer, or nothing") as ob:
        b = cx.body(f"{INNER}::remove")
        ws = words_of(b, mk_call_sym("remove"), edge_sym, stmt_sym)
        check_words(ob, b, ws, {"map.remove [Some] close(removed) send(Lost) <return>", "map.remove [None] <return>"}, "remove")
        o = Origins(b)
        rm = b.calls_to("HashMap::remove")
        ob.floor(rm, 1, "HashMap::remove in remove", exact=True)
        ob.require(is_param(arg_origin(rm[0], 1, o), "peer_id") and mentions_field(arg_origin(rm[0], 0, o), "connections"),
                   "remove/key", "remove: map.remove not keyed by the peer_id parameter on self.connections", b.path)
        for c, t in event_calls(b, o):
            ob.require(t[0] == "agg" and is_param(t[3][0], "peer_id") and is_param(t[3][1], "reason"), "remove/event",
                       f"remove: event is {show(t)}", b.path, b.loc(c.bb))

    with cx.ob("C04.2d", "R-PATHSEQ", "remove_with_stable_id: entry removed only on the stable-id-equal edge, then close + LostPeer") as ob:
        b = cx.body(f"{INNER}::remove_with_stable_id")
        ws = words_of(b, mk_call_sym("rws"), edge_sym, stmt_sym)
        check_words(ob, b, ws, {
            "entry [Occupied] stable_id==(param)=true remove_entry close(removed) send(Lost) <return>",
            "entry [Occupied] stable_id==(param)=false <return>",
            "entry [Vacant] <return>"}, "remove_with_stable_id")
        o = Origins(b)
        e = b.calls_to("HashMap::entry")
        ob.floor(e, 1, "HashMap::entry in remove_with_stable_id", exact=True)
        ob.require(is_param(arg_origin(e[0], 1, o), "peer_id") and mentions_field(arg_origin(e[0], 0, o), "connections"),
                   "rws/key", "remove_with_stable_id: entry not keyed by the peer_id parameter", b.path)
        # the compared stable id is the one of the map's current entry
        for c in b.calls_to("anemo::connection::Connection::stable_id"):
            t = arg_origin(c, 0, o)
            ob.require(term_has_call(t, "OccupiedEntry::get"), "rws/stable-id-of-entry", f"stable_id() taken of {show(t)}", b.path, b.loc(c.bb))
        for c, t in event_calls(b, o):
            ok = t[0] == "agg" and t[2].endswith("LostPeer") and is_param(t[3][1], "reason") and (
                is_param(t[3][0], "peer_id") or term_has_call(t[3][0], "OccupiedEntry::remove_entry"))
            ob.require(ok, "rws/event", f"remove_with_stable_id: event is {show(t)}", b.path, b.loc(c.bb))
        # ... and a stable id names one connection: it is the transport's own id of that connection (unique among the live
        # connections of the endpoint, whatever their direction), not a number made up here
        sb = cx.body("anemo::connection::Connection::stable_id")
        st = strip_identity(Origins(sb).of_local(0))
        ok = st[0] == "call" and name_matches(st[1], "quinn::connection::Connection::stable_id") and len(st[2]) == 1
        if ok:
            a0 = strip_identity(st[2][0])
            ok = a0[0] == "field" and a0[2] == "inner" and is_param(strip_identity(a0[1]), "self")
        ob.require(ok, "stable-id/is-the-transports", f"Connection::stable_id returns {show(st)[:120]} (must be quinn's stable_id of this connection)", sb.path)

    # ---- rule 3: snapshot + subscribe in one critical section ------------------------------------
    with cx.ob("C04.3", "R-MUSTPASS", "subscribe(): snapshot and receiver are taken under one read guard") as ob:
        # Decided on the inlined view of ActivePeers::subscribe (whatever helpers it is split into): the lock is
        # acquired exactly once on the way, the broadcast subscription and the key snapshot both happen below that one
        # acquisition, each directly on the guarded struct's field (not on a clone that outlives the guard).
        w = cx.body(f"{API}::subscribe")
        LOCKS = ("std::sync::poison::rwlock::RwLock::read", "std::sync::poison::rwlock::RwLock::write", "std::sync::poison::mutex::Mutex::lock",
                 "RwLock::read", "RwLock::write", "RwLock::try_read", "RwLock::try_write", "Mutex::lock")
        locks = call_sites_through(prog, w, lambda c: name_matches(c.fn, LOCKS))
        subs = call_sites_through(prog, w, lambda c: name_matches(c.fn, "tokio::sync::broadcast::Sender::subscribe"))
        keys = call_sites_through(prog, w, lambda c: name_matches(c.fn, ("HashMap::keys", "HashMap::iter", "HashMap::values")))
        ob.require(len(locks) == 1 and name_matches(locks[0][0].fn, ("RwLock::read", "std::sync::poison::rwlock::RwLock::read")), "subscribe/one-read-guard",
                   f"ActivePeers::subscribe acquires the peer-map lock {len(locks)} times ({[' > '.join(x.split('::')[-1] for x in ch) for _, ch in locks]}): "
                   "a change between two acquisitions is in neither the snapshot nor the receiver", w.path)
        ob.require(len(subs) == 1, "subscribe/one-subscription", f"{len(subs)} broadcast subscriptions reachable from ActivePeers::subscribe", w.path)
        ob.require(len(keys) == 1, "subscribe/one-snapshot", f"{len(keys)} map snapshots reachable from ActivePeers::subscribe", w.path)
        if len(locks) == 1 and len(subs) == 1 and len(keys) == 1:
            for (c, chain), fld, what in ((subs[0], "peer_event_sender", "subscription"), (keys[0], "connections", "snapshot")):
                b = prog.bodies[chain[-1]]
                r = arg_origin(c, 0, Origins(b))
                direct = mentions_field(r, fld) and not term_has_call(r, "Clone::clone") and \
                    (mentions_param(r, "self") or term_has_call(r, f"{API}::inner") or term_has_call(r, "RwLock::read"))
                ob.require(direct, f"subscribe/{what}-on-guarded-field", f"{what} is taken from {show(r)[:100]} in {b.path}", b.path, b.loc(c.bb))
                # the helper that touches the field is entered below the lock acquisition: either it is the body that
                # locks, or it takes &ActivePeersInner (only obtainable through the guard)
                if chain[-1] != locks[0][1][-1] and chain[-1] != w.path:
                    ob.require(chain[-1].startswith(INNER + "::"), f"subscribe/{what}-under-guard", f"{what} happens in {chain[-1]}, not a method of the guarded struct", b.path)
        # returned pair = (that receiver, that snapshot)
        wo = Origins(w)
        ret = wo.of_local(0)
        produced = set()
        for x in walk(ret):
            if x[0] == "call":
                produced.add(strip_generics(x[1]))
        reach_ret = set()
        for n in produced:
            for q in prog.bodies:
                if name_matches(q, n) and prog.bodies[q].kind != "Closure":
                    reach_ret |= set(prog.reachable_bodies([q]))
        names = produced | reach_ret
        both = all(any(name_matches(c.fn, t) for n in list(names) + [w.path] if n in prog.bodies for c in prog.bodies[n].calls()) for t in ("broadcast::Sender::subscribe", ("HashMap::keys", "HashMap::iter", "HashMap::values")))
        ob.require(both, "subscribe/returns-pair", f"ActivePeers::subscribe returns {show(ret)[:120]}", w.path)
        # NetworkInner::subscribe hands out exactly that pair
        check_callers(ob, prog, "tokio::sync::broadcast::Sender::subscribe", [f"{API}::subscribe", f"{INNER}::subscribe"], crates=["anemo"], floor=1, what="broadcast::Sender::subscribe")
        # peers(): keys of the map
        pb = cx.body(f"{INNER}::peers")
        po = Origins(pb)
        ks = pb.calls_to("HashMap::keys")
        ob.floor(ks, 1, "HashMap::keys in peers()", exact=True)
        ob.require(mentions_field(arg_origin(ks[0], 0, po), "connections"), "peers/keys-of-connections", "peers() is not connections.keys()", pb.path)

    # ---- rule 4: handler exit removes by own stable id ---------------------------------------------
    with cx.ob("C04.4", "R-FLOW", "connection handler exit removes (own peer id, own stable id); remove-by-peer only from disconnect") as ob:
        co = cx.coroutine(f"{RH}::start")
        o = Origins(co)
        cs = co.calls_to(f"{API}::remove_with_stable_id")
        ob.floor(cs, 1, "remove_with_stable_id in InboundRequestHandler::start", exact=True)
        c = cs[0]

        def own_conn(t, meth):
            s = strip_identity(t)
            return s[0] == "call" and name_matches(s[1], f"anemo::connection::Connection::{meth}") and mentions_field(s[2][0], "connection") \
                and (mentions_upvar(s[2][0], "self") or mentions_param(s[2][0], "self"))
        ob.require(own_conn(arg_origin(c, 1, o), "peer_id"), "handler-exit/peer-id", f"handler exit removes peer {show(arg_origin(c, 1, o))}", co.path, co.loc(c.bb))
        ob.require(own_conn(arg_origin(c, 2, o), "stable_id"), "handler-exit/stable-id", f"handler exit removes stable id {show(arg_origin(c, 2, o))}", co.path, co.loc(c.bb))
        ob.require(mentions_field(arg_origin(c, 0, o), "active_peers"), "handler-exit/own-map", "handler exit does not use its own active_peers", co.path)
        # "no peer whose connection it has closed or seen closed": the removal is not skippable - every path on which the
        # handler task returns (loop left for whatever reason) passes it, once, after the loop
        rets = co.return_blocks()
        ob.count(len(rets))
        ob.require(all(co.all_paths_pass(0, [r], [c.bb], succ=co.succ_noawait) for r in rets), "handler-exit/on-every-return",
                   "a path on which the connection handler returns skips remove_with_stable_id (the peer stays listed although its connection is gone)", co.path, co.loc(c.bb))
        ob.require(c.bb not in co.cyclic_blocks(), "handler-exit/after-loop", "remove_with_stable_id lies inside the handler loop", co.path, co.loc(c.bb))
        # ... and promptly: once the loop is left (the connection was seen closed) the task does not suspend before the
        # removal - an await there keeps a dead peer listed, and its LostPeer unpublished, for as long as the awaited thing takes
        cyc = set(co.cyclic_blocks())                 # the handler loop (await-collapsed graph: an await's own poll cycle is not a loop)
        after = set()
        for x in cyc:
            after |= co.reachable_from(x)
        late = sorted(y for y in after - cyc if co.term(y)["k"] == "yield" and c.bb in co.reachable_from(y) and not (co.reachable_from(y) & cyc))
        ob.require(not late, "handler-exit/no-await-before-removal", f"the handler awaits between leaving its loop and remove_with_stable_id (suspension points: {['bb%d' % y for y in late]})",
                   co.path, co.loc(late[0]) if late else None)
        check_callers(ob, prog, f"{API}::remove_with_stable_id", [f"{RH}::start"], exact=1, what="ActivePeers::remove_with_stable_id")
        check_callers(ob, prog, f"{API}::remove", ["anemo::network::NetworkInner::disconnect"], exact=1, what="ActivePeers::remove (by peer)")
        check_callers(ob, prog, f"{API}::add", [f"{CM}::ConnectionManager::add_peer"], exact=1, what="ActivePeers::add")

    # ---- rule 5: shape -------------------------------------------------------------------------------
    with cx.ob("C04.5", "R-SHAPE", "the listing is the key set of a HashMap<PeerId, Connection>") as ob:
        a = cx.adt(INNER)
        f = {x["name"]: x["ty"] for x in a["variants"][0]["fields"]}
        ob.require(f.get("connections", "").startswith("std::collections::hash::map::HashMap<anemo::types::peer_id::PeerId, anemo::connection::Connection"),
                   "shape/connections", f"connections has type {f.get('connections')}", INNER)
        ob.require("broadcast::Sender<anemo::types::PeerEvent>" in f.get("peer_event_sender", ""), "shape/sender",
                   f"peer_event_sender has type {f.get('peer_event_sender')}", INNER)
        ob.require(set(f) == {"connections", "peer_event_sender"}, "shape/fields", f"ActivePeersInner fields are {sorted(f)}", INNER)

    with cx.ob("C04.6", "R-SHAPE", "one layer out: every clone of the ActivePeers handle is the same map (field-by-field Clone of the Arc), a cloned Connection is the same connection (same quinn handle, id, origin)") as ob:
        for ty in ("anemo::network::connection_manager::ActivePeers", "anemo::network::connection_manager::ActivePeersRef", "anemo::connection::Connection", "anemo::network::Network"):
            check_fieldwise_clone(ob, prog, ty)
        check_peer_id_identity_derived(ob, prog)          # the map key

    with cx.ob("C04.7", "R-CALLERS", "one layer out: the public listing and subscription are plain views of the peer map - NetworkInner::peers / Network::subscribe consult nothing else (no filtering by affinity, no cache)") as ob:
        for fn_, inner in (("anemo::network::NetworkInner::peers", f"{API}::peers"), ("anemo::network::Network::subscribe", f"{API}::subscribe")):
            fb = cx.body(fn_)
            t = Origins(fb).of_local(0)
            uses = term_has_call(t, inner) or any(x == ("fnptr", inner) for x in walk(t))
            ob.require(uses, f"view/{fn_.split('::')[-1]}/answers-with-the-map", f"{fn_} returns {show(t)[:120]}", fb.path)
            bodies = [fb] + list(prog.children(fb))
            other = sorted({(c.fn or "?") for b_ in bodies for c in b_.calls() if not b_.is_cleanup(c.bb) and c.local and not is_tracing(c)
                            and not name_matches(c.fn or "", (inner, "ActivePeersRef::upgrade", f"{API}::peers", f"{API}::subscribe"))})
            ob.require(not other, f"view/{fn_.split('::')[-1]}/nothing-else", f"{fn_} also consults {[o_.split('::')[-1] for o_ in other][:4]}", fb.path)
        check_api_forwarder(ob, prog, "peers")
