"""C13 — Background dialing: who is dialed, how often, and that it succeeds."""
from .engine import AnchorLost, Undecidable
from .lib import *
from .mir import Origins, show, strip_identity, walk, name_matches, term_has_call

CM = "anemo::network::connection_manager"
MGR = f"{CM}::ConnectionManager"
HC = f"{MGR}::handle_connectivity_check"
BS = f"{CM}::DialBackoffState"

EXPLANATION = """
All timing clauses (within one interval, after k failures within .., eventually connected) quantify over
clocks and fault schedules and are NOT decided. Decided, inside the synchronous connectivity check and
the backoff state: the eligibility predicate's decision table — the only path returning true is
affinity High ∧ id ≠ own id ∧ address list non-empty ∧ not connected ∧ no pending dial ∧ (no backoff
state or now >/≥ backoff), every other path returns false, each test on the right operands; the backoff
formula attempts += 1, backoff = now + min(max_backoff, step.saturating_mul(attempts)) and
new() = zero attempts then update(); the drain of finished dials: success removes the backoff state,
failure updates/creates it with (now, config.connection_backoff(), config.max_connection_backoff()) in
this order, both drop the pending entry, an unfinished dial is kept; the dialed address is
address.remove(attempts-or-0 % len) (rotation), dial_peer gets (that address, Some(that peer's id),
sender) and pending_dials gets (that id, receiver) of the same oneshot channel; the number of dials
started is min(eligible, max_outstanding.saturating_sub(pending_connections.len())); the tick period is
the configured interval plus at most 1 s of jitter and the tick arm runs the connectivity check.
Config accessors feeding the dialer (interval, backoff step, backoff cap, connecting cap) are pure projections of their own field.
The check is driven by one interval owned by the manager loop and created outside it (a timer re-armed per iteration would be starved by busier arms).
A lost connection leaves the connected set without a suspension in between (C04.4 re-evaluated), so the next check sees the peer as not connected.
"""
TRUSTED = ["tokio interval ticks no earlier than its period", "std Instant/Duration arithmetic"]
NOT_DECIDED = ["every timing bound of the property (one interval + jitter, min(max-backoff, k×step) + two intervals)", "that dialing eventually succeeds",
               "long virtual-time histories of peers becoming reachable and unreachable"]
ASSUMPTIONS = []


def run(cx):
    prog = cx.prog
    hc = cx.body(HC)
    ho = Origins(hc)
    kids = {k.path: k for k in prog.children(hc)}

    ELIG = {}

    with cx.ob("C13.1", "R-TABLE", "eligibility predicate: true only for High ∧ not self ∧ has address ∧ not connected ∧ not pending ∧ backoff elapsed") as ob:
        # the eligible set is computed either as `known_peers.values().filter(<closure>).cloned().collect()` or by the
        # written-out loop `for info in known_peers.values() { if <tests> { continue } eligible.push(info.clone()) }`
        fl = [c for c in hc.calls_to("core::iter::traits::iterator::Iterator::filter") if not hc.is_cleanup(c.bb)]
        fmap = False
        if not fl:
            # `.filter_map(|info| <tests>.then(|| info.clone()))` - the same predicate, its value handed to bool::then
            fl = [c for c in hc.calls_to("core::iter::traits::iterator::Iterator::filter_map") if not hc.is_cleanup(c.bb)]
            fmap = bool(fl)
        nxs = [c for c in hc.calls() if not hc.is_cleanup(c.bb) and name_matches(c.fn, "Iterator::next")
               and term_has_call(ho.of_operand(c.args[0]), "HashMap::values") and term_has_call(ho.of_operand(c.args[0]), f"{CM}::KnownPeers::inner")]
        loop_form = not fl and len(nxs) == 1
        if not loop_form:
            ob.floor(fl, 1, "filter in handle_connectivity_check", exact=True)
            src = ho.of_operand(fl[0].args[0])
            cl = ho.of_operand(fl[0].args[1])
            b = kids.get(cl[2]) if cl[0] == "agg" else None
            if b is None:
                raise AnchorLost("eligibility closure")
            kw_words = {}

            def is_pi(t):
                return mentions_param(t, "peer_info") or any(x[0] == "param" and x[1] == 2 for x in walk(t))
            RES = 0          # the local holding the predicate's value: the closure's return slot ...
            if fmap:
                bo_ = Origins(b)
                th = [c for c in b.calls() if not b.is_cleanup(c.bb) and name_matches(c.fn, ("bool::then", "bool::then_some")) and c.dest == 0]
                ob.floor(th, 1, "`<predicate>.then(|| info.clone())` as the filter_map closure's result", exact=True)
                RES = place_local(op_place(th[0].args[0])) if op_place(th[0].args[0]) is not None else None      # ... or the bool given to then()
                for _ in range(4):
                    ds_ = [d for d in b.defs().get(RES, []) if d[0] != "partial"]
                    if len(ds_) == 1 and ds_[0][0] == "assign" and ds_[0][3]["k"] == "use" and isinstance(op_place(ds_[0][3]["op"]), int):
                        RES = op_place(ds_[0][3]["op"])
                    else:
                        break
                pay = strip_identity(bo_.of_operand(th[0].args[1]))
                okp = False
                if pay[0] == "agg" and pay[1] == "closure" and pay[2] in prog.bodies:
                    r_ = strip_identity(Origins(prog.bodies[pay[2]]).of_local(0))
                    cap = [strip_identity(x) for x in pay[3]]
                    okp = (r_[0] == "upvar" or (r_[0] == "call" and name_matches(r_[1], "Clone::clone"))) and len(cap) == 1 and is_pi(cap[0])      # (clone is an identity step of terms)
                elif name_matches(th[0].fn, "bool::then_some"):
                    okp = pay[0] == "call" and name_matches(pay[1], "Clone::clone") and is_pi(pay)
                ob.require(okp, "eligible/filter-map-yields-the-peer", f"the filter_map closure yields {show(pay)[:80]}, not a clone of the inspected peer", b.path)
            ELIG["term"] = lambda t: (term_has_call(t, "Iterator::filter_map") if fmap else term_has_call(t, "Iterator::filter")) and term_has_call(t, "Iterator::collect")
        else:
            ob.count(1)
            src = ho.of_operand(nxs[0].args[0])
            b = hc
            head = nxs[0].bb
            si_ = switch_info(hc, nxs[0].target, ho)
            some_t = [t_ for t_, ls_ in (si_[1].items() if si_ else []) if ls_ == {"Some"}]
            if len(some_t) != 1:
                raise AnchorLost("`Some(info)` edge of the eligibility loop")
            kw_words = {"start": some_t[0], "stops": [head]}
            RES = 0

            def is_pi(t):
                return term_has_call(t, "Iterator::next") and term_has_call(t, "HashMap::values") and term_has_call(t, f"{CM}::KnownPeers::inner")
            pushes = [c for c in hc.calls_to("vec::Vec::push") if not hc.is_cleanup(c.bb) and is_pi(ho.of_operand(c.args[1]))]
            ob.floor(pushes, 1, "eligible.push(info.clone()) in the eligibility loop", exact=True)
            vec_t = strip_identity(ho.of_operand(pushes[0].args[0]))
            ob.require(vec_t[0] == "call" and name_matches(vec_t[1], ("vec::Vec::new", "vec::Vec::with_capacity")), "eligible/loop-target", f"eligible peers are pushed to {show(vec_t)[:60]}", hc.path)
            ELIG["term"] = lambda t, vec_t=vec_t: any(x == vec_t for x in walk(t))
        ob.require(term_has_call(src, "HashMap::values") and term_has_call(src, f"{CM}::KnownPeers::inner") and mentions_field(src, "known_peers"), "eligible/source",
                   f"eligible peers are filtered from {show(src)[:100]}", hc.path)
        sub = {k.path: k for k in prog.children(b)}

        def X(t):
            """the term in handle_connectivity_check's own context (closure captures replaced by what was captured)"""
            return expand_upvars(prog, b, t) if b is not hc else t

        def pid(t):
            return mentions_field(t, "peer_id") and is_pi(t)

        def is_now(t):
            return mentions_upvar(t, "now") or mentions_param(t, "now")

        def on_self_field(t, f):
            return mentions_upvar(t, "self__" + f) or (mentions_field(X(t), f) and mentions_param(X(t), "self"))

        def call_sym(c, o):
            return None

        def backoff_state(t):
            g = strip_identity(t)
            while g[0] in ("field", "variant"):
                g = strip_identity(g[1])
            return g[0] == "call" and name_matches(g[1], "HashMap::get") and on_self_field(g[2][0], "dial_backoff_states") and pid(g[2][1])

        def extra(a, bb, subj, labels, o):
            lab = "|".join(sorted(labels))
            if subj[0] == "discr" and mentions_field(subj[1], "affinity") and is_pi(subj[1]):
                return "aff=" + lab
            if subj[0] == "discr" and backoff_state(subj[1]) and strip_identity(subj[1])[0] == "call":
                return "backoff-state=" + lab          # the written-out form of `.map(|s| now > s.backoff).unwrap_or(true)`
            n = normalize_cmp(subj)
            if n is not None:
                neg, op, x, y = n
                if op in ("lt", "le", "gt", "ge") and labels in ({"true"}, {"false"}):
                    bx = mentions_field(x, "backoff") and backoff_state(strip_identity(x)[1] if strip_identity(x)[0] == "field" else x)
                    by = mentions_field(y, "backoff") and backoff_state(strip_identity(y)[1] if strip_identity(y)[0] == "field" else y)
                    if (bx and is_now(y)) or (by and is_now(x)):
                        tv = cmp_truth(op, bool(bx), labels, neg)          # truth of `backoff >= now`
                        return ("elapsed=" + str(not tv).lower()) if tv is not None else f"?cmp:{op}"
                if op in ("eq", "ne") and labels in ({"true"}, {"false"}):
                    sides = sorted(("peer" if pid(t) else "own" if (term_has_call(t, "anemo::endpoint::Endpoint::peer_id") and on_self_field(t, "endpoint")) else "?") for t in (x, y))
                    if sides == ["own", "peer"]:
                        differs = ((labels == {"true"}) != neg) == (op == "ne")
                        return "is-self=" + str(not differs).lower()
            s = subj
            neg = False
            while s[0] == "unop" and s[1] == "Not":
                neg = not neg
                s = s[2]
            s = strip_identity(s)
            if s[0] == "call" and labels in ({"true"}, {"false"}):
                val = (labels == {"true"}) != neg
                if name_matches(s[1], "vec::Vec::is_empty") and mentions_field(s[2][0], "address") and is_pi(s[2][0]):
                    return "no-address=" + str(val).lower()
                if name_matches(s[1], "HashMap::contains_key") and mentions_field(s[2][0], "connections") and (mentions_upvar(s[2][0], "active_peers") or (term_has_call(X(s[2][0]), "ActivePeers::inner") and mentions_field(X(s[2][0]), "active_peers"))) and pid(s[2][1]):
                    return "connected=" + str(val).lower()
                if name_matches(s[1], "HashMap::contains_key") and on_self_field(s[2][0], "pending_dials") and pid(s[2][1]):
                    return "pending=" + str(val).lower()
            return None

        def stmt_sym(bbi, s, o):
            if s["lhs"] == RES and getattr(o, "body", b) is b:
                rv = s["rv"]
                if rv["k"] == "use" and rv["op"].get("k") == "const" and rv["op"].get("ty") == "bool":
                    return "ret=" + ("true" if rv["op"]["int"] else "false")
                return "ret=?" + show(o.of_rvalue(rv))[:60]
            return None

        def call_sym2(c, o):
            if loop_form:
                if name_matches(c.fn, "vec::Vec::push"):
                    return "ret=true" if (c.bb == pushes[0].bb and term_has_call(o.of_operand(c.args[1]), "Clone::clone")) else "push(?)"
                return None
            if c.dest == RES and getattr(o, "body", b) is b and not b.is_cleanup(c.bb):
                t = strip_identity(("call", c.fn, tuple(o.of_operand(a) for a in c.args), c.bb))
                if name_matches(c.fn, ("cmp::PartialOrd::gt", "cmp::PartialOrd::ge", "cmp::PartialOrd::lt", "cmp::PartialOrd::le")) and len(t[2]) == 2:
                    x_, y_ = t[2]
                    if name_matches(c.fn, ("cmp::PartialOrd::lt", "cmp::PartialOrd::le")):
                        x_, y_ = y_, x_                 # `backoff < now`  ==  `now > backoff`
                    if is_now(x_) and mentions_field(y_, "backoff") and backoff_state(strip_identity(y_)[1] if strip_identity(y_)[0] == "field" else y_):
                        return "ret=backoff-elapsed"
                # any combinator spelling of "no backoff state, or its backoff has elapsed": `.map(|s| now > s.backoff).unwrap_or(true)`,
                # `.map_or(true, ..)`, `.is_none_or(|s| s.backoff < now)`, ... - decided on the value's case table
                def atom(t_):
                    if t_[0] == "call" and name_matches(t_[1], "HashMap::get") and on_self_field(t_[2][0], "dial_backoff_states") and pid(t_[2][1]):
                        return "state"
                    if t_[0] == "call" and name_matches(t_[1], ("cmp::PartialOrd::gt", "cmp::PartialOrd::ge", "cmp::PartialOrd::lt", "cmp::PartialOrd::le")) and len(t_[2]) == 2:
                        x_, y_ = t_[2]
                        swap = name_matches(t_[1], ("cmp::PartialOrd::lt", "cmp::PartialOrd::le"))
                        if swap:
                            x_, y_ = y_, x_
                        if is_now(x_) and mentions_field(y_, "backoff"):
                            return ("elapsed", "bool")
                        if is_now(y_) and mentions_field(x_, "backoff"):
                            return ("not-elapsed", "bool")
                    return None
                vc = value_cases(prog, t, atom)
                rows = {}
                for cs_, o_ in vc:
                    rows.setdefault(frozenset(cs_), set()).add(o_)

                def look(**kw):
                    out_ = set()
                    for k_, v_ in rows.items():
                        d_ = dict(k_)
                        if "not-elapsed" in d_:
                            d_["elapsed"] = "false" if d_.pop("not-elapsed") == "true" else "true"
                        if all(d_.get(a_, b_) == b_ for a_, b_ in kw.items()):
                            out_ |= v_
                    return out_
                if rows and look(state="None") == {"true"} and look(state="Some", elapsed="true") == {"true"} and look(state="Some", elapsed="false") == {"false"}:
                    return "ret=backoff-elapsed-or-none"
                return "ret=?call:" + c.fn.split("::")[-1]
            return None
        ws = {fmt_word(w) for w in seq_words(b, call_sym2, (None if loop_form else stmt_sym), extra, inline_prog=prog, **kw_words)}     # predicate helpers are inlined
        if loop_form:
            # one iteration: reaching the loop head again without the push = "not eligible"
            ws = {(w if "ret=true" in w.split() else w.replace("<stop>", "ret=false <stop>")) for w in ws}
        # order-insensitive semantics of the conjunction: a path may answer "eligible" only after ALL tests passed;
        # every other path answers false and has at least one failed test.
        need = {"aff": "High", "is-self": "false", "no-address": "false", "connected": "false", "pending": "false"}
        ob.count(len(ws))
        n_true = 0
        for w in sorted(ws):
            toks = w.split()
            conds = dict(t.split("=", 1) for t in toks if "=" in t and not t.startswith("ret="))
            ret = [t for t in toks if t.startswith("ret=")]
            odd = [t for t in toks if t.startswith("?") or t.startswith("ret=?")]
            if odd or len(ret) != 1:
                ob.fail("refuted", "eligible/unrecognised/" + w.replace(" ", "_")[:140], f"eligibility predicate: unrecognised path `{w}`", b.path, b.loc(), path=w)
                continue
            if ret[0] in ("ret=backoff-elapsed-or-none", "ret=true", "ret=backoff-elapsed"):
                n_true += 1
                missing = {k: v for k, v in need.items() if conds.get(k) != v}
                if ret[0] == "ret=true" and not (conds.get("backoff-state") == "None" or (conds.get("backoff-state") == "Some" and conds.get("elapsed") == "true")):
                    missing["backoff"] = "elapsed-or-none"
                if ret[0] == "ret=backoff-elapsed" and conds.get("backoff-state") != "Some":
                    missing["backoff"] = "state-present"
                if missing:
                    ob.fail("refuted", "eligible/too-permissive/" + "+".join(sorted(missing)), f"eligibility predicate: path `{w}` answers eligible without requiring {missing}", b.path, b.loc(), path=w)
                else:
                    ob.matched += 1
            elif ret[0] == "ret=false":
                failed = [k for k, v in need.items() if k in conds and not (conds[k] == v)] + (["elapsed"] if conds.get("elapsed") == "false" and conds.get("backoff-state") == "Some" else [])
                if not failed:
                    ob.fail("refuted", "eligible/too-strict/" + w.replace(" ", "_")[:140], f"eligibility predicate: path `{w}` answers false although every test it made passed", b.path, b.loc(), path=w)
                else:
                    ob.matched += 1
            else:
                ob.fail("refuted", "eligible/unrecognised-result/" + w.replace(" ", "_")[:140], f"eligibility predicate: path `{w}`", b.path, b.loc(), path=w)
        ob.require(n_true >= 1, "eligible/some-eligible-path", "eligibility predicate never answers eligible", b.path)
        ob.set_sample({"closure": b.path, "table": sorted(ws)})
        # the guards captured are the live maps
        if not loop_form:
            caps = {u["name"] for u in b.upvars}
            # (field by field - edition-2021 disjoint captures - or `self` as a whole when the predicate lives in a method)
            ob.require({"active_peers", "now"} <= caps and ("self" in caps or {"self__pending_dials", "self__dial_backoff_states", "self__endpoint"} <= caps), "eligible/captures",
                       f"closure captures {sorted(caps)}", b.path)

    with cx.ob("C13.2", "R-FLOW", "backoff: attempts+1, now + min(max, step×attempts); drain: success clears, failure updates/creates with (now, step, max), unfinished kept") as ob:
        ub = cx.body(f"{BS}::update")
        uo = Origins(ub)
        adds = [c for c in ub.calls() if name_matches(c.fn, "ops::arith::Add::add") and not ub.is_cleanup(c.bb)]
        ob.floor(adds, 1, "Instant + Duration in update", exact=True)
        a0, a1 = uo.of_operand(adds[0].args[0]), strip_identity(uo.of_operand(adds[0].args[1]))
        ok = is_param(a0, "now") and a1[0] == "call" and name_matches(a1[1], ("cmp::min", "cmp::Ord::min"))
        if ok:
            ms = [strip_identity(x) for x in a1[2]]
            mx = [x for x in ms if is_param(x, "max_backoff")]
            mul = [x for x in ms if x[0] == "call" and name_matches(x[1], "time::Duration::saturating_mul")]
            ok = len(mx) == 1 and len(mul) == 1 and is_param(mul[0][2][0], "backoff_step") and mentions_field(mul[0][2][1], "attempts") and mentions_param(mul[0][2][1], "self")
        ob.require(ok, "update/formula", f"backoff = {show(a0)} + {show(a1)[:140]}", ub.path)
        # written to self.backoff; attempts incremented by one before use
        ws_ = [a for a in field_accesses(prog, BS, "backoff") if a[2] == "write" and a[0].path == ub.path and not a[0].is_cleanup(a[1])]
        ob.require(len(ws_) == 1, "update/writes-backoff", "update does not store the new backoff", ub.path)
        wa = [a for a in field_accesses(prog, BS, "attempts") if a[2] == "write" and a[0].path == ub.path and not a[0].is_cleanup(a[1])]
        ok = len(wa) == 1
        if ok:
            t = uo.of_rvalue(wa[0][3]["rv"]) if "rv" in wa[0][3] else ("u",)
            ok = any(x[0] == "binop" and x[1] in ("Add", "AddWithOverflow") and any(int_of(y) == 1 for y in x[2:4] if isinstance(y, tuple)) for x in walk(t))
            ok = ok and ub.dominates(wa[0][1], adds[0].bb)
        ob.require(ok, "update/increments-attempts", "update does not increment attempts by one before computing the backoff", ub.path)
        nb = cx.body(f"{BS}::new")
        no = Origins(nb)
        uc = nb.calls_to(f"{BS}::update")
        ob.floor(uc, 1, "update in new", exact=True)
        st = strip_identity(no.of_operand(uc[0].args[0]))
        ok = st[0] == "agg" and int_of(dict(zip(st[4], st[3]))["attempts"]) == 0 and is_param(no.of_operand(uc[0].args[1]), "now") \
            and is_param(no.of_operand(uc[0].args[2]), "backoff_step") and is_param(no.of_operand(uc[0].args[3]), "max_backoff")
        ob.require(ok, "new/zero-then-update", f"DialBackoffState::new = update on {show(st)}", nb.path)
        # drain closure
        rt = [c for c in hc.calls_to("HashMap::retain") if mentions_field(ho.of_operand(c.args[0]), "pending_dials")]
        ob.floor(rt, 1, "pending_dials.retain", exact=True)
        cl = ho.of_operand(rt[0].args[1])
        d = kids.get(cl[2]) if cl[0] == "agg" else None
        if d is None:
            raise AnchorLost("drain closure")

        def args_ok(c, o, first, kb=None):
            kb = kb or d
            a = [o.of_operand(x) for x in c.args[first:first + 3]]
            # step / max may be read inside the closure or hoisted out of it and captured
            a1, a2 = expand_upvars(prog, kb, a[1]), expand_upvars(prog, kb, a[2])
            a0 = strip_identity(a[0])
            now_ok = a0 == ("upvar", "now") or (a0[0] == "upvar" and strip_identity(expand_upvars(prog, kb, a0)) in (("upvar", "now"),) ) or \
                (a0[0] == "upvar" and term_has_call(expand_upvars(prog, kb, a0), "Instant::now"))
            return now_ok and term_has_call(a1, "anemo::config::Config::connection_backoff") and term_has_call(a2, "anemo::config::Config::max_connection_backoff")

        def on_states(t):
            """the map is self.dial_backoff_states - captured by field, or through an alias (`let states = &mut self.dial_backoff_states`)"""
            if mentions_upvar(t, "self__dial_backoff_states"):
                return True
            e = expand_upvars(prog, d, t)
            return mentions_field(e, "dial_backoff_states") and mentions_param(e, "self")

        def upsert(c, o, which):
            """`entry.and_modify(|s| s.update(now, step, max))` / `.or_insert_with(|| DialBackoffState::new(now, step, max))`"""
            cl = o.of_operand(c.args[1])
            kb = prog.bodies.get(cl[2]) if cl[0] == "agg" and cl[1] == "closure" else None
            if kb is None:
                return False
            ko = Origins(kb)
            cs_ = [x for x in kb.calls() if not kb.is_cleanup(x.bb) and not is_tracing(x)]
            if which == "update":
                return len(cs_) == 1 and name_matches(cs_[0].fn, f"{BS}::update") and any(y[0] == "param" for y in walk(ko.of_operand(cs_[0].args[0]))) and args_ok(cs_[0], ko, 1, kb)
            return len(cs_) == 1 and name_matches(cs_[0].fn, f"{BS}::new") and cs_[0].dest == 0 and args_ok(cs_[0], ko, 0, kb)

        def call_sym(c, o):
            if name_matches(c.fn, "tokio::sync::oneshot::Receiver::try_recv"):
                return "try_recv" if is_param(o.of_operand(c.args[0]), "oneshot") else "try_recv(?)"
            if name_matches(c.fn, "HashMap::remove"):
                ok = on_states(o.of_operand(c.args[0])) and is_param(o.of_operand(c.args[1]), "peer_id")
                return "clear-backoff" if ok else "remove(?)"
            if name_matches(c.fn, "HashMap::entry"):
                ok = on_states(o.of_operand(c.args[0])) and is_param(strip_identity(o.of_operand(c.args[1])), "peer_id")
                return "entry" if ok else "entry(?)"
            if name_matches(c.fn, "HashMap::get_mut"):
                ok = on_states(o.of_operand(c.args[0])) and is_param(strip_identity(o.of_operand(c.args[1])), "peer_id")
                return "get_mut" if ok else "get_mut(?)"
            if name_matches(c.fn, f"{BS}::update"):
                recv = o.of_operand(c.args[0])
                on_state = term_has_call(recv, "OccupiedEntry::get_mut") or (term_has_call(recv, "HashMap::get_mut") and on_states(recv))
                return "update(now,step,max)" if args_ok(c, o, 1) and on_state else "update(?)"
            if name_matches(c.fn, f"{BS}::new"):
                return "new(now,step,max)" if args_ok(c, o, 0) else "new(?)"
            if name_matches(c.fn, "VacantEntry::insert"):
                return "insert" if term_has_call(o.of_operand(c.args[1]), f"{BS}::new") else "insert(?)"
            if name_matches(c.fn, "hash::map::Entry::and_modify"):
                return "and_modify{update(now,step,max)}" if term_has_call(o.of_operand(c.args[0]), "HashMap::entry") and upsert(c, o, "update") else "and_modify(?)"
            if name_matches(c.fn, "hash::map::Entry::or_insert_with"):
                return "or_insert_with{new(now,step,max)}" if term_has_call(o.of_operand(c.args[0]), "Entry::and_modify") and upsert(c, o, "new") else "or_insert_with(?)"
            if name_matches(c.fn, "HashMap::insert"):
                ok = on_states(o.of_operand(c.args[0])) and is_param(strip_identity(o.of_operand(c.args[1])), "peer_id") \
                    and term_has_call(o.of_operand(c.args[2]), f"{BS}::new")
                return "insert" if ok else "upsert(?)insert"
            if name_matches(c.fn, ("hash::map::Entry::or_insert", "hash::map::Entry::or_default", "hash::map::Entry::insert_entry")):
                return "upsert(?)" + c.fn.split("::")[-1]
            if name_matches(c.fn, "core::panicking::panic_fmt") and (c.exp or "").endswith("panic!"):
                return "BUG-panic"
            return None

        def extra(a, bb, subj, labels, o):
            lab = "|".join(sorted(labels))
            if subj[0] == "discr":
                r = strip_identity(subj[1])
                if term_has_call(r, "Receiver::try_recv"):
                    depth = len([x for x in walk(r) if x[0] == "variant"])
                    return ("recv" if depth == 0 else "inner" if any(x[0] == "variant" and x[2] == "Ok" for x in walk(r)) else "err") + "=" + lab
                if r[0] == "call" and name_matches(r[1], "HashMap::entry"):
                    return "[" + lab + "]"
            return None

        def stmt_sym(bbi, s, o):
            if s["lhs"] == 0 and s["rv"]["k"] == "use" and s["rv"]["op"].get("ty") == "bool":
                return "keep=" + ("true" if s["rv"]["op"]["int"] else "false")
            return None
        ws = {fmt_word(w) for w in seq_words(d, call_sym, stmt_sym, extra, strict=False)}
        ws = {w for w in ws if "<diverge>" not in w or "BUG-panic" in w}     # debug_assert failure path diverges
        want = {"try_recv recv=Ok inner=Ok clear-backoff keep=false <return>", "try_recv recv=Ok inner=Err entry [Occupied] update(now,step,max) keep=false <return>",
                "try_recv recv=Ok inner=Err entry [Vacant] new(now,step,max) insert keep=false <return>", "try_recv recv=Err err=Closed BUG-panic <diverge>",
                "try_recv recv=Err err=Empty keep=true <return>"}
        # the update-or-create step may be the explicit match on the entry or the entry API's and_modify/or_insert_with
        up = "try_recv recv=Ok inner=Err entry and_modify{update(now,step,max)} or_insert_with{new(now,step,max)} keep=false <return>"
        if up in ws:
            want = {w for w in want if "[Occupied]" not in w and "[Vacant]" not in w} | {up}
        # or `if let Some(state) = states.get_mut(id) { state.update(..) } else { states.insert(id, new(..)) }`
        gm = {"try_recv recv=Ok inner=Err get_mut update(now,step,max) keep=false <return>", "try_recv recv=Ok inner=Err get_mut [None] new(now,step,max) insert keep=false <return>"}
        if gm <= ws:
            want = {w for w in want if "[Occupied]" not in w and "[Vacant]" not in w} | gm
        ob.count(len(ws))
        for w in sorted(ws - want):
            ob.fail("refuted", "drain/unexpected/" + w.replace(" ", "_")[:140], f"drain closure: path `{w}` not in the specified behaviour", d.path, d.loc(), path=w)
        for w in sorted(want - ws):
            ob.fail("refuted", "drain/missing/" + w.replace(" ", "_")[:140], f"drain closure: required behaviour `{w}` missing", d.path, d.loc(), path=w)
        if ws == want:
            ob.matched += len(ws)
        for g, f in (("connection_backoff", "connection_backoff_ms"), ("max_connection_backoff", "max_connection_backoff_ms")):
            gb = cx.body(f"anemo::config::Config::{g}")
            t = Origins(gb).of_local(0)
            ob.require(mentions_field(t, f) and (any(x == ("fnptr", "core::time::Duration::from_millis") for x in walk(t)) or term_has_call(t, "time::Duration::from_millis")), f"config/{g}", f"Config::{g} = {show(t)[:100]}", gb.path)

    with cx.ob("C13.3", "R-FLOW", "rotation and pairing: address = address.remove(attempts-or-0 % len); dial_peer(address, Some(id), sender) and pending_dials.insert(id, receiver) of one channel") as ob:
        rm = hc.calls_to("alloc::vec::Vec::remove")
        ob.floor(rm, 1, "address.remove", exact=True)
        v = ho.of_operand(rm[0].args[0])
        idx = strip_identity(ho.of_operand(rm[0].args[1]))
        ob.require(mentions_field(v, "address") and term_has_call(v, "Iterator::next"), "rotate/from-address-list", f"remove on {show(v)[:80]}", hc.path)
        ok = idx[0] == "binop" and idx[1] == "Rem"
        if ok:
            num, den = strip_identity(idx[2]), strip_identity(idx[3])
            # attempts-or-0 as a match: phi(0 | (get(id) as Some).0.attempts)
            if num[0] == "phi" and len(num[1]) == 2 and den[0] == "call" and name_matches(den[1], "vec::Vec::len") and mentions_field(den, "address"):
                zs = [x for x in num[1] if int_of(x) == 0]
                at = [strip_identity(x) for x in num[1] if int_of(x) is None]
                okm = len(zs) == 1 and len(at) == 1 and at[0][0] == "field" and at[0][2] == "attempts" and term_has_call(at[0], "HashMap::get") \
                    and mentions_field(at[0], "dial_backoff_states") and any(x[0] == "variant" and x[2] == "Some" for x in walk(at[0]))
            else:
                okm = False
            # attempts-or-0: `get(id).map(|s| s.attempts).unwrap_or(0)` or `get(id).map_or(0, |s| s.attempts)`
            form_a = num[0] == "call" and name_matches(num[1], "Option::unwrap_or") and int_of(num[2][1]) == 0
            form_b = num[0] == "call" and name_matches(num[1], "Option::map_or") and int_of(num[2][1]) == 0
            ok = (form_a or form_b) and term_has_call(num, "HashMap::get") and mentions_field(num, "dial_backoff_states") \
                and den[0] == "call" and name_matches(den[1], "vec::Vec::len") and mentions_field(den, "address")
            if okm:
                ok = True
            elif ok:
                mp = strip_identity(num[2][0])
                if form_b:
                    mc = [num[2][2]] if num[2][2][0] == "agg" else []
                else:
                    mc = [mp[2][1]] if mp[0] == "call" and name_matches(mp[1], "Option::map") and mp[2][1][0] == "agg" else []
                kb = kids.get(mc[0][2]) if mc else None
                r = strip_identity(Origins(kb).of_local(0)) if kb is not None else ("u",)
                ok = r[0] == "field" and r[2] == "attempts"
        ob.require(ok, "rotate/index", f"address index is {show(idx)[:140]}", hc.path)
        dp = hc.calls_to(f"{MGR}::dial_peer")
        ins = [c for c in hc.calls_to("HashMap::insert") if mentions_field(ho.of_operand(c.args[0]), "pending_dials")]
        ch = hc.calls_to("tokio::sync::oneshot::channel")
        ob.floor(dp, 1, "dial_peer", exact=True)
        ob.floor(ins, 1, "pending_dials.insert", exact=True)
        ob.floor(ch, 1, "oneshot::channel", exact=True)
        a = [ho.of_operand(x) for x in dp[0].args]
        addr = strip_identity(a[1])
        ob.require(addr[0] == "call" and addr[3] == rm[0].bb, "dial/address", f"dialed address is {show(addr)[:80]}", hc.path)
        pidt = strip_identity(a[2])
        okp = pidt[0] == "agg" and pidt[2].endswith("Option::Some") and mentions_field(pidt[3][0], "peer_id") and term_has_call(pidt[3][0], "Iterator::next")
        ob.require(okp, "dial/pinned-id", f"dial_peer id is {show(pidt)[:80]}", hc.path)
        snd = strip_identity(a[3])
        rcv = strip_identity(ho.of_operand(ins[0].args[2]))
        ok = snd[0] == "field" and snd[2] == "0" and rcv[0] == "field" and rcv[2] == "1" and strip_identity(snd[1]) == strip_identity(rcv[1]) and strip_identity(snd[1])[3] == ch[0].bb
        ob.require(ok, "dial/channel-pair", f"sender {show(snd)[:60]} / receiver {show(rcv)[:60]}", hc.path)
        key = ho.of_operand(ins[0].args[1])
        ob.require(mentions_field(key, "peer_id") and term_has_call(key, "Iterator::next") and okp and strip_identity(key) == strip_identity(pidt[3][0]), "dial/same-id",
                   f"pending key {show(key)[:60]} vs dialed id", hc.path)
        cyc = hc.cyclic_blocks()
        ob.require(dp[0].bb in cyc and ins[0].bb in cyc and hc.dominates(dp[0].bb, ins[0].bb), "dial/one-per-peer", "dial_peer / pending insert are not paired inside the dial loop", hc.path)

    with cx.ob("C13.4", "R-FLOW", "in-flight cap: dials started = min(eligible, max_outstanding.saturating_sub(pending_connections.len()))") as ob:
        tk = hc.calls_to("core::iter::traits::iterator::Iterator::take")
        ob.floor(tk, 1, "take(number_to_dial)", exact=True)
        n = strip_identity(ho.of_operand(tk[0].args[1]))
        ok = n[0] == "call" and name_matches(n[1], ("cmp::min", "cmp::Ord::min"))
        if ok:
            xs = [strip_identity(x) for x in n[2]]
            ln = [x for x in xs if x[0] == "call" and name_matches(x[1], "vec::Vec::len") and ELIG.get("term", lambda t: False)(x)]
            sb = [x for x in xs if x[0] == "call" and name_matches(x[1], "num::saturating_sub")]
            ok = len(ln) == 1 and len(sb) == 1 and term_has_call(sb[0][2][0], "anemo::config::Config::max_concurrent_outstanding_connecting_connections") \
                and strip_identity(sb[0][2][1])[0] == "call" and name_matches(strip_identity(sb[0][2][1])[1], "JoinSet::len") and mentions_field(sb[0][2][1], "pending_connections")
        ob.require(ok, "cap/number-to-dial", f"number_to_dial = {show(n)[:160]}", hc.path)
        gb_ = cx.body("anemo::config::Config::max_concurrent_outstanding_connecting_connections")
        t_ = Origins(gb_).of_local(0)
        check_pure_accessor(ob, prog, "anemo::config::Config::max_concurrent_outstanding_connecting_connections", "max_concurrent_outstanding_connecting_connections", key="cap")
        ob.require(mentions_field(t_, "max_concurrent_outstanding_connecting_connections") and mentions_param(t_, "self"), "cap/getter",
                   f"max_concurrent_outstanding_connecting_connections() = {show(t_)[:80]}", gb_.path)
        it = ho.of_operand(tk[0].args[0])
        ob.require(ELIG.get("term", lambda t: False)(it), "cap/over-eligible", f"take over {show(it)[:80]}", hc.path)
        nx = [c for c in hc.calls() if name_matches(c.fn, "Iterator::next") and term_has_call(ho.of_operand(c.args[0]), "Iterator::take") and not hc.is_cleanup(c.bb)]
        ob.require(len(nx) == 1 and hc.calls_to(f"{MGR}::dial_peer") and hc.dominates(nx[0].bb, hc.calls_to(f"{MGR}::dial_peer")[0].bb), "cap/loop-iterates-take", "dial loop does not iterate the capped iterator", hc.path)
        # dials go through pending_connections (so they count)
        db = cx.body(f"{MGR}::dial_peer")
        sp = db.calls_to("tokio::task::join_set::JoinSet::spawn")
        ob.require(len(sp) == 1 and mentions_field(Origins(db).of_operand(sp[0].args[0]), "pending_connections"), "cap/dials-counted", "dial tasks are not spawned on pending_connections", db.path)

    with cx.ob("C13.5", "R-FLOW", "tick period = configured interval + ≤1 s jitter; the tick arm runs the connectivity check with the tick instant") as ob:
        cs = prog.callers_of(HC)
        ob.floor(cs, 1, "handle_connectivity_check call", exact=True)
        lb = cs[0].body
        lo = Origins(lb)
        iv = lb.calls_to("tokio::time::interval::interval")
        if not iv:
            ob.refute_and_stop("tick/persistent-timer", "the manager loop owns no tokio::time::interval: the connectivity check is not driven by one timer that lives across loop iterations "
                               "(a timer re-armed on every iteration is starved whenever another arm fires more often than the period)", lb.path)
        ob.floor(iv, 1, "tokio::time::interval", exact=True)
        ob.require(iv[0].bb not in lb.cyclic_blocks(), "tick/timer-created-once", "the interval is (re)created inside the manager loop", lb.path, lb.loc(iv[0].bb))
        p = strip_identity(lo.of_operand(iv[0].args[0]))
        ok = p[0] == "call" and name_matches(p[1], "ops::arith::Add::add")
        if ok:
            xs = [strip_identity(x) for x in p[2]]
            ci = [x for x in xs if term_has_call(x, "anemo::config::Config::connectivity_check_interval")]
            jt = [x for x in xs if x[0] == "call" and name_matches(x[1], "time::Duration::mul_f64")]
            ok = len(ci) == 1 and len(jt) == 1
            if ok:
                base, fac = strip_identity(jt[0][2][0]), strip_identity(jt[0][2][1])
                ok = base[0] == "call" and name_matches(base[1], "time::Duration::from_millis") and int_of(base[2][0]) is not None and int_of(base[2][0]) <= 1000 \
                    and fac[0] == "call" and name_matches(fac[1], "rand::random")
        ob.require(ok, "tick/period", f"tick period is {show(p)[:160]}", lb.path)
        t = lo.of_operand(cs[0].args[1])
        ob.require(term_has_call(t, "tokio::time::instant::Instant::into_std") and any(x[0] == "variant" and x[2].startswith("_") for x in walk(t)), "tick/now", f"connectivity check `now` is {show(t)[:100]}", lb.path)
        sites = select_sites(prog, lb)
        ok = False
        if sites:
            v = [x for x in walk(t) if x[0] == "variant" and x[2].startswith("_")]
            idx = int(v[0][2][1:]) if v else -1
            ok = "Interval::tick" in sites[0]["polled"].get(idx, "")
        ob.require(ok, "tick/arm", "the connectivity check is not driven by the interval tick arm", lb.path)
        tk = [c for c in lb.calls_to("tokio::time::interval::Interval::tick")]
        ob.require(len(tk) == 1 and term_has_call(lo.of_operand(tk[0].args[0]), "tokio::time::interval::interval"), "tick/interval-used", "tick() not on the interval built above", lb.path)
        check_ms_getter(ob, prog, "anemo::config::Config::connectivity_check_interval", "connectivity_check_interval_ms")
        check_ms_getter(ob, prog, "anemo::config::Config::connection_backoff", "connection_backoff_ms")
        check_ms_getter(ob, prog, "anemo::config::Config::max_connection_backoff", "max_connection_backoff_ms")
        gb = cx.body("anemo::config::Config::connectivity_check_interval")
        t = Origins(gb).of_local(0)
        ob.require(mentions_field(t, "connectivity_check_interval_ms"), "config/interval", f"connectivity_check_interval = {show(t)[:100]}", gb.path)

    with cx.ob("C13.6", "R-WRITERS", "one layer out: the dial bookkeeping (backoff states incl. attempt counts, pending dials) is written only by the connectivity check itself - no other event (an inbound connection, an explicit dial, a disconnect) clears or advances it") as ob:
        MGR_ = f"{CM}::ConnectionManager"
        for fld in ("dial_backoff_states", "pending_dials"):
            check_field_writers(ob, prog, MGR_, fld, [HC, f"{MGR_}::new"], crates=["anemo"], kinds=("mutref", "write", "move"), floor=1)
        # DialBackoffState's own fields change only in its two methods
        for fld in ("backoff", "attempts"):
            check_field_writers(ob, prog, BS, fld, [f"{BS}::new", f"{BS}::update"], crates=["anemo"], kinds=("mutref", "write"))

    with cx.ob("C13.7", "R-WRITERS", "one layer out: interval, backoff step, backoff cap and connecting cap are never rewritten after the Config was built") as ob:
        check_config_immutable(ob, prog, ["connectivity_check_interval_ms", "connection_backoff_ms", "max_connection_backoff_ms", "max_concurrent_outstanding_connecting_connections"], repo=cx.repo)

    with cx.ob("C13.8", "R-MUSTPASS", "a lost connection is noticed: the peer leaves the connected set as soon as its handler sees the connection end (no suspension before the removal, C04.4 re-evaluated) - only then does the next connectivity check see a High-affinity peer that is not connected and dial it") as ob:
        from . import c04
        sub = cx.__class__("C13", prog, cx.tier, cx.config, cx.tree, repo=cx.repo)
        c04.run(sub)
        w = [x for x in sub.obs if x.oid == "C04.4"]
        ob.count(sum(x.evals for x in w))
        bad = [v for x in w for v in x.violations if "handler-exit" in v.key]
        ob.require(len(w) == 1 and not bad, "redial/lost-peer-removed-promptly", "a dead connection can stay listed (and its High-affinity peer undialed): " + "; ".join(str(v.msg) for v in bad)[:300],
                   "anemo::network::request_handler::InboundRequestHandler::start")

