"""C14 — Networks with different names never connect."""
from .engine import AnchorLost, Undecidable
from .lib import *
from .mir import Origins, show, strip_identity, walk, name_matches, term_has_call

CR = "anemo::crypto"
CV = f"{CR}::CertVerifier"
CFG = "anemo::config"
B = f"{CFG}::EndpointConfigBuilder"

EXPLANATION = """
Decides the name discipline on both verifiers and the name wiring: in CertVerifier::verify_server_cert
every path to Ok requires the dialled name to be a DNS name, to be equal to one of the verifier's own
server_names (no match → Err), the self-signed verification (C01) and
verify_is_valid_for_subject_name on the *dialled* name with its error propagated; in
verify_client_cert ClientCertVerified::assertion() is reachable only on the true edge of
Iterator::any over names built from self.server_names whose closure is
verify_is_valid_for_subject_name(name).is_ok() on the verified end-entity certificate, the false
edge returning Err (the check the property's example edit deletes). Value-origin rules show that the
client verifier accepts [primary], the server verifier [primary, alternate] (or [primary]), that each
generated certificate names exactly the name it is registered under for SNI, that the pinned-dial
verifier uses [own primary name], and that every dial passes the endpoint's primary name as SNI.
One layer out: nothing writes a field of a rustls config after the builder chain and the TLS code keeps no stateful static, so no session state crosses listeners.
The name setters of both builders store the name exactly as given (std conversions only).
"""
TRUSTED = ["rustls SNI certificate selection (ResolvesServerCertUsingSni)", "webpki subject-name matching", "rcgen puts the given names into SubjectAltName"]
NOT_DECIDED = ["adversarial hello/certificate combinations as inputs to rustls", "rustls/webpki name matching internals"]
ASSUMPTIONS = []


class _Done(Exception):
    pass


def run(cx):
    prog = cx.prog

    with cx.ob("C14.1", "R-MUSTPASS", "client side: dialled name must be a DNS name listed in server_names, and the certificate must be valid for the dialled name") as ob:
        b = cx.impl_method(CV, "ServerCertVerifier", "verify_server_cert")
        kids = {k.path: k for k in prog.children(b)}

        def call_sym(c, o):
            if name_matches(c.fn, f"{CR}::prepare_for_self_signed"):
                return "prepare"
            if name_matches(c.fn, ("Iterator::find", "Iterator::any", "Iterator::position", "slice::contains", "Iterator::find_map")) and not is_tracing(c):
                it = o.of_operand(c.args[0])
                cl = o.of_operand(c.args[1])
                ok = mentions_field(it, "server_names") and mentions_param(it, "self") and name_matches(c.fn, ("Iterator::find", "Iterator::any")) and cl[0] == "agg" and cl[2] in kids
                if ok:
                    kb = kids[cl[2]]
                    ko = Origins(kb)
                    r = strip_identity(ko.of_local(0))
                    ok = r[0] == "call" and name_matches(r[1], ("cmp::impls::eq", "cmp::PartialEq::eq")) and len(r[2]) == 2
                    if ok:
                        # one side is the closure's own parameter (an accepted name), the other its single capture (the dialled name)
                        sides = sorted(("name" if any(y[0] == "param" for y in walk(x)) else "dialled" if any(y[0] == "upvar" for y in walk(x)) else "?") for x in r[2])
                        ok = sides == ["dialled", "name"]
                        cap = cl[3]
                        ok = ok and len(cap) == 1 and any(v[0] == "variant" and v[2] == "DnsName" for v in walk(cap[0])) and mentions_param(cap[0], "server_name")
                return "find(server_names==dialled)" if ok else "find(?)"
            if name_matches(c.fn, "Option::ok_or"):
                return "ok_or(Err)" if term_has_call(o.of_operand(c.args[0]), "Iterator::find") else None
            if name_matches(c.fn, "webpki::end_entity::EndEntityCert::verify_for_usage"):
                return "verify_for_usage"
            if name_matches(c.fn, "webpki::end_entity::EndEntityCert::verify_is_valid_for_subject_name"):
                a0 = o.of_operand(c.args[0])
                a1 = o.of_operand(c.args[1])
                ok = term_has_call(a0, "VerifiedPath::end_entity") and term_has_call(a0, "EndEntityCert::verify_for_usage") and is_param(a1, "server_name")
                return "name_valid(dialled)" if ok else f"name_valid(?{show(a1)[:40]})"
            # (`.map(|_| assertion())` on the name check's result is modelled as control flow by words_of: `assertion!` appears on
            #  its Ok side only, exactly as in a written-out match)
            if name_matches(c.fn, "ServerCertVerified::assertion"):
                return "assertion!"
            return None

        def extra(a, bb, subj, labels, o):
            if subj[0] == "discr" and is_param(strip_identity(subj[1]), "server_name"):
                return "sni=" + "|".join(sorted(labels))
            r = strip_identity(subj)
            neg = False
            while r[0] == "unop" and r[1] == "Not":
                neg = not neg
                r = strip_identity(r[2])
            if r[0] == "call" and name_matches(r[1], "Iterator::any") and mentions_field(r[2][0], "server_names") and labels in ({"true"}, {"false"}):
                return [] if (labels == {"true"}) != neg else "unmatched"
            return None

        def stmt_sym(bbi, s, o):
            if s["lhs"] == 0 and s["rv"]["k"] == "agg" and s["rv"].get("adt") == "core::result::Result":
                return "ret=" + s["rv"]["variant"]
            return None
        ws = seq_words(b, call_sym, stmt_sym, extra)
        # `names.iter().find(|n| n == dialled).ok_or(Err)?` and `if !names.iter().any(|n| n == dialled) { return Err }` are the same gate
        def canon(w_):
            w_ = w_.replace(" ok_or(Err)", "").replace(" unmatched ret=Err <return>", " !err <return>")
            return w_.replace(" ret=Ok", "").replace(" ret=Err <return>", " !err <return>")
        ws = {tuple(canon(fmt_word(w)).split(" ")) for w in ws}
        okw = {fmt_word(w) for w in ws if "!err" not in w}
        ob.require(okw == {"prepare sni=DnsName find(server_names==dialled) verify_for_usage name_valid(dialled) assertion! <return>"},
                   "server-cert/ok-path", f"verify_server_cert success paths: {sorted(okw)}", b.path, b.loc())
        errs = {fmt_word(w) for w in ws} - okw
        want = {canon(x) for x in ("prepare !err <return>", "prepare sni=IpAddress ret=Err <return>",
                                   "prepare sni=DnsName find(server_names==dialled) ok_or(Err) !err <return>",
                                   "prepare sni=DnsName find(server_names==dialled) ok_or(Err) verify_for_usage !err <return>",
                                   "prepare sni=DnsName find(server_names==dialled) verify_for_usage name_valid(dialled) !err <return>")}
        ob.require(errs == want, "server-cert/err-paths", f"verify_server_cert error paths: {sorted(errs)}", b.path, b.loc())
        ob.set_sample({"body": b.path, "ok": sorted(okw), "err": sorted(errs)})

    with cx.ob("C14.2", "R-EDGE", "server side: ClientCertVerified::assertion() only if the verified client certificate is valid for one of server_names") as ob:
      try:
        b = cx.impl_method(CV, "ClientCertVerifier", "verify_client_cert")
        o = Origins(b)
        kids = {k.path: k for k in prog.children(b)}
        anys = b.calls_to("core::iter::traits::iterator::Iterator::any")
        if not anys:
            # the written-out loop: `for name in names { if cert.verify_is_valid_for_subject_name(name).is_ok() { return Ok(assertion()) } } Err(..)`
            vs = [c for c in b.calls_to("EndEntityCert::verify_is_valid_for_subject_name") if not b.is_cleanup(c.bb)]
            ob.floor(vs, 1, "verify_is_valid_for_subject_name in verify_client_cert (loop form)", exact=True)
            nm, cert = o.of_operand(vs[0].args[1]), o.of_operand(vs[0].args[0])
            ok = term_has_call(nm, "Iterator::next") and mentions_field(nm, "server_names") and mentions_param(nm, "self") and term_has_call(nm, "Iterator::collect") and term_has_call(nm, "Iterator::map")
            ob.require(ok, "client-cert/names-from-config", f"name checked is {show(nm)[:140]}", b.path)
            ok = term_has_call(cert, "VerifiedPath::end_entity") and term_has_call(cert, "EndEntityCert::verify_for_usage") and any(v[0] == "variant" and v[2] == "Continue" for v in walk(cert))
            ob.require(ok, "client-cert/verified-cert", f"certificate checked is {show(cert)[:100]}", b.path)
            gates = []
            for sw, subj, labels in find_switch_on(b, lambda s_: any(x[0] == "call" and x[3] == vs[0].bb for x in walk(s_) if x[0] == "call" and len(x) > 3), o):
                gates += [t_ for t_, ls in labels.items() if ls in ({"true"}, {"Ok"})]
            asr = b.calls_to("rustls::verify::ClientCertVerified::assertion")
            ob.floor(asr, 1, "ClientCertVerified::assertion site", exact=True)
            ob.require(len(gates) == 1 and b.all_paths_pass(0, [asr[0].bb], gates), "client-cert/assert-on-true-edge", "assertion() is reachable without a name of server_names being valid", b.path, b.loc(asr[0].bb))
            oks = [i for i, bl in enumerate(b.blocks) if not bl.get("cleanup") for s_ in bl["s"] if s_["k"] == "assign" and s_["lhs"] == 0 and s_["rv"].get("variant") == "Ok"]
            ob.require(len(oks) == 1 and gates and b.all_paths_pass(0, [oks[0]], gates), "client-cert/ok-only-on-true", "Ok(..) is produced without a valid name", b.path)
            errs = [i for i, bl in enumerate(b.blocks) if not bl.get("cleanup") for s_ in bl["s"] if s_["k"] == "assign" and s_["lhs"] == 0 and s_["rv"].get("variant") == "Err"]
            ob.require(bool(errs), "client-cert/false-is-err", "no valid name does not return Err", b.path)
            vf = b.calls_to("EndEntityCert::verify_for_usage")
            ob.require(len(vf) == 1 and b.dominates(vf[0].bb, vs[0].bb), "client-cert/after-verify", "name check precedes signature verification result", b.path)
            raise _Done()
        ob.floor(anys, 1, "Iterator::any in verify_client_cert", exact=True)
        it = o.of_operand(anys[0].args[0])
        ok = mentions_field(it, "server_names") and mentions_param(it, "self") and term_has_call(it, "Iterator::collect") and term_has_call(it, "Iterator::map")
        ob.require(ok, "client-cert/names-from-config", f"any() iterates {show(it)[:140]}", b.path)
        cl = o.of_operand(anys[0].args[1])
        ob.require(cl[0] == "agg" and cl[2] in kids, "client-cert/any-closure", f"any() predicate is {show(cl)[:80]}", b.path)
        kb = kids.get(cl[2])
        if kb is not None:
            r = strip_identity(Origins(kb).of_local(0))
            ok = r[0] == "call" and name_matches(r[1], "Result::is_ok") and term_has_call(r, "EndEntityCert::verify_is_valid_for_subject_name")
            vs = [x for x in walk(r) if x[0] == "call" and name_matches(x[1], "EndEntityCert::verify_is_valid_for_subject_name")]
            ok = ok and len(vs) == 1 and mentions_param(vs[0][2][1], "name") and mentions_upvar(vs[0][2][0], "verified_cert") and term_has_call(vs[0][2][0], "VerifiedPath::end_entity")
            ob.require(ok, "client-cert/predicate", f"any() predicate returns {show(r)[:140]}", kb.path)
            cap = cl[3]
            ob.require(len(cap) == 1 and term_has_call(cap[0], "EndEntityCert::verify_for_usage") and any(v[0] == "variant" and v[2] == "Continue" for v in walk(cap[0])),
                       "client-cert/verified-cert", f"predicate captures {show(cap[0])[:100] if cap else None}", b.path)
        # names are built by ServerName::try_from(name.as_str()) of each configured name
        mp = [c for c in b.calls_to("Iterator::map") if mentions_field(o.of_operand(c.args[0]), "server_names")]
        ob.floor(mp, 1, "map over server_names", exact=True)
        mc = o.of_operand(mp[0].args[1])
        if mc[0] == "agg" and mc[2] in kids:
            r = strip_identity(Origins(kids[mc[2]]).of_local(0))
            ok = r[0] == "call" and name_matches(r[1], "TryFrom::try_from") and mentions_param(r, "name")
            ob.require(ok, "client-cert/name-conversion", f"name conversion closure returns {show(r)}", kids[mc[2]].path)
        # edges
        sws = find_switch_on(b, lambda s: strip_identity(s)[0] == "call" and strip_identity(s)[3] == anys[0].bb, o)
        ob.floor(sws, 1, "branch on any()", exact=True)
        sw, _, labels = sws[0]
        tt = [t for t, ls in labels.items() if ls == {"true"}]
        ff = [t for t, ls in labels.items() if ls == {"false"}]
        asr = b.calls_to("rustls::verify::ClientCertVerified::assertion")
        if len(asr) > 1 and len(tt) == 1:
            # more than one place vouches for the client certificate: each must lie behind the `true` edge of the name test
            for c_ in asr:
                ob.require(b.dominates(tt[0], c_.bb) and c_.bb not in b.reachable_from(ff[0]), "client-cert/assert-on-true-edge",
                           "assertion() is reachable without any() being true (a client certificate issued for no accepted name is vouched for)", b.path, b.loc(c_.bb))
            asr = asr[:1]
        ob.floor(asr, 1, "ClientCertVerified::assertion site", exact=True)
        ob.require(len(tt) == 1 and b.dominates(tt[0], asr[0].bb) and asr[0].bb not in b.reachable_from(ff[0]), "client-cert/assert-on-true-edge",
                   "assertion() is reachable without any() being true", b.path, b.loc(asr[0].bb))
        oks = [i for i, bl in enumerate(b.blocks) if not bl.get("cleanup") for s in bl["s"] if s["k"] == "assign" and s["lhs"] == 0 and s["rv"].get("variant") == "Ok"]
        ob.require(all(b.dominates(tt[0], i) for i in oks) and len(oks) == 1, "client-cert/ok-only-on-true", "Ok(..) is produced off the any()==true edge", b.path)
        errs_on_false = [i for i in b.reachable_from(ff[0]) for s in b.blocks[i]["s"] if s["k"] == "assign" and s["lhs"] == 0 and s["rv"].get("variant") == "Err"]
        ob.require(bool(errs_on_false), "client-cert/false-is-err", "any()==false does not return Err", b.path)
        # any() itself is dominated by verify_for_usage success (name check on the *verified* cert) -- C01.5 covers assertion
        vf = b.calls_to("EndEntityCert::verify_for_usage")
        ob.require(len(vf) == 1 and b.dominates(vf[0].bb, anys[0].bb), "client-cert/after-verify", "name check precedes signature verification result", b.path)
      except _Done:
        pass

    with cx.ob("C14.3", "R-FLOW", "name lists: client verifier [primary]; server verifier [primary(, alternate)]; certificates named and registered under their own name") as ob:
        b = cx.body(f"{B}::build")
        o = Origins(b)

        def name_kind(t):
            s = strip_identity(t)
            if s[0] == "call" and name_matches(s[1], "Option::unwrap") and mentions_field(s, "server_name") and not mentions_field(s, "alternate_server_name"):
                return "primary"
            if s[0] == "field" and s[1][0] == "variant" and s[1][2] == "Some" and mentions_field(s, "alternate_server_name"):
                return "alternate"
            return "?" + show(s)[:40]
        aggs = []
        for i, bl in enumerate(b.blocks):
            if bl.get("cleanup"):
                continue
            for s in bl["s"]:
                if s["k"] == "assign" and s["rv"]["k"] == "agg" and s["rv"].get("adt") == CV:
                    names = vec_macro_elements(b, o, o.of_operand(s["rv"]["ops"][0]))
                    aggs.append((i, s["lhs"], [name_kind(n) for n in names] if names is not None else None))
        ob.floor(aggs, 2, "CertVerifier constructions in build()", exact=True)
        lists = sorted(str(a[2]) for a in aggs)
        ob.require(lists == sorted([str(["primary"]), str(["primary", "alternate"])]), "build/verifier-lists", f"CertVerifier server_names lists in build(): {lists}", b.path)
        # which verifier goes where
        cc = b.calls_to(f"{B}::client_config")
        sc = b.calls_to(f"{B}::server_config")
        ob.floor(cc, 1, "client_config call", exact=True)
        ob.floor(sc, 1, "server_config calls")

        def verifier_list(t):
            for x in walk(t):
                if x[0] == "agg" and x[2] == f"{CV}::CertVerifier":
                    n = vec_macro_elements(b, o, x[3][0])
                    return [name_kind(v) for v in n] if n is not None else None
            return None
        ob.require(verifier_list(o.of_operand(cc[0].args[2])) == ["primary"], "build/client-verifier", f"client verifier accepts {verifier_list(o.of_operand(cc[0].args[2]))}", b.path)
        def pair_kind(p):
            p = strip_identity(p)
            if p[0] == "agg" and p[1] == "tuple" and len(p[3]) == 2:
                gc = [x for x in walk(p[3][1]) if x[0] == "call" and name_matches(x[1], f"{B}::generate_cert")]
                return (name_kind(p[3][0]), name_kind(gc[0][2][1]) if len(gc) == 1 else "?")
            return ("?", "?")
        want1 = (["primary", "alternate"], [("primary", "primary"), ("alternate", "alternate")])
        want2 = (["primary"], [("primary", "primary")])
        if len(sc) >= 2:
            got = []
            for c in sc:
                vl = verifier_list(o.of_operand(c.args[2]))
                certs = vec_macro_elements(b, o, o.of_operand(c.args[0]))
                got.append((vl, [pair_kind(p) for p in certs or []]))
            ob.require(sorted(map(str, got)) == sorted(map(str, [want1, want2])), "build/server-configs", f"server configs (verifier names, (sni name, cert name) pairs): {got}", b.path)
        else:
            # one server_config call fed by values chosen on the `alternate_server_name` branch (a verifier picked per
            # branch, the certificate list extended with push): decided per path
            def b_call(c, oo):
                if name_matches(c.fn, f"{B}::server_config"):
                    vl = verifier_list(oo.of_operand(c.args[2]))
                    certs = vec_macro_elements(b, oo, oo.of_operand(c.args[0]))
                    return "cfg|" + repr(vl) + "|" + repr([pair_kind(p) for p in certs or []]) + "|" + repr(strip_identity(oo.of_operand(c.args[0])))[:400]
                if name_matches(c.fn, "vec::Vec::push") and not is_tracing(c):
                    return "push|" + repr(pair_kind(oo.of_operand(c.args[1]))) + "|" + repr(strip_identity(oo.of_operand(c.args[0])))[:400]
                return None

            def b_edge(a_, bb_, subj, labels, oo):
                if subj[0] == "discr" and mentions_field(subj[1], "alternate_server_name") and strip_identity(subj[1])[0] != "call":
                    return "alt=" + "|".join(sorted(labels))
                return None
            bws = {w for w in seq_words(b, b_call, None, b_edge, strict=False) if any(isinstance(x, str) and x.startswith("cfg|") for x in w)}
            ob.count(len(bws))
            got = {}
            import ast
            for w in bws:
                alt = [x[4:] for x in w if isinstance(x, str) and x.startswith("alt=")]
                cfgs = [x for x in w if isinstance(x, str) and x.startswith("cfg|")]
                if len(alt) != 1 or len(cfgs) != 1 or w.index(cfgs[0]) < w.index("alt=" + alt[0]):
                    ob.fail("refuted", "build/server-configs/path", f"build(): path {fmt_word(w)[:200]} does not decide the alternate name exactly once before the one server_config call", b.path)
                    continue
                _, vl_, init_, vec_ = cfgs[0].split("|", 3)
                pairs = list(ast.literal_eval(init_))
                for x in w[:w.index(cfgs[0])]:
                    if isinstance(x, str) and x.startswith("push|"):
                        _, pk_, pv_ = x.split("|", 2)
                        if pv_ == vec_:
                            pairs.append(ast.literal_eval(pk_))
                got.setdefault(alt[0], set()).add(str((ast.literal_eval(vl_), pairs)))
            ob.require(got == {"Some": {str(want1)}, "None": {str(want2)}}, "build/server-configs", f"server configs per branch (verifier names, (sni name, cert name) pairs): {got}", b.path)
        # client presents the primary certificate
        t = o.of_operand(cc[0].args[0])
        gc = [x for x in walk(t) if x[0] == "call" and name_matches(x[1], f"{B}::generate_cert")]
        ob.require(len(gc) == 1 and name_kind(gc[0][2][1]) == "primary", "build/client-cert", f"client certificate is {show(t)[:100]}", b.path)
        # EndpointConfig.server_name = primary
        ec = [s for bl in b.blocks if not bl.get("cleanup") for s in bl["s"] if s["k"] == "assign" and s["rv"]["k"] == "agg" and s["rv"].get("adt") == f"{CFG}::EndpointConfig"]
        ob.floor(ec, 1, "EndpointConfig aggregate", exact=True)
        t = o.of_rvalue(ec[0]["rv"])
        f = dict(zip(t[4], t[3]))
        ob.require(name_kind(f["server_name"]) == "primary", "build/endpoint-name", f"EndpointConfig.server_name = {show(f['server_name'])}", b.path)
        ob.require(term_has_call(f["quinn_server_config"], f"{B}::server_config") and term_has_call(f["quinn_client_config"], f"{B}::client_config"), "build/configs-stored",
                   "EndpointConfig does not store the configs built here", b.path)
        # generate_cert: exactly the given name
        gb = cx.body(f"{B}::generate_cert")
        go = Origins(gb)
        cp = gb.calls_to("rcgen::certificate::CertificateParams::new")
        ob.floor(cp, 1, "CertificateParams::new", exact=True)
        els = vec_macro_elements(gb, go, go.of_operand(cp[0].args[0]))
        ob.require(els is not None and len(els) == 1 and is_param(els[0], "server_name"), "generate_cert/names", f"certificate names: {[show(e) for e in els] if els else None}", gb.path)
        # server_config: add(&name, CertifiedKey::new(vec![cert], ..)) with name/cert of the same pair
        sb = cx.body(f"{B}::server_config")
        so = Origins(sb)
        add = sb.calls_to("ResolvesServerCertUsingSni::add")
        ob.floor(add, 1, "ResolvesServerCertUsingSni::add", exact=True)
        nm = so.of_operand(add[0].args[1])
        ck = so.of_operand(add[0].args[2])
        item = [x for x in walk(nm) if x[0] == "call" and name_matches(x[1], "Iterator::next")]
        ok = bool(item) and mentions_param(nm, "certs") and any(x[0] == "field" and x[2] == "0" for x in walk(nm))
        ob.require(ok, "server_config/sni-name", f"SNI name registered: {show(nm)[:100]}", sb.path)
        kc = [x for x in walk(ck) if x[0] == "call" and name_matches(x[1], "CertifiedKey::new")]
        ok = len(kc) == 1
        if ok:
            els = vec_macro_elements(sb, so, kc[0][2][0])
            ok = els is not None and len(els) == 1 and mentions_param(els[0], "certs") and any(x[0] == "field" and x[2] == "1" for x in walk(els[0])) \
                and term_has_call(els[0], "Iterator::next")
        ob.require(ok, "server_config/sni-cert", f"certificate registered for the SNI name: {show(ck)[:120]}", sb.path)
        # every successfully built server config selects its certificate by the claimed name (SNI resolver), never a single fixed certificate
        okret = [i for i, bl in enumerate(sb.blocks) if not bl.get("cleanup") for s_ in bl["s"] if s_["k"] == "assign" and s_["lhs"] == 0 and s_["rv"]["k"] == "agg" and s_["rv"].get("variant") == "Ok"]
        rsv = sb.calls_to("with_cert_resolver")
        ob.require(bool(okret) and bool(rsv) and all(any(sb.dominates(r_.bb, i) for r_ in rsv) for i in okret), "server_config/sni-on-all-paths",
                   "a path of server_config returns Ok without installing the SNI certificate resolver", sb.path)
        for bad_ in ("with_single_cert", "with_single_cert_with_ocsp", "with_single_cert_with_ocsp_and_sct"):
            for c_ in prog.callers_of(bad_, crates=["anemo"]):
                ob.fail("refuted", f"server_config/single-cert/{owner_path(prog, c_.body)}", f"{c_.body.path} builds a TLS server config with a fixed certificate ({bad_}): the claimed network name is no longer checked by certificate selection",
                        c_.body.path, c_.body.loc(c_.bb))
        for c_ in rsv:
            t_ = so.of_operand(c_.args[1])
            ob.require(term_has_call(t_, "ResolvesServerCertUsingSni::new"), "server_config/resolver-is-sni", f"certificate resolver is {show(t_)[:80]}", sb.path, sb.loc(c_.bb))
        rs = sb.calls_to("with_cert_resolver")
        ob.require(len(rs) == 1 and term_has_call(so.of_operand(rs[0].args[1]), "ResolvesServerCertUsingSni::new"), "server_config/resolver-installed", "SNI resolver not installed", sb.path)
        # pinned-dial verifier uses [self.server_name()]
        kb = cx.body(f"{CFG}::EndpointConfig::client_config_with_expected_server_identity")
        ko = Origins(kb)
        cvs = [s for bl in kb.blocks if not bl.get("cleanup") for s in bl["s"] if s["k"] == "assign" and s["rv"]["k"] == "agg" and s["rv"].get("adt") == CV]
        ob.floor(cvs, 1, "CertVerifier in pinned client config", exact=True)
        els = vec_macro_elements(kb, ko, ko.of_operand(cvs[0]["rv"]["ops"][0]))
        ok = els is not None and len(els) == 1 and term_has_call(els[0], f"{CFG}::EndpointConfig::server_name") and mentions_param(els[0], "self")
        ob.require(ok, "pinned/names", f"pinned verifier names: {[show(e) for e in els] if els else None}", kb.path)
        check_constructed_only_in(ob, prog, CV, [f"{B}::build", kb.path, f"<{CV} as core::clone::Clone>::clone"], floor=3)
        check_field_writers(ob, prog, CV, "server_names", [], kinds=("mutref", "write"))

    with cx.ob("C14.4", "R-FLOW", "every dial offers the endpoint's primary name as SNI") as ob:
        b = cx.body("anemo::endpoint::Endpoint::connect_with_client_config")
        o = Origins(b)
        cw = b.calls_to("quinn::endpoint::Endpoint::connect_with")
        ob.floor(cw, 1, "quinn connect_with", exact=True)
        t = strip_identity(arg_origin(cw[0], 3, o))
        ok = t[0] == "call" and name_matches(t[1], f"{CFG}::EndpointConfig::server_name") and mentions_field(t, "config") and mentions_param(t, "self")
        ob.require(ok, "dial/sni", f"SNI passed to quinn: {show(t)}", b.path, b.loc(cw[0].bb))
        ob.require(is_param(arg_origin(cw[0], 1, o), "config") and is_param(arg_origin(cw[0], 2, o), "address"), "dial/args", "connect_with does not use the given config/address", b.path)
        check_callers(ob, prog, ("quinn::endpoint::Endpoint::connect_with", "quinn::endpoint::Endpoint::connect"), [b.path], exact=1, crates=["anemo"], what="quinn connect")
        gb = cx.body(f"{CFG}::EndpointConfig::server_name")
        t = strip_identity(Origins(gb).of_local(0))
        ob.require(any(x[0] == "field" and x[2] == "server_name" for x in walk(t)) and mentions_param(t, "self"), "EndpointConfig::server_name", f"server_name() returns {show(t)}", gb.path)
        check_field_writers(ob, prog, f"{CFG}::EndpointConfig", "server_name", [], kinds=("mutref", "write"))
        # Builder::start passes primary/alternate through
        sb = cx.body("anemo::network::Builder::start")
        so = Origins(sb)
        sn = sb.calls_to(f"{B}::server_name")
        an = sb.calls_to(f"{B}::alternate_server_name")
        ob.require(len(sn) == 1 and mentions_field(so.of_operand(sn[0].args[1]), "server_name") and not mentions_field(so.of_operand(sn[0].args[1]), "alternate_server_name"),
                   "start/primary", "Builder::start does not pass its server_name as the primary name", sb.path)
        ob.require(len(an) == 1 and mentions_field(so.of_operand(an[0].args[1]), "alternate_server_name"), "start/alternate", "Builder::start does not pass its alternate name", sb.path)

    with cx.ob("C14.5", "R-WRITERS", "one layer out: the TLS configurations are what the rustls builder chain produces - nothing writes a field of a rustls ServerConfig / ClientConfig afterwards (session storage, tickets, resumption, early data and key log stay per-config defaults, so a session can never be resumed past the verifiers of another listener) and no TLS state lives in a static") as ob:
        n = 0
        for p_, b_ in prog.bodies.items():
            if b_.crate != "anemo":
                continue
            for i_, bl in enumerate(b_.blocks):
                if bl.get("cleanup"):
                    continue
                for st in bl["s"]:
                    if st["k"] == "assign" and not isinstance(st["lhs"], int) and st["lhs"]["p"]:
                        n += 1
                        ty = b_.local_ty(st["lhs"]["l"])
                        ob.require(not ty.startswith(("rustls::server::server_conn::ServerConfig", "rustls::client::client_conn::ClientConfig", "&mut rustls::server::server_conn::ServerConfig", "&mut rustls::client::client_conn::ClientConfig")),
                                   f"tls-config-field-written/{owner_path(prog, b_)}", f"{b_.path} writes into a rustls config ({ty[:60]}) after building it", b_.path, b_.loc(i_))
        ob.floor(n, 20, "projection writes inspected in crate anemo")
        MUT = ("OnceLock", "OnceCell", "LazyLock", "Lazy<", "Mutex", "RwLock", "Atomic", "RefCell", "UnsafeCell", "DashMap")
        check_builder_setters(ob, prog, "anemo::network::Builder", {"server_name": ("server_name", "server_name"), "alternate_server_name": ("alternate_server_name", "server_name")})
        check_builder_setters(ob, prog, "anemo::config::EndpointConfigBuilder", {"server_name": ("server_name", "server_name"), "alternate_server_name": ("alternate_server_name", "server_name")},
                              key="endpoint-builder")
        statics = [p_ for p_, b_ in prog.bodies.items() if b_.crate == "anemo" and b_.kind.startswith("Static") and p_.startswith(("anemo::config", "anemo::crypto", "anemo::endpoint"))
                   and "__CALLSITE" not in p_ and any(k in b_.local_ty(0) for k in MUT)]          # (constant tables are fine; anything that can hold state is not)
        ob.require(not statics, "tls-state-in-static", f"process-wide state in the TLS / endpoint configuration code: {statics[:3]}", "anemo::config")

