"""Reconstruction of `quote!` token templates from MIR (straight-line push_* sequences)."""
from .engine import Undecidable
from .mir import Origins, name_matches, strip_identity, show, walk
from .lib import const_of, format_term

PUNCT = {"push_and": "&", "push_and_and": "&&", "push_comma": ",", "push_colon": ":", "push_colon2": "::", "push_lt": "<", "push_gt": ">", "push_rarrow": "->",
         "push_dot": ".", "push_or": "|", "push_or_or": "||", "push_bang": "!", "push_question": "?", "push_semi": ";", "push_eq": "=", "push_eq_eq": "==", "push_star": "*",
         "push_fat_arrow": "=>", "push_pound": "#", "push_add": "+", "push_sub": "-", "push_underscore": "_", "push_at": "@", "push_div": "/", "push_rem": "%",
         "push_shl": "<<", "push_shr": ">>", "push_ne": "!=", "push_le": "<=", "push_ge": ">=", "push_dot2": "..", "push_dot3": "...", "push_dot_dot_eq": "..=",
         "push_add_eq": "+=", "push_sub_eq": "-=", "push_caret": "^", "push_tilde": "~", "push_dollar": "$", "push_lifetime": "'"}


class Hole:
    def __init__(self, term, bb):
        self.term = term
        self.bb = bb

    def __repr__(self):
        return "⟨" + show(self.term)[:60] + "⟩"


def streams(body):
    """Return (streams, result): streams = {new_bb: [tokens]}, tokens are str | Hole | ('group', delim, stream_bb) | ('extend', term);
    result = stream id (bb) of the body's return value, or None."""
    o = Origins(body)
    st = {}

    def sid(t):
        s = strip_identity(t)
        if s[0] == "call" and name_matches(s[1], "proc_macro2::TokenStream::new"):
            return s[3]
        return None
    for c in body.calls():
        if body.is_cleanup(c.bb):
            continue
        fn = c.fn or ""
        if name_matches(fn, "proc_macro2::TokenStream::new"):
            st.setdefault(c.bb, [])
    for c in sorted([c for c in body.calls() if not body.is_cleanup(c.bb)], key=lambda c: c.bb):
        fn = c.fn or ""
        last = fn.split("::")[-1]
        if fn.startswith("quote::__private::push_") or fn == "quote::__private::parse":
            tgt = sid(o.of_operand(c.args[0]))
            if tgt is None:
                raise Undecidable(f"{body.path}: quote push into unknown stream at bb{c.bb}")
            if last == "push_ident":
                st[tgt].append((c.bb, const_of(o.of_operand(c.args[1])).strip('"')))
            elif last == "parse":
                st[tgt].append((c.bb, "lit:" + str(const_of(o.of_operand(c.args[1])))))
            elif last == "push_group":
                d = strip_identity(o.of_operand(c.args[1]))
                inner = sid(o.of_operand(c.args[2]))
                st[tgt].append((c.bb, ("group", d[2].split("::")[-1] if d[0] == "agg" else "?", inner)))
            elif last == "push_lifetime":
                st[tgt].append((c.bb, "'" + const_of(o.of_operand(c.args[1])).strip('"').lstrip("'")))
            elif last in PUNCT:
                st[tgt].append((c.bb, PUNCT[last]))
            else:
                st[tgt].append((c.bb, "?" + last))
        elif name_matches(fn, "quote::to_tokens::ToTokens::to_tokens"):
            tgt = sid(o.of_operand(c.args[1]))
            if tgt is None:
                continue
            st[tgt].append((c.bb, Hole(o.of_operand(c.args[0]), c.bb)))
        elif name_matches(fn, "iter::traits::collect::Extend::extend"):
            tgt = sid(o.of_operand(c.args[0]))
            if tgt is not None:
                st[tgt].append((c.bb, ("extend", o.of_operand(c.args[1]))))
    # MIR block order follows source order for straight-line quote! expansions; sort by bb
    out = {k: [t for _, t in sorted(v, key=lambda x: x[0])] for k, v in st.items()}
    res = sid(o.of_local(0))
    return out, res


def flatten(streams_, sid_, depth=0):
    """Flat token list with groups inlined as open/close delimiters; `extend(local stream)` is inlined."""
    out = []
    if sid_ is None or depth > 12:
        return out
    for t in streams_.get(sid_, []):
        if isinstance(t, tuple) and t[0] == "extend":
            s = strip_identity(t[1])
            if s[0] == "call" and name_matches(s[1], "proc_macro2::TokenStream::new") and s[3] in streams_ and s[3] != sid_:
                out.extend(flatten(streams_, s[3], depth + 1))
            else:
                out.append(Hole(t[1], -1))
        elif isinstance(t, tuple) and t[0] == "group":
            op, cl = {"Parenthesis": ("(", ")"), "Brace": ("{", "}"), "Bracket": ("[", "]")}.get(t[1], ("«", "»"))
            out.append(op)
            out.extend(flatten(streams_, t[2], depth + 1))
            out.append(cl)
        elif isinstance(t, Hole):
            # `#fragment` where fragment is a quote!{..} built earlier in the same function: spliced in place
            s = strip_identity(t.term)
            if s[0] == "call" and name_matches(s[1], "proc_macro2::TokenStream::new") and len(s) > 3 and s[3] in streams_ and s[3] != sid_:
                out.extend(flatten(streams_, s[3], depth + 1))
            else:
                out.append(t)
        else:
            out.append(t)
    return out


def render(tokens):
    return " ".join(t if isinstance(t, str) else repr(t) if isinstance(t, Hole) else "⟪extend⟫" for t in tokens)
