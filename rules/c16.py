"""C16 — Routing delivers each request to exactly the matching service."""
from .engine import AnchorLost, Undecidable
from .lib import *
from .mir import Origins, show, strip_identity, walk, name_matches, term_has_call

R = "anemo::routing"
RT = f"{R}::Router"

EXPLANATION = """
Router::call is synchronous and loop-free: every CFG path, projected on {matcher.at(req.route()), the
Ok/Err edge, each MatchError variant, routes.get(match.value), oneshot_inner}, must be exactly
'at → Ok → route found under *match.value → that route.oneshot_inner(req)' or 'at → Err(any of the
three variants, exhaustively) → self.fallback.oneshot_inner(req)': exactly one service handles a
request and every unmatched route takes the fallback, which is Route::new(NotFound) in Router::new,
carried unchanged through route_layer (field-to-field) and never written elsewhere; NotFound::call
returns ready(Ok(StatusCode::NotFound)). The map invariant behind the one `expect` is decided from
route(): the same fresh RouteId (monotone atomic counter) is inserted into the matcher and into
`routes`, and `routes` never shrinks. merge re-registers each of the other router's Route values (layers
included, no re-boxing thanks to try_downcast::<Route>) under the path recorded for its id;
route_layer wraps exactly the routes present at call time and keeps matcher and fallback; Router has
no field that could retain a layer for later routes; add_rpc_service registers "/" + SERVICE_NAME +
"/*rest". The remote-reachable panic inventory of the routing code contains only that justified expect.
The request-header conversion is total and field-to-field, so every decodable route string reaches the router (C07.4 re-evaluated).
merge hands every entry its iteration yields to route(): no path to the next iteration or to the return skips it.
"""
TRUSTED = ["matchit 0.5 matching semantics and freedom from panics on arbitrary strings (third-party body, not analysed)", "BTreeMap/HashMap semantics"]
NOT_DECIDED = ["matchit's wildcard precedence ('exactly the matching pattern')", "panics inside matchit on odd route strings"]
ASSUMPTIONS = []


def run(cx):
    prog = cx.prog
    call = cx.impl_method(RT, "Service", "call")

    with cx.ob("C16.1", "R-PATHSEQ", "Router::call: one dispatch per request — matched route on Ok, fallback on every MatchError variant") as ob:
        b = call

        # (the one-line forwarder RouteMatcher::at is always inlined: the lookup is matchit's `at` on the router's own table)
        AT = "matchit::router::Router::at"

        def call_sym(c, o):
            if name_matches(c.fn, AT):
                p = strip_identity(o.of_operand(c.args[1]))
                ok = mentions_field(o.of_operand(c.args[0]), "matcher") and mentions_field(o.of_operand(c.args[0]), "inner") and mentions_param(o.of_operand(c.args[0]), "self") \
                    and p[0] == "call" and name_matches(p[1], "Request::route") and is_param(p[2][0], "req")
                return "at(req.route)" if ok else "at(?)"
            if name_matches(c.fn, "BTreeMap::get"):
                k = o.of_operand(c.args[1])
                ok = mentions_field(o.of_operand(c.args[0]), "routes") and mentions_field(k, "value") and any(x[0] == "variant" and x[2] == "Ok" for x in walk(k)) \
                    and term_has_call(k, AT)
                return "get(match.value)" if ok else "get(?)"
            if name_matches(c.fn, f"{R}::route::Route::oneshot_inner"):
                r = o.of_operand(c.args[0])
                rq = o.of_operand(c.args[1])
                if not (is_param(rq, "req") and c.dest == 0):
                    return "ret=oneshot(?req)"
                if mentions_field(r, "fallback") and mentions_param(r, "self"):
                    return "ret=fallback.oneshot(req)"
                if term_has_call(r, "BTreeMap::get") and term_has_call(r, "Option::expect"):
                    return "ret=found.oneshot(req)"
                return "ret=oneshot(?)"
            if name_matches(c.fn, ("Option::expect", "Option::unwrap", "Request::route")):
                return None
            if c.local or name_matches(c.fn, "tower_service::Service::call"):
                return "call:" + c.fn.split("::")[-1]
            return None

        def extra(a, bb, subj, labels, o):
            if subj[0] == "discr":
                u = subj[1]
                r = strip_identity(u)
                if r[0] == "call" and name_matches(r[1], AT):
                    return "[" + "|".join(sorted(labels)) + "]"
                if any(x[0] == "variant" and x[2] == "Err" for x in walk(u)) and term_has_call(u, AT):
                    return "err=" + "|".join(sorted(labels))
            return None
        ws = seq_words(b, call_sym, None, extra)
        # every match error takes the fallback: listing all variants in one arm, or not looking at the error at all
        ws = {tuple(x for x in w if x != "err=ExtraTrailingSlash|MissingTrailingSlash|NotFound") for w in ws}
        check_words(ob, b, ws, {"at(req.route) [Ok] get(match.value) ret=found.oneshot(req) <return>",
                                "at(req.route) [Err] ret=fallback.oneshot(req) <return>"}, "Router::call")
        # Route::oneshot_inner / Route::call dispatch to the boxed service once
        ob_ = cx.body(f"{R}::route::Route::oneshot_inner")
        t = strip_identity(Origins(ob_).of_local(0))
        ok = t[0] == "call" and name_matches(t[1], "ServiceExt::oneshot") and mentions_field(t[2][0], "0") and mentions_param(t[2][0], "self") and is_param(t[2][1], "req")
        ob.require(ok, "Route::oneshot_inner", f"oneshot_inner returns {show(t)}", ob_.path)

    with cx.ob("C16.2", "R-FLOW", "fallback is NotFound: set in Router::new, carried unchanged by route_layer/merge; NotFound::call answers StatusCode::NotFound") as ob:
        aggs = aggregates_of(prog, RT, crates=["anemo"])
        ob.floor(aggs, 2, "Router aggregate sites")
        for bb_, i, s in aggs:
            if s is None or "rv" not in s:
                continue
            o = Origins(bb_)
            t = o.of_rvalue(s["rv"])
            f = dict(zip(t[4], t[3]))
            own = owner_path(prog, bb_)
            if own == f"{RT}::new":
                fb = strip_identity(f["fallback"])
                ok = fb[0] == "call" and name_matches(fb[1], f"{R}::route::Route::new") and strip_identity(fb[2][0])[0] == "agg" and strip_identity(fb[2][0])[2].endswith("NotFound::NotFound")
                ob.require(ok, "fallback/new", f"Router::new fallback = {show(fb)}", bb_.path)
            elif own == f"{RT}::route_layer":
                fb = strip_identity(f["fallback"])
                mt = strip_identity(f["matcher"])
                ok = fb[0] == "field" and fb[2] == "fallback" and is_param(fb[1], "self") and mt[0] == "field" and mt[2] == "matcher" and is_param(mt[1], "self")
                ob.require(ok, "fallback/route_layer", f"route_layer keeps fallback={show(fb)} matcher={show(mt)}", bb_.path)
            elif own.startswith(f"<{RT} as core::clone::Clone>"):
                ob.count()
            else:
                ob.fail("refuted", f"router-constructed/{own}", f"Router constructed in {bb_.path}", bb_.path, bb_.loc(i))
        check_field_writers(ob, prog, RT, "fallback", [], crates=["anemo"], kinds=("mutref", "write"))
        nf = cx.impl_method(f"{R}::not_found::NotFound", "Service", "call")
        t = strip_identity(Origins(nf).of_local(0))
        ok = t[0] == "call" and name_matches(t[1], "future::ready::ready")
        if ok:
            r = strip_identity(t[2][0])
            ok = r[0] == "agg" and r[2].endswith("Result::Ok") and term_has_call(r, "IntoResponse::into_response") and \
                any(x[0] == "agg" and x[2].endswith("StatusCode::NotFound") for x in walk(r))
        ob.require(ok, "NotFound::call", f"NotFound::call returns {show(t)}", nf.path)
        ir = cx.impl_method("anemo::types::response::StatusCode", "IntoResponse", "into_response")
        ws_ = field_accesses(prog, "anemo::types::response::ResponseHeader", "status")
        sm = cx.body("anemo::types::response::Response::status_mut")
        o = Origins(ir)
        w = [d for l, ds in ir.defs().items() for d in ds if d[0] == "partial"]
        t = [c for c in ir.calls_to("anemo::types::response::Response::status_mut")]
        ob.require(sets_status_to_self(prog, ir), "StatusCode::into_response", "StatusCode::into_response does not set the response status to self", ir.path)

    with cx.ob("C16.3", "R-MUSTPASS", "route(): the same fresh id goes into matcher and routes; routes never shrinks (justifies the expect in call)") as ob:
        b = cx.body(f"{RT}::route")
        o = Origins(b)
        mi = b.calls_to(f"{R}::RouteMatcher::insert")
        ri = b.calls_to("BTreeMap::insert")
        ob.floor(mi, 1, "matcher.insert in route()", exact=True)
        ob.floor(ri, 1, "routes.insert in route()", exact=True)
        a = strip_identity(arg_origin(mi[0], 2, o))
        c_ = strip_identity(arg_origin(ri[0], 1, o))
        ob.require(a[0] == "call" and name_matches(a[1], f"{R}::RouteId::next") and a == c_, "route/same-id", f"matcher id {show(a)} vs routes id {show(c_)}", b.path)
        ob.require(is_param(arg_origin(mi[0], 1, o), "path") and mentions_field(arg_origin(mi[0], 0, o), "matcher") and mentions_field(arg_origin(ri[0], 0, o), "routes"),
                   "route/targets", "route() does not insert the given path into self.matcher / self.routes", b.path)
        ob.require(b.dominates(mi[0].bb, ri[0].bb), "route/order", "routes.insert not dominated by matcher.insert", b.path)
        rets = b.return_blocks()
        ob.require(all(b.dominates(ri[0].bb, r) for r in rets), "route/always-registers", "a normal return of route() skips routes.insert", b.path)
        sv = strip_identity(arg_origin(ri[0], 2, o))
        # the value stored is the given service itself: try_downcast(service) unwrapped to the Route it already is, or wrapped
        # by Route::new otherwise - as `unwrap_or_else(Route::new)` or as a match on the downcast result
        def one(alt):
            alt = strip_identity(alt)
            if not (term_has_call(alt, f"{R}::try_downcast") and mentions_param(alt, "service")):
                return False
            if alt[0] == "call" and name_matches(alt[1], "Result::unwrap_or_else"):
                return True
            if alt[0] == "call" and name_matches(alt[1], f"{R}::route::Route::new"):
                return any(x[0] == "variant" and x[2] == "Err" for x in walk(alt))
            return alt[0] in ("field", "variant") and any(x[0] == "variant" and x[2] == "Ok" for x in walk(alt)) and not any(x[0] == "call" and not name_matches(x[1], f"{R}::try_downcast") for x in walk(alt))
        alts = list(sv[1]) if sv[0] == "phi" else [sv]
        ob.require(all(one(x) for x in alts), "route/service", f"registered service is {show(sv)[:100]}", b.path)
        td = [c for c in b.calls_to(f"{R}::try_downcast")]
        ob.require(len(td) == 1 and td[0].ga[0] == f"{R}::route::Route", "route/no-reboxing", "try_downcast::<Route> not used (merge would re-box layered routes)", b.path)
        # matcher insert keeps id->path
        ib = cx.body(f"{R}::RouteMatcher::insert")
        io = Origins(ib)
        hi = [c for c in ib.calls_to("HashMap::insert") if mentions_field(io.of_operand(c.args[0]), "route_id_to_path")]
        mm = ib.calls_to("matchit::router::Router::insert")
        def p_is(t, idx):          # by position (self, path, id): the parameters' names and exact types are free
            t = strip_identity(t)
            return t[0] == "param" and t[1] == idx

        def p_in(t, idx):
            return any(x[0] == "param" and x[1] == idx for x in walk(t))
        ok = len(hi) == 1 and len(mm) == 1 and p_is(io.of_operand(hi[0].args[1]), 3) and p_is(io.of_operand(mm[0].args[2]), 3) \
            and p_in(io.of_operand(hi[0].args[2]), 2) and p_in(io.of_operand(mm[0].args[1]), 2)
        ob.require(ok, "matcher-insert/id-path", "RouteMatcher::insert does not record (id → path) for the inserted route", ib.path)
        # routes never shrinks / ids monotone
        acc = [x for x in field_accesses(prog, RT, "routes", crates=["anemo"]) if x[2] in ("mutref", "write", "move") and not x[0].is_cleanup(x[1])]
        for bb_, i, kind, _ in acc:
            own = owner_path(prog, bb_)
            ob.require(own in (f"{RT}::route", f"{RT}::route_layer", f"{RT}::merge"), f"routes-writer/{own}", f"Router.routes is {kind}-accessed in {bb_.path}", bb_.path, bb_.loc(i))
        for c in prog.callers_of(("BTreeMap::remove", "BTreeMap::clear", "BTreeMap::retain", "BTreeMap::pop_first", "BTreeMap::pop_last", "BTreeMap::split_off"), crates=["anemo"]):
            if "RouteId" in str(c.ga):
                ob.fail("refuted", f"routes-shrinks/{owner_path(prog, c.body)}", f"{c.fn} on the route table in {c.body.path}", c.body.path, c.body.loc(c.bb))
        nb = cx.body(f"{R}::RouteId::next")
        t = Origins(nb).of_local(0)
        ok = t[0] == "agg" and t[3][0][0] == "call" and name_matches(t[3][0][1], "atomic::Atomic::fetch_add") and int_of(t[3][0][2][1]) == 1
        ob.require(ok, "RouteId::next", f"RouteId::next returns {show(t)}", nb.path)

    with cx.ob("C16.4", "R-FLOW", "merge re-registers each route value under its recorded path; route_layer wraps exactly the current routes; Router retains no layer") as ob:
        b = cx.body(f"{RT}::merge")
        o = Origins(b)
        rc = b.calls_to(f"{RT}::route")
        kbs = [k for k in prog.children(b) if k.calls_to(f"{RT}::route")]
        if not rc and len(kbs) == 1:
            # internal-iteration form: `routes.into_iter().fold(self, |acc, (id, route)| acc.route(path(id), route))` / `for_each`
            kb = kbs[0]
            ko = Origins(kb)
            krc = kb.calls_to(f"{RT}::route")
            ob.floor(krc, 1, "route(..) in merge's closure", exact=True)
            drv = [(c_, g_) for c_, g_ in calls_with_closures(prog, b, ("Iterator::fold", "Iterator::for_each")) if any(
                strip_identity(g_(i_))[0] == "agg" and strip_identity(g_(i_))[2] == kb.path for i_ in range(len(c_.args)))]
            ob.require(len(drv) == 1, "merge/every-entry", "merge: the closure that registers a route is not the body of one fold / for_each over the other router's routes", b.path)
            if drv:
                src = drv[0][1](0)
                ob.require(term_has_call(src, "IntoIterator::into_iter") and mentions_field(src, "routes") and mentions_param(src, "other"), "merge/every-entry",
                           f"merge iterates {show(src)[:100]} (not every route of the other router)", b.path)
            ob.require(all(kb.dominates(krc[0].bb, r_) for r_ in kb.return_blocks()), "merge/every-entry", "merge: a path through the per-entry closure skips route(..)", kb.path)
            def kexp(t_):
                return expand_upvars(prog, kb, t_)
            p = kexp(arg_origin(krc[0], 1, ko))
            sv = strip_identity(arg_origin(krc[0], 2, ko))
            okp = term_has_call(p, "HashMap::get") and mentions_field(p, "route_id_to_path") and mentions_param(p, "other")
            ob.require(okp, "merge/path", f"merge registers path {show(p)[:120]}", kb.path)
            oks = sv[0] == "field" and sv[2] == "1" and strip_identity(sv[1])[0] == "param"
            ob.require(oks, "merge/route-value", f"merge registers service {show(sv)[:120]}", kb.path)
            g = kb.calls_to("HashMap::get")
            k = arg_origin(g[0], 1, ko) if g else ("unknown",)
            ob.require(len(g) == 1 and any(x[0] == "field" and x[2] == "0" and strip_identity(x[1]) == strip_identity(sv[1]) for x in walk(k)), "merge/id-of-entry",
                       f"path looked up by {show(k)[:100]}", kb.path)
        else:
            ob.floor(rc, 1, "self.route in merge", exact=True)
            p = arg_origin(rc[0], 1, o)
            sv = strip_identity(arg_origin(rc[0], 2, o))
            okp = term_has_call(p, "HashMap::get") and mentions_field(p, "route_id_to_path") and mentions_param(p, "other") and term_has_call(p, "Iterator::next")
            ob.require(okp, "merge/path", f"merge registers path {show(p)[:120]}", b.path)
            oks = sv[0] == "field" and sv[2] == "1" and term_has_call(sv, "Iterator::next") and mentions_field(sv, "routes") and mentions_param(sv, "other")
            ob.require(oks, "merge/route-value", f"merge registers service {show(sv)[:120]}", b.path)
            # the id used for the path lookup is the id of that same map entry
            g = b.calls_to("HashMap::get")
            k = arg_origin(g[0], 1, o) if g else ("unknown",)
            ob.require(len(g) == 1 and any(x[0] == "field" and x[2] == "0" for x in walk(k)) and term_has_call(k, "Iterator::next"), "merge/id-of-entry", f"path looked up by {show(k)[:100]}", b.path)
            # every entry the iteration yields is registered: no path from one `next()` to the following one (or to the
            # return) skips self.route - a route of the other router that is silently dropped answers NotFound afterwards
            nx = [c for c in b.calls_to("Iterator::next") if c.target is not None]
            ob.floor(nx, 1, "iteration over the other router's routes in merge", exact=True)
            cur = nx[0].target
            while b.term(cur)["k"] in ("goto", "falseedge", "falseunwind", "drop"):
                cur = b.term(cur)["target"]
            ob.require(b.term(cur)["k"] == "switch", "merge/loop-form", "merge: the iteration's next() is not followed by the Some/None test", b.path)
            some = [t for t in b.succ(cur) if nx[0].bb in b.reachable_from(t)]
            ob.require(bool(some) and all(b.all_paths_pass(t, set(b.return_blocks()) | {nx[0].bb}, {rc[0].bb}) for t in some), "merge/every-entry",
                       "merge: a path from a yielded route entry to the next iteration (or to the return) skips self.route(..)", b.path)
        # route_layer closure: (id, Route::new(layer.layer(route)))
        lb = cx.body(f"{RT}::route_layer")
        lo = Origins(lb)
        mp = lb.calls_to("Iterator::map")
        ob.floor(mp, 1, "map in route_layer", exact=True)
        ob.require(mentions_field(lo.of_operand(mp[0].args[0]), "routes") and mentions_param(lo.of_operand(mp[0].args[0]), "self"), "route_layer/iterates-current-routes",
                   "route_layer does not iterate self.routes", lb.path)
        cl = lo.of_operand(mp[0].args[1])
        kb = prog.body(cl[2]) if cl[0] == "agg" else None
        ok = False
        if kb is not None:
            t = Origins(kb).of_local(0)
            if t[0] == "agg" and t[1] == "tuple" and len(t[3]) == 2:
                idt = strip_identity(t[3][0])
                rt = strip_identity(t[3][1])
                ok = idt[0] == "field" and idt[2] == "0" and rt[0] == "call" and name_matches(rt[1], f"{R}::route::Route::new")
                if ok:
                    ly = strip_identity(rt[2][0])
                    ok = ly[0] == "call" and name_matches(ly[1], "tower_layer::Layer::layer") and mentions_upvar(ly[2][0], "layer") \
                        and strip_identity(ly[2][1])[0] == "field" and strip_identity(ly[2][1])[2] == "1"
        ob.require(ok, "route_layer/closure", "route_layer does not map (id, route) ↦ (id, Route::new(layer.layer(route)))", lb.path)
        a = cx.adt(RT)
        f = sorted((x["name"], x["ty"].split("<")[0]) for x in a["variants"][0]["fields"])
        ob.require(f == [("fallback", f"{R}::route::Route"), ("matcher", f"{R}::RouteMatcher"), ("routes", "alloc::collections::btree::map::BTreeMap")], "Router/shape",
                   f"Router fields: {f}", RT)

    with cx.ob("C16.5", "R-CONST", "add_rpc_service registers \"/\" + SERVICE_NAME + \"/*rest\"") as ob:
        b = cx.body(f"{RT}::add_rpc_service")
        o = Origins(b)
        rc = b.calls_to(f"{RT}::route")
        ob.floor(rc, 1, "route in add_rpc_service", exact=True)
        pieces = format_term(b, o, arg_origin(rc[0], 1, o))
        ok = pieces is not None and len(pieces) == 3 and pieces[0] == "/" and pieces[2] == "/*rest" and isinstance(pieces[1], tuple) \
            and strip_identity(pieces[1][1])[0] == "named" and strip_identity(pieces[1][1])[1].endswith("RpcService::SERVICE_NAME")
        ob.require(ok, "add_rpc_service/pattern", f"pattern pieces: {pieces}", b.path)
        ob.require(is_param(arg_origin(rc[0], 2, o), "service") and is_param(arg_origin(rc[0], 0, o), "self") and rc[0].dest == 0, "add_rpc_service/args", "add_rpc_service does not register the given service on self", b.path)

    with cx.ob("C16.6", "R-PANIC", "panic inventory of the request-time routing code: only the justified expect") as ob:
        entries = [call.path, f"{R}::route::Route::oneshot_inner", cx.impl_method(f"{R}::route::Route", "Service", "call").path,
                   cx.impl_method(f"{R}::not_found::NotFound", "Service", "call").path]
        allow = {f"{call.path}/call:Option::expect#0": "route id returned by the matcher is always present in `routes` (C16.3: same id inserted in both, routes never shrinks)"}
        reach, sites, used = check_panic_inventory(ob, prog, entries, allow)
        ob.set_sample({"entries": entries, "reachable_bodies": len(reach), "sites": [s["key"] for s in sites]})

    with cx.ob("C16.6", "R-SHAPE", "every decodable request reaches the router whatever its route string: header conversion is total and field-to-field (no validation of the route before routing) - C07.4 re-evaluated") as ob:
        from . import c07
        sub = cx.__class__("C16", prog, cx.tier, cx.config, cx.tree, repo=cx.repo)
        c07.run(sub)
        w = [x for x in sub.obs if x.oid in ['C07.4']]
        ob.count(sum(x.evals for x in w))
        bad = [v for x in w for v in x.violations]
        ob.require(len(w) == 1 and not bad, "route-reaches-router/no-validation-before-routing", "the request header conversion can reject or alter a route before the router sees it: " + "; ".join(str(v.msg) for v in bad)[:300], "anemo::types::request::RequestHeader::from_raw")

    with cx.ob("C16.7", "R-SIBLING", "one layer out: the prefix an RPC service is mounted under is the prefix of its own method routes for every service definition (generator's SERVICE_NAME ≡ route prefix, C17.1 re-evaluated)") as ob:
        from . import c17
        sub = cx.__class__("C16", prog, cx.tier, cx.config, cx.tree, repo=cx.repo)
        c17.run(sub)
        w = [x for x in sub.obs if x.oid in ['C17.1']]
        ob.count(sum(x.evals for x in w))
        bad = [v for x in w for v in x.violations]
        ob.require(len(w) == 1 and not bad, "rpc-prefix/generated-name-matches-routes", "a generated service can be mounted under a prefix that does not contain its routes: " + "; ".join(str(v.msg) for v in bad)[:300], "anemo_build::server")
