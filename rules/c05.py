"""C05 — Simultaneous mutual dials converge on one shared connection."""
from .engine import AnchorLost, Undecidable
from .lib import *
from .mir import Origins, show, strip_identity, walk, name_matches, term_has_call

CM = "anemo::network::connection_manager"
INNER = f"{CM}::ActivePeersInner"
TB = f"{INNER}::simultaneous_dial_tie_breaking"

EXPLANATION = """
The tie-break is a pure, loop-free function over a finite abstract domain (two origins x the order
of two distinct ids). The check extracts its complete decision table from the CFG (every path's
conjunction of origin tests and its result: a constant or one comparison of the two id parameters),
then enumerates all 8 cases {own<remote, own>remote} x {arrival order at A} x {arrival order at B}
and requires that both sides keep the same connection, that it is the one dialed by the greater id,
and that the outcome does not depend on arrival order. It then checks by value-origin analysis that
`add` calls the function with (own id, new connection's id, existing origin, new origin) in this
order and acts on true/false as replace/keep (C04 words), that add_peer passes the endpoint's own
id, and that accepted connections are tagged Inbound and dialed ones Outbound all the way into
Connection.origin. The loser's clean-up cannot disturb the winner (C04.2d / C04.4 re-evaluated) and nothing re-dials a quiet pair: dials
start only from the application's ConnectRequest and the periodic connectivity check, never from a connection ending.
Decides the table and its wiring for all paths; convergence over time is dynamic.
The exit path of the connection handler (where the loser of a tie-break ends) contains no panic-capable construct.
Neither does the peer-map code it runs there (C06.1a re-evaluated), and no finished handshake is lost before registration (the manager's join arms are the JoinSets' own join_next, C08.2 re-evaluated).
"""
TRUSTED = ["derived Ord on PeerId([u8;32]) is a total order shared by both sides"]
NOT_DECIDED = ["quiescence ('no further events once the network is quiet')", "RPC success after convergence",
               "delay/loss patterns during the two handshakes"]
ASSUMPTIONS = ["the two peers have distinct ids (a peer dialing itself is out of scope of this property)"]


def extract_table(ob, b):
    """Return {(existing, new): expr}; expr = ('const', bool) | ('cmp', op, lhs, rhs) with lhs/rhs in own/remote."""
    o = Origins(b)

    def pname(t):
        s = strip_identity(t)
        # ConnectionOrigin(Direction) newtype: discriminant of .0
        while s[0] == "field":
            s = strip_identity(s[1])
        if s[0] == "param":
            return s[2]
        return None

    def edge_sym(a, bb, subj, labels, oo):
        s = subj
        if s[0] == "discr":
            p = pname(s[1])
            if p in ("existing_origin", "new_origin"):
                return (p, "|".join(sorted(labels)))
        t = b.blocks[a]["t"]
        return ("?cond", show(subj)[:80], "|".join(sorted(labels)))

    def idname(t):
        s = strip_identity(t)
        if s[0] == "param" and s[2] == "own_peer_id":
            return "own"
        if s[0] == "param" and s[2] == "remote_peer_id":
            return "remote"
        return "?" + show(s)[:40]

    def stmt_sym(bb, s, oo):
        if s["lhs"] == 0:
            rv = s["rv"]
            if rv["k"] == "use" and rv["op"].get("k") == "const" and rv["op"].get("ty") == "bool":
                return ("ret", "const", bool(rv["op"]["int"]))
            if rv["k"] == "binop" and rv["op"] in ("Lt", "Le", "Gt", "Ge", "Eq", "Ne"):
                return ("ret", "cmp", rv["op"].lower(), idname(oo.of_operand(rv["a"])), idname(oo.of_operand(rv["b"])))
            if rv["k"] == "unop" and rv["op"] == "Not":
                return ("ret", "?not")
            return ("ret", "?", show(oo.of_rvalue(rv))[:80])
        return None

    def call_sym(c, oo):
        if c.dest == 0:
            last = (c.fn or "").split("::")[-1]
            if name_matches(c.fn, ("cmp::PartialOrd::lt", "cmp::PartialOrd::le", "cmp::PartialOrd::gt", "cmp::PartialOrd::ge",
                                   "cmp::PartialEq::eq", "cmp::PartialEq::ne")):
                return ("ret", "cmp", last, idname(oo.of_operand(c.args[0])), idname(oo.of_operand(c.args[1])))
            return ("ret", "?call", c.fn)
        if is_tracing(c):
            return None
        return ("?call", c.fn)

    ws = words_of(b, call_sym, edge_sym, stmt_sym, keep_end=False)
    table = {}
    for w in ws:
        ob.count()
        conds = {}
        res = None
        bad = None
        for s in w:
            if s[0] in ("existing_origin", "new_origin"):
                conds.setdefault(s[0], set()).add(s[1])
            elif s[0] == "ret":
                res = s[1:]
            else:
                bad = s
        if bad is not None or res is None or res[0].startswith("?"):
            raise Undecidable(f"tie-break body uses something other than origin tests and one id comparison: {bad or res}")
        ex = conds.get("existing_origin")
        nw = conds.get("new_origin")
        if not ex or not nw or len(ex) != 1 or len(nw) != 1:
            raise Undecidable(f"tie-break path does not test both origins exactly once: {fmt_word(w)}")
        for e in next(iter(ex)).split("|"):
            for n in next(iter(nw)).split("|"):
                key = (e, n)
                if key in table and table[key] != res:
                    raise Undecidable(f"tie-break table row {key} has two different results {table[key]} / {res}")
                table[key] = res
    return table


def evaluate(expr, own_lt_remote):
    if expr[0] == "const":
        return expr[1]
    _, op, l, r = expr
    if l == r or l not in ("own", "remote") or r not in ("own", "remote"):
        raise Undecidable(f"comparison operands {l},{r}")
    lt = own_lt_remote if (l, r) == ("own", "remote") else (not own_lt_remote)
    return {"lt": lt, "le": lt, "gt": not lt, "ge": not lt, "eq": False, "ne": True}[op]


def run(cx):
    prog = cx.prog

    with cx.ob("C05.1", "R-TABLE", "tie-break decision table: both sides keep the connection dialed by the greater id, in all 8 order cases") as ob:
        b = cx.body(TB)
        table = extract_table(ob, b)
        rows = {("Inbound", "Inbound"), ("Outbound", "Outbound"), ("Inbound", "Outbound"), ("Outbound", "Inbound")}
        ob.require(set(table) == rows, "tie-break/rows", f"tie-break table rows are {sorted(table)}", TB, b.loc())
        ob.set_sample({"table": {f"{k[0]},{k[1]}": list(v) for k, v in table.items()}})
        if set(table) == rows:
            # exhaustive symmetry check.  cA = dialed by A, cB = dialed by B.
            origin = {("A", "cA"): "Outbound", ("A", "cB"): "Inbound", ("B", "cA"): "Inbound", ("B", "cB"): "Outbound"}
            cases = 0
            for a_lt_b in (True, False):
                expected = "cB" if a_lt_b else "cA"     # dialed by the greater id
                for order_a in (("cA", "cB"), ("cB", "cA")):
                    for order_b in (("cA", "cB"), ("cB", "cA")):
                        cases += 1
                        kept = {}
                        for side, order in (("A", order_a), ("B", order_b)):
                            first, second = order
                            own_lt_remote = a_lt_b if side == "A" else (not a_lt_b)
                            replace = evaluate(table[(origin[(side, first)], origin[(side, second)])], own_lt_remote)
                            kept[side] = second if replace else first
                        ob.require(kept["A"] == kept["B"] == expected,
                                   f"tie-break/case/a_lt_b={a_lt_b}/A{order_a[0]}first/B{order_b[0]}first",
                                   f"simultaneous dial: with A{'<' if a_lt_b else '>'}B, arrival order at A {order_a}, at B {order_b}: "
                                   f"A keeps {kept['A']}, B keeps {kept['B']}, expected both to keep {expected} (table {table})",
                                   TB, b.loc())
            ob.note(f"{cases} order cases enumerated")
            # same-direction rows: a newer connection in the same direction replaces the older one
            for row in (("Inbound", "Inbound"), ("Outbound", "Outbound")):
                ob.require(table[row] == ("const", True), f"tie-break/same-direction/{row[0]}",
                           f"tie-break row {row} is {table[row]}; a re-dial in the same direction must replace the stale connection",
                           TB, b.loc())

    with cx.ob("C05.2", "R-FLOW", "add(): tie-break called with (own id, new peer id, existing origin, new origin); true = replace") as ob:
        b = cx.body(f"{INNER}::add")
        o = Origins(b)
        cs = b.calls_to(TB)
        ob.floor(cs, 1, "tie-break call in add", exact=True)
        c = cs[0]
        a0, a1, a2, a3 = (arg_origin(c, i, o) for i in range(4))
        ob.require(is_param(a0, "own_peer_id"), "add/tb-arg0", f"tie-break arg0 is {show(a0)}, not own_peer_id", b.path, b.loc(c.bb))
        s1 = strip_identity(a1)
        ob.require(s1[0] == "call" and name_matches(s1[1], "Connection::peer_id") and is_param(s1[2][0], "new_connection"),
                   "add/tb-arg1", f"tie-break arg1 is {show(a1)}, not new_connection.peer_id()", b.path, b.loc(c.bb))
        s2 = strip_identity(a2)
        ob.require(s2[0] == "call" and name_matches(s2[1], "Connection::origin") and term_has_call(s2[2][0], "OccupiedEntry::get"),
                   "add/tb-arg2", f"tie-break arg2 (existing origin) is {show(a2)}", b.path, b.loc(c.bb))
        s3 = strip_identity(a3)
        ob.require(s3[0] == "call" and name_matches(s3[1], "Connection::origin") and is_param(s3[2][0], "new_connection"),
                   "add/tb-arg3", f"tie-break arg3 (new origin) is {show(a3)}", b.path, b.loc(c.bb))
        # consequences of true/false are checked as words in C04.2a; re-evaluate the edge here
        from . import c04
        sub = cx.__class__("C05", prog, cx.tier, cx.config, cx.tree, repo=cx.repo)
        c04.run(sub)
        w = [x for x in sub.obs if x.oid == "C04.2a"]
        ob.require(w and not w[0].violations, "add/true-replaces-false-keeps",
                   "add(): tie-break true must replace+close old, false must close new (C04.2a words refuted)", b.path, b.loc())

    with cx.ob("C05.3", "R-FLOW", "own id = endpoint's id; accepted connections are tagged Inbound, dialed ones Outbound") as ob:
        b = cx.body(f"{CM}::ConnectionManager::add_peer")
        o = Origins(b)
        cs = b.calls_to(f"{CM}::ActivePeers::add")
        ob.floor(cs, 1, "ActivePeers::add in add_peer", exact=True)
        t = strip_identity(arg_origin(cs[0], 1, o))
        ob.require(t[0] == "call" and name_matches(t[1], "anemo::endpoint::Endpoint::peer_id") and mentions_field(t[2][0], "endpoint"),
                   "add_peer/own-id", f"add_peer passes {show(t)} as own id", b.path, b.loc(cs[0].bb))
        w = cx.body(f"{CM}::ActivePeers::add")
        wo = Origins(w)
        c = w.calls_to(f"{INNER}::add")[0]
        ob.require(is_param(arg_origin(c, 1, wo), "own_peer_id") and is_param(arg_origin(c, 2, wo), "new_connection"),
                   "wrapper/args", "ActivePeers::add does not forward (own_peer_id, new_connection)", w.path)
        # Every `Connecting` value gets its origin tag where it is built: Inbound in Accept::poll, Outbound in the dial function -
        # through the constructors Connecting::new_inbound / new_outbound / new, or by a struct literal at those places.
        for tag in ("Inbound", "Outbound"):
            kb = cx.body(f"anemo::types::peer_id::ConnectionOrigin::{tag}")
            kt = Origins(kb).of_local(0)
            ob.require(kt[0] == "agg" and kt[3] and kt[3][0][0] == "agg" and kt[3][0][2].endswith(f"Direction::{tag}"),
                       f"const/{tag}", f"ConnectionOrigin::{tag} = {show(kt)}", kb.path)

        def tag_of(t):
            t = strip_identity(t)
            if t[0] == "named" and "ConnectionOrigin::" in t[1]:
                return t[1].split("::")[-1]
            return None

        def users(fn):
            # (effective owners: a new helper fn that survives as a function value belongs to the functions using it)
            return sorted({o_ for c in prog.callers_of(fn, crates=["anemo"]) for o_ in owner_paths(prog, c.body)} | {o_ for b_, _ in prog.fn_refs(fn, crates=["anemo"]) for o_ in owner_paths(prog, b_)})
        built = []          # (where the value is built for, tag)
        n_agg = 0
        for p_, b_ in prog.bodies.items():
            if b_.crate != "anemo":
                continue
            bo_ = Origins(b_)
            for bl in b_.blocks:
                if bl.get("cleanup"):
                    continue
                for st in bl["s"]:
                    if st["k"] == "assign" and st["rv"]["k"] == "agg" and st["rv"].get("adt") == "anemo::endpoint::Connecting":
                        n_agg += 1
                        t = bo_.of_rvalue(st["rv"])
                        ot = t[3][t[4].index("origin")] if "origin" in t[4] else ("?",)
                        if tag_of(ot) is not None:
                            built += [(o_, tag_of(ot)) for o_ in owner_paths(prog, b_)]
                        elif is_param(ot, "origin") and b_.path == "anemo::endpoint::Connecting::new":
                            for c in prog.callers_of("anemo::endpoint::Connecting::new", crates=["anemo"]):
                                tg = tag_of(Origins(c.body).of_operand(c.args[1]))
                                w_ = owner_path(prog, c.body)
                                if w_ in ("anemo::endpoint::Connecting::new_inbound", "anemo::endpoint::Connecting::new_outbound"):
                                    built += [(u_, tg or "?") for u_ in users(w_)]
                                else:
                                    built.append((w_, tg or "?"))
                            ob.require(not prog.fn_refs("anemo::endpoint::Connecting::new", crates=["anemo"]), "Connecting::new/fnref", "Connecting::new used as a function value", b_.path)
                        else:
                            built.append((owner_path(prog, b_), "?" + show(ot)[:40]))
        ob.floor(n_agg, 1, "Connecting aggregates")
        want_built = sorted([("<anemo::endpoint::Accept<'_> as core::future::future::Future>::poll", "Inbound"), ("anemo::endpoint::Endpoint::connect_with_client_config", "Outbound")])
        ob.require(sorted(set(built)) == want_built and len(built) == 2, "origin-tags",
                   f"Connecting values are built / tagged as {sorted(built)}; expected exactly Inbound in Accept::poll and Outbound in the dial function", "anemo::endpoint")
        # Connecting::poll -> Connection::new(connection, self.origin)
        cn = prog.callers_of("anemo::connection::Connection::new", crates=["anemo"])
        ob.floor(cn, 1, "Connection::new call sites", exact=True)
        c = cn[0]
        ob.require(owner_path(prog, c.body) == "<anemo::endpoint::Connecting as core::future::future::Future>::poll", "Connection::new/caller",
                   f"Connection::new called from {c.body.path}", c.body.path)
        t = arg_origin(c, 1)
        if c.body.kind == "Closure":
            t = expand_upvars(prog, c.body, t)          # `let origin = self.origin; .. .map(|h| .. Connection::new(h, origin))`
        ob.require(mentions_field(t, "origin") and (mentions_upvar(t, "self") or mentions_param(t, "self")), "Connection::new/origin-arg",
                   f"Connection::new origin argument is {show(t)}", c.body.path)
        kb = cx.body("anemo::connection::Connection::new")
        aggs = [s for bl in kb.blocks for s in bl["s"] if s["k"] == "assign" and s["rv"]["k"] == "agg" and s["rv"].get("adt") == "anemo::connection::Connection"]
        ob.floor(aggs, 1, "Connection aggregate in Connection::new", exact=True)
        t = Origins(kb).of_rvalue(aggs[0]["rv"])
        ob.require(is_param(t[3][t[4].index("origin")], "origin"), "Connection::new/origin-field", f"Connection.origin = {show(t[3][t[4].index('origin')])}", kb.path)
        gb = cx.body("anemo::connection::Connection::origin")
        t = strip_identity(Origins(gb).of_local(0))
        ob.require(t[0] == "field" and t[2] == "origin" and is_param(t[1], "self"), "Connection::origin/getter", f"Connection::origin returns {show(t)}", gb.path)
        check_field_writers(ob, prog, "anemo::connection::Connection", "origin", ["anemo::connection::Connection::new"], kinds=("mutref", "write"))

    with cx.ob("C05.4", "R-SHAPE", "PeerId is a [u8; 32] newtype with derived (lexicographic, total) Ord/PartialOrd/Eq") as ob:
        a = cx.adt("anemo::types::peer_id::PeerId")
        f = a["variants"][0]["fields"]
        ob.require(len(f) == 1 and f[0]["ty"].startswith("[u8; "), "PeerId/shape", f"PeerId fields: {[x['ty'] for x in f]}", a["path"])
        for tr in ("core::cmp::Ord", "core::cmp::PartialOrd", "core::cmp::PartialEq", "core::cmp::Eq"):
            ims = [im for im in prog.impls if im["trait"] == tr and im["self_ty"] == "anemo::types::peer_id::PeerId"]
            ob.require(len(ims) == 1 and ims[0]["derived"], f"PeerId/derive/{tr}", f"PeerId: impl {tr} derived={[i['derived'] for i in ims]}", a["path"])

    with cx.ob("C05.5", "R-MUSTPASS", "no shortcut around the tie-break: every established connection reaches ActivePeers::add, and nothing but add()'s tie-break closes a duplicate (C03.6 registration rules re-evaluated)") as ob:
        from . import c03
        sub = cx.__class__("C05", prog, cx.tier, cx.config, cx.tree, repo=cx.repo)
        c03.run(sub)
        w = [x for x in sub.obs if x.oid == "C03.6"]
        ob.count(w[0].evals if w else 0)
        bad = [v for v in (w[0].violations if w else []) if "add_peer" in v.key or "reply/after-registration" in v.key or "reply/registers" in v.key]
        ob.require(bool(w) and not bad, "registration/no-shortcut",
                   "a connection can be dropped or closed between the handshake and ActivePeers::add (so the tie-break is not consulted): " + "; ".join(v.msg for v in bad)[:300],
                   "anemo::network::connection_manager::ConnectionManager::add_peer")
        # ... and none is lost on the way: the manager's join arms poll the JoinSets' own join_next (cancel-safe) - an arm future
        # that takes a finished handshake out and then suspends again loses it when another arm wins (C08.2 re-evaluated)
        from . import c08
        sub8 = cx.__class__("C05", prog, cx.tier, cx.config, cx.tree, repo=cx.repo)
        c08.run(sub8)
        w8 = [x for x in sub8.obs if x.oid == "C08.2"]
        ob.count(sum(x.evals for x in w8))
        bad8 = [v for x in w8 for v in x.violations if "/future" in v.key or "join-arms" in v.key or "loop/arms" in v.key or "precondition" in v.key]
        ob.require(len(w8) == 1 and not bad8, "registration/no-output-lost", "a finished handshake can be dropped by the manager loop before it is registered: " + "; ".join(str(v.msg) for v in bad8)[:300],
                   "anemo::network::connection_manager::ConnectionManager::start")
        # the only closes of a live duplicate are the two inside ActivePeersInner::add (winner keeps, loser closed)
        check_callers(ob, prog, "anemo::connection::Connection::close",
                      ["anemo::network::connection_manager::ActivePeersInner::add", "anemo::network::connection_manager::ActivePeersInner::remove",
                       "anemo::network::connection_manager::ActivePeersInner::remove_with_stable_id"], crates=["anemo"], floor=3, what="Connection::close")

    with cx.ob("C05.6", "R-PATHSEQ", "the loser's clean-up cannot disturb the winner: removal by stable id touches the map only on the id-equal edge (C04.2d) and the handler exit removes by its own stable id (C04.4), re-evaluated") as ob:
        from . import c04
        sub = cx.__class__("C05", prog, cx.tier, cx.config, cx.tree, repo=cx.repo)
        c04.run(sub)
        w = [x for x in sub.obs if x.oid in ("C04.2d", "C04.4")]
        ob.count(sum(x.evals for x in w))
        bad = [v for x in w for v in x.violations]
        ob.require(len(w) == 2 and not bad, "loser-cleanup/stable-id-guard",
                   "the handler of the connection that lost the tie-break can remove or orphan the surviving connection: " + "; ".join(v.msg for v in bad)[:300],
                   "anemo::network::connection_manager::ActivePeersInner::remove_with_stable_id")

    with cx.ob("C05.7", "R-CALLERS", "once the pair is quiet nothing re-dials it: dials start only from the application's ConnectRequest and the periodic connectivity check (which skips connected / pending peers) - never from a connection ending") as ob:
        MGR_ = "anemo::network::connection_manager::ConnectionManager"
        for fn_, allowed_, n_ in ((f"{MGR_}::dial_peer", [f"{MGR_}::start", f"{MGR_}::handle_connectivity_check"], 2),
                                  (f"{MGR_}::dial_peer_task", [f"{MGR_}::dial_peer"], 1)):
            check_callers(ob, prog, fn_, allowed_, crates=["anemo"], exact=n_, what=fn_.split("::")[-1])
        # the explicit site sits in the mailbox arm (ConnectRequest), not in a join arm
        for c in prog.callers_of(f"{MGR_}::dial_peer", crates=["anemo"]):
            if owner_path(prog, c.body) == f"{MGR_}::start":
                o = Origins(c.body)
                t = strip_identity(o.of_operand(c.args[1]))
                ob.require(any(x[0] == "variant" and x[2] == "ConnectRequest" for x in walk(t)), "dial-source/explicit-is-connect-request",
                           f"a dial in the manager loop is started with address {show(t)[:80]} (not the payload of a ConnectRequest)", c.body.path, c.body.loc(c.bb))


    with cx.ob("C05.8", "R-PANIC", "the loser's handler ends quietly: between leaving its loop and returning, the connection handler executes no panic-capable construct of its own (a panic there is re-raised by the manager's join arm and takes the surviving connection down with the whole network)") as ob:
        RH_ = "anemo::network::request_handler::InboundRequestHandler"
        co = cx.coroutine(f"{RH_}::start")
        cyc = set(co.cyclic_blocks())
        ob.floor(len(cyc), 1, "handler loop blocks")
        after = set()
        for x in cyc:
            after |= co.reachable_from(x)
        rets = set(co.return_blocks())
        ex = {y for y in after - cyc if not (co.reachable_from(y) & cyc) and (co.reachable_from(y) & rets)}
        ob.floor(len(ex), 1, "blocks of the handler's exit path")
        region = set()
        for y in ex:
            region |= co.reachable_from(y)
        _, sites = panic_sites(prog, [f"{RH_}::start"], crates=["anemo"])
        ob.count(len(region))
        # ... nor does what it calls there: the removal from the peer map (ActivePeers / ActivePeersInner) has no panic of its own
        # (C06.1a re-evaluated for the peer-map code; the lock-poisoning unwraps are discharged there)
        from . import c06
        sub6 = cx.__class__("C05", prog, cx.tier, cx.config, cx.tree, repo=cx.repo)
        c06.run(sub6)
        w6 = [x for x in sub6.obs if x.oid == "C06.1a"]
        bad6 = [v for x in w6 for v in x.violations if "connection_manager::ActivePeers" in v.key]
        ob.require(len(w6) == 1 and not bad6, "handler-exit/peer-map-code-panics", "the peer-map code a finishing handler runs can panic: " + "; ".join(str(v.msg) for v in bad6)[:300],
                   "anemo::network::connection_manager::ActivePeers::remove_with_stable_id")
        for s in sites:
            if s["body"] == co.path and s["bb"] in region and not static_bounds_ok(s, co):
                ob.fail("refuted", f"handler-exit/panic/{s['what']}", f"panic-capable construct `{s['what']}` on the connection handler's exit path (after its loop)", co.path, co.loc(s["bb"]))
