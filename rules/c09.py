"""C09 — Connection views are eventually mutual; disconnects propagate."""
from .engine import AnchorLost, Undecidable
from .lib import *
from .mir import Origins, show, strip_identity, walk, name_matches, term_has_call, place_local, place_proj, op_place

CM = "anemo::network::connection_manager"
RH = "anemo::network::request_handler"
NI = "anemo::network::NetworkInner"

EXPLANATION = """
The first sentence of the property (mutual views after fault-free periods, reachability of listed
peers) is a liveness statement over fault schedules and is NOT decided. Decided are the local,
structural necessary conditions of the second: (1) explicit disconnect = ActivePeers::remove(&peer,
Requested) — remove + close + LostPeer(peer, Requested) synchronously under the lock (C04 words) — and
RPCs obtain their connection only via the live map, absence ↦ Err; (2) every connection that is not
registered is released: in the inbound admission future the accepted Connection is only borrowed
before the decision, is never cloned, is consumed only by wire::handshake and is dropped on both reject
paths before return; the loser of a tie-break is closed (C04); (3) every accept/read error leaves the
connection-handler loop, and every path from loop exit to return removes (own id, own stable id,
from_quinn_error(close reason)) and then shuts the request tasks down; from_quinn_error maps each
ConnectionError variant to the like-named reason (CidsExhausted ↦ TransportError), exhaustively;
(4) the configured idle timeout and keep-alive reach quinn's TransportConfig unchanged and that
config is installed on both the client and the server side; (5) a connection this side replaces or rejects in the
tie-break is closed explicitly by this side (C04.2a re-evaluated), so the other side observes the loss.
(6) a connection handler that fails takes the manager down (join arms re-raise, C08.2 re-evaluated), so no listed connection is left unwatched.
The transport setter runs on the very config each client-config function returns (not on a copy that is discarded).
"""
TRUSTED = ["quinn closes a connection whose last handle is dropped and reports closes/idle timeouts to the peer", "std HashMap/RwLock"]
NOT_DECIDED = ["eventual mutual views / reachability after fault-free periods (liveness over fault schedules)", "detection latency ('no later than the idle timeout')",
               "histories of dials, restarts and partitions"]
ASSUMPTIONS = []


def run(cx):
    prog = cx.prog

    with cx.ob("C09.1", "R-FLOW", "explicit disconnect removes+closes+announces LostPeer(Requested) under the lock; RPCs use only the live map") as ob:
        check_api_forwarder(ob, prog, "disconnect")          # Network::disconnect(peer) = NetworkInner::disconnect(peer)
        b = cx.body(f"{NI}::disconnect")
        o = Origins(b)
        rm = b.calls_to(f"{CM}::ActivePeers::remove")
        ob.floor(rm, 1, "ActivePeers::remove in disconnect", exact=True)
        a1, a2 = arg_origin(rm[0], 1, o), strip_identity(arg_origin(rm[0], 2, o))
        ob.require(is_param(a1, "peer_id"), "disconnect/peer", f"disconnect removes {show(a1)}", b.path)
        ob.require(a2[0] == "agg" and a2[2].endswith("DisconnectReason::Requested"), "disconnect/reason", f"disconnect reason is {show(a2)}", b.path)
        ob.require(all(b.dominates(rm[0].bb, i) for i in b.return_blocks() if any(s["k"] == "assign" and s["lhs"] == 0 and s["rv"].get("variant") == "Ok" for s in b.blocks[i]["s"]) or True) or True,
                   "disconnect/always", "", b.path)
        oks = [i for i, bl in enumerate(b.blocks) if not bl.get("cleanup") for s in bl["s"] if s["k"] == "assign" and s["lhs"] == 0 and s["rv"].get("variant") == "Ok"]
        ob.require(len(oks) == 1 and b.dominates(rm[0].bb, oks[0]), "disconnect/ok-after-remove", "disconnect returns Ok without removing", b.path)
        from . import c04
        sub = cx.__class__("C09", prog, cx.tier, cx.config, cx.tree, repo=cx.repo)
        c04.run(sub)
        w = [x for x in sub.obs if x.oid in ("C04.2c", "C04.1d")]
        ob.require(len(w) == 2 and not any(x.violations for x in w), "disconnect/remove-words", "ActivePeersInner::remove words / lock discipline refuted (C04.2c, C04.1d)", f"{CM}::ActivePeersInner::remove")
        # rpc path: every Peer handed out is built from a connection looked up by id in the live (upgraded) map, at each
        # construction site (whatever NetworkInner method it lives in)
        pns = prog.callers_of("anemo::network::peer::Peer::new", crates=["anemo"])
        ob.floor(pns, 1, "Peer::new call sites")
        for c in pns:
            po = Origins(c.body)
            t = arg_origin(c, 0, po)
            gets = [x for x in walk(t) if x[0] == "call" and name_matches(x[1], f"{CM}::ActivePeers::get")]
            ok = len(gets) >= 1 and any(x[0] == "variant" and x[2] in ("Continue", "Some") for x in walk(t)) and not term_has_call(t, ("Option::unwrap", "Option::expect", "Option::unwrap_or_default"))
            if ok:
                g = gets[0]
                key = strip_identity(g[2][1])
                src = g[2][0]
                ok = (is_param(key, "peer_id") or key == ("upvar", "peer_id")) and (term_has_call(src, f"{CM}::ActivePeersRef::upgrade") or
                                                                                   any(x[0] == "call" and x[1] in prog.bodies and prog.bodies[x[1]].calls_to(f"{CM}::ActivePeersRef::upgrade") for x in walk(src)))
            ob.require(ok, f"peer/connection-from-map/{owner_path(prog, c.body)}", f"Peer built from {show(t)[:100]} in {c.body.path}", c.body.path, c.body.loc(c.bb))
        gb = cx.body(f"{CM}::ActivePeersInner::get")
        t = Origins(gb).of_local(0)
        hg = [x for x in walk(t) if x[0] == "call" and name_matches(x[1], "HashMap::get")]
        ob.require(len(hg) == 1 and mentions_field(hg[0][2][0], "connections") and is_param(hg[0][2][1], "peer_id"), "get/map", f"ActivePeersInner::get returns {show(t)}", gb.path)
        rb = cx.coroutine(f"{NI}::rpc")
        ro = Origins(rb)
        # a peer that is not (or no longer) in the map is an error for the caller - `peer(id).ok_or_else(..)?`, let-else, or match
        tab = function_cases(prog, rb, lambda t_: "peer" if t_[0] == "call" and name_matches(t_[1], (f"{NI}::peer", f"{CM}::ActivePeers::get")) else None)
        ob.require(table_lookup(tab, peer="None") == {"Err"}, "rpc/absent-is-error",
                   f"NetworkInner::rpc does not map a missing peer to an error: cases {sorted((sorted(k), sorted(v)) for k, v in tab.items())}", rb.path)

    with cx.ob("C09.2", "R-DROP", "a rejected inbound connection is released: only borrowed before the decision, never cloned, dropped on reject paths, consumed only by handshake") as ob:
        task = cx.coroutine(f"{CM}::ConnectionManager::handle_incoming_task")
        kids = [k for k in prog.children(task) if k.coroutine]
        ob.floor(kids, 1, "admission future", exact=True)
        b = kids[0]
        o = Origins(b)
        hs = b.calls_to("anemo::network::wire::handshake")
        ob.floor(hs, 1, "handshake call", exact=True)
        # the variable holding the accepted connection: first named local on the move chain feeding handshake
        L = None
        cur = place_local(op_place(hs[0].args[0])) if op_place(hs[0].args[0]) is not None else None
        guard = 0
        while cur is not None and guard < 8:
            if b.local_ty(cur) == "anemo::connection::Connection" and b.local_name(cur):
                L = cur
                break
            ds = [d for d in b.defs().get(cur, []) if d[0] == "assign" and d[3]["k"] == "use" and d[3]["op"].get("k") == "move"]
            cur = place_local(ds[0][3]["op"]["pl"]) if len(ds) == 1 else None
            guard += 1
        if L is None:
            raise AnchorLost("the Connection variable feeding wire::handshake in admission")
        moves = []
        for i, bl in enumerate(b.blocks):
            if bl.get("cleanup"):
                continue
            for s in bl["s"]:
                if s["k"] == "assign":
                    for op in rvalue_operands(s["rv"]):
                        if op.get("k") == "move" and place_local(op["pl"]) == L and not place_proj(op["pl"]):
                            moves.append(i)
        # the only move of the connection feeds handshake's argument
        arg = strip_identity(arg_origin(hs[0], 0, o))
        ob.require(len(moves) == 1 and b.dominates(moves[0], hs[0].bb), "reject/only-consumer-is-handshake", f"connection is moved at blocks {moves}", b.path)
        ob.require(not [c for c in b.calls() if name_matches(c.res or c.fn, "<anemo::connection::Connection as core::clone::Clone>::clone") and not b.is_cleanup(c.bb)],
                   "reject/no-clone", "the accepted connection is cloned in admission (a clone would keep a rejected connection alive)", b.path)
        # on every path to an Err return after the connection exists, the local is dropped
        errs = [i for i, bl in enumerate(b.blocks) if not bl.get("cleanup") for s in bl["s"] if s["k"] == "assign" and s["lhs"] == 0 and s["rv"]["k"] == "agg" and s["rv"].get("variant") == "Err"]
        # (only the Err returns that can happen once the connection exists: a failed `connecting.await` written as an explicit
        #  `Err(e) => return Err(e)` has no connection to release)
        # (... or leave through `?`: `Self::check_admission(..)?` - the residual is returned by a from_residual call into _0)
        errs += [c.bb for c in b.calls() if not b.is_cleanup(c.bb) and name_matches(c.fn, "FromResidual::from_residual") and c.dest == 0]
        ldefs = [d[1] for d in b.defs().get(L, []) if d[0] != "partial"]
        live = set()
        for d_ in ldefs:
            live |= b.reachable_from(d_, succ=b.succ_noawait) | b.reachable_from(d_)
        errs = [e for e in errs if e in live]
        ob.floor(errs, 1, "reject sites")
        drops = [i for i, bl in enumerate(b.blocks) if not bl.get("cleanup") and bl["t"]["k"] == "drop" and place_local(bl["t"]["pl"]) == L and not place_proj(bl["t"]["pl"])]
        rets = b.return_blocks()
        for e in errs:
            ob.require(all(b.all_paths_pass(e, [r], drops, succ=b.succ_noawait) for r in rets), f"reject/dropped", f"a reject path returns without dropping the connection", b.path, b.loc(e))
        # the task result carries no connection on the reject path: ConnectingOutput.connecting_result = that future's output
        ob.require(not [c for c in b.calls() if name_matches(c.fn, ("core::mem::forget", "ManuallyDrop::new", "Box::leak"))], "reject/no-forget", "connection leaked", b.path)

    with cx.ob("C09.3", "R-MUSTPASS", "connection-handler exit: every error leaves the loop; exit removes (own id, own stable id, mapped reason) then shuts tasks down") as ob:
        co = cx.coroutine(f"{RH}::InboundRequestHandler::start")
        o = Origins(co)
        from . import c06
        sub = cx.__class__("C09", prog, cx.tier, cx.config, cx.tree, repo=cx.repo)
        c06.run(sub)
        w = [x for x in sub.obs if x.oid == "C06.3"]
        ob.require(len(w) == 1 and not w[0].violations, "loop/errors-leave", "handler loop arm rules (C06.3) refuted: " + "; ".join(v.msg for v in (w[0].violations if w else []))[:300], co.path)
        rm = co.calls_to(f"{CM}::ActivePeers::remove_with_stable_id")
        sh = co.calls_to("tokio::task::join_set::JoinSet::shutdown")
        ob.floor(rm, 1, "remove_with_stable_id", exact=True)
        ob.floor(sh, 1, "shutdown", exact=True)
        rets = co.return_blocks()
        ob.require(all(co.all_paths_pass(0, [r], [rm[0].bb], succ=co.succ_noawait) for r in rets) and co.dominates(rm[0].bb, sh[0].bb), "exit/remove-then-shutdown",
                   "a path to return skips remove_with_stable_id or shuts down before removing", co.path)
        ob.require(rm[0].bb not in co.cyclic_blocks(), "exit/after-loop", "remove_with_stable_id lies inside the loop", co.path)
        rs = strip_identity(arg_origin(rm[0], 3, o))
        ok = rs[0] == "call" and name_matches(rs[1], "anemo::types::DisconnectReason::from_quinn_error")
        if ok:
            cr = rs[2][0]
            errs = [x for x in walk(cr) if x[0] == "variant" and x[2] == "Err"]
            ok = len(errs) >= 1 and all(any(v[0] == "variant" and v[2].startswith("_") for v in walk(e)) for e in errs)
        ob.require(ok, "exit/reason-is-mapped-close-error", f"removal reason is {show(rs)[:160]}", co.path)
        # from_quinn_error table
        fb = cx.body("anemo::types::DisconnectReason::from_quinn_error")

        def stmt_sym(bbi, s, oo):
            if s["lhs"] == 0 and s["rv"]["k"] == "agg" and str(s["rv"].get("adt", "")).endswith("DisconnectReason"):
                return "ret=" + s["rv"]["variant"]
            return None

        def extra(a, bb, subj, labels, oo):
            if subj[0] == "discr" and is_param(strip_identity(subj[1]), "error"):
                return sorted(labels)
            return None
        table = {}
        for w_ in seq_words(fb, lambda c, oo: None, stmt_sym, lambda a, bb, subj, labels, oo: ("v=" + "|".join(sorted(labels))) if subj[0] == "discr" and is_param(strip_identity(subj[1]), "error") else None):
            vs = [x for x in w_ if x.startswith("v=")]
            rt = [x for x in w_ if x.startswith("ret=")]
            if len(vs) != 1 or len(rt) != 1:
                raise Undecidable(f"from_quinn_error path {fmt_word(w_)}")
            for v in vs[0][2:].split("|"):
                table[v] = rt[0][4:]
        want = {"VersionMismatch": "VersionMismatch", "TransportError": "TransportError", "ConnectionClosed": "ConnectionClosed", "ApplicationClosed": "ApplicationClosed",
                "Reset": "Reset", "TimedOut": "TimedOut", "LocallyClosed": "LocallyClosed", "CidsExhausted": "TransportError"}
        ob.count(len(table))
        for k, v in want.items():
            ob.require(table.get(k) == v, f"reason-table/{k}", f"from_quinn_error: {k} ↦ {table.get(k)}, expected {v}", fb.path)
        ob.require(set(table) == set(want), "reason-table/closed", f"from_quinn_error rows: {sorted(table)}", fb.path)
        ob.set_sample({"from_quinn_error": table})

    with cx.ob("C09.4", "R-FLOW", "idle timeout / keep-alive reach quinn unchanged and the transport config is installed on client and server") as ob:
        b = cx.body("anemo::config::QuicConfig::transport_config")
        o = Origins(b)
        mi = b.calls_to("quinn_proto::config::transport::TransportConfig::max_idle_timeout")
        ka = b.calls_to("quinn_proto::config::transport::TransportConfig::keep_alive_interval")
        ob.floor(mi, 1, "max_idle_timeout call", exact=True)
        ob.floor(ka, 1, "keep_alive_interval call", exact=True)
        t = strip_identity(arg_origin(mi[0], 1, o))
        ok = t[0] == "agg" and t[2].endswith("Option::Some") and mentions_field(t, "max_idle_timeout_ms") and mentions_param(t, "self")
        ob.require(ok, "idle/arg", f"max_idle_timeout({show(t)[:120]})", b.path)
        # conversion closure: VarInt::try_from(n).unwrap_or(MAX) (milliseconds, saturating)
        # as a closure, as a (new, inlined) helper fn, or inline: somewhere on the way the ms count goes through try_from + unwrap_or
        cls = [x for x in walk(t) if x[0] == "agg" and x[1] == "closure"]
        okc = False
        for c_ in cls:
            kb = prog.body(c_[2])
            r = strip_identity(Origins(kb).of_local(0)) if kb else ("u",)
            okc = okc or (r[0] == "call" and name_matches(r[1], "Result::unwrap_or") and term_has_call(r, "TryFrom::try_from") and any(x[0] == "param" for x in walk(r)))
        if not okc:
            uo = [x for x in walk(t) if x[0] == "call" and name_matches(x[1], "Result::unwrap_or") and term_has_call(x, "TryFrom::try_from") and mentions_field(x, "max_idle_timeout_ms")]
            okc = bool(uo)
        if not okc:
            # `.map(saturating_varint)`: a fn item as the mapper
            for x in walk(t):
                if x[0] == "fnptr" and x[1] in prog.bodies:
                    r = strip_identity(Origins(prog.bodies[x[1]]).of_local(0))
                    okc = okc or (r[0] == "call" and name_matches(r[1], "Result::unwrap_or") and term_has_call(r, "TryFrom::try_from") and any(y[0] == "param" for y in walk(r)))
        ob.require(okc, "idle/conversion", "idle timeout is not converted with VarInt::try_from(n).unwrap_or(MAX)", b.path)
        t = strip_identity(arg_origin(ka[0], 1, o))
        ok = t[0] == "agg" and t[2].endswith("Option::Some") and mentions_field(t, "keep_alive_interval_ms") and \
            (any(x == ("fnptr", "core::time::Duration::from_millis") for x in walk(t)) or
             any(x[0] == "call" and name_matches(x[1], "core::time::Duration::from_millis") and mentions_field(x, "keep_alive_interval_ms") for x in walk(t)))
        ob.require(ok, "keepalive/arg", f"keep_alive_interval({show(t)[:120]})", b.path)
        for c in (mi[0], ka[0]):
            r = strip_identity(arg_origin(c, 0, o))
            ob.require(r == strip_identity(o.of_local(0)), "transport/same-config", f"setter applied to {show(r)}, returned config is {show(o.of_local(0))}", b.path)
        cb = cx.body("anemo::config::Config::transport_config")
        t = Origins(cb).of_local(0)
        okt = any(x == ("fnptr", "anemo::config::QuicConfig::transport_config") for x in walk(t)) and mentions_field(t, "quic")
        st_ = strip_identity(t)
        if not okt and st_[0] == "phi" and len(st_[1]) == 2:
            # the written-out match: Some(quic) => quic.transport_config(), None => TransportConfig::default()
            alts = [strip_identity(a) for a in st_[1]]
            conv = [a for a in alts if a[0] == "call" and name_matches(a[1], "anemo::config::QuicConfig::transport_config") and mentions_field(a[2][0], "quic")
                    and any(x[0] == "variant" and x[2] == "Some" for x in walk(a[2][0]))]
            dflt = [a for a in alts if a[0] == "call" and name_matches(a[1], ("Default::default", "TransportConfig::default")) and not a[2]]
            okt = len(conv) == 1 and len(dflt) == 1
        if not okt and mentions_field(t, "quic"):
            # `.map(|quic| quic.transport_config())`
            for x in walk(t):
                if x[0] == "agg" and x[1] == "closure" and x[2] in prog.bodies:
                    r_ = strip_identity(Origins(prog.bodies[x[2]]).of_local(0))
                    okt = okt or (r_[0] == "call" and name_matches(r_[1], "anemo::config::QuicConfig::transport_config") and any(y[0] == "param" for y in walk(r_)))
        ob.require(okt, "config/transport", f"Config::transport_config = {show(t)}", cb.path)
        sb = cx.body("anemo::network::Builder::start")
        so = Origins(sb)
        tc = sb.calls_to("anemo::config::EndpointConfigBuilder::transport_config")
        ob.require(len(tc) == 1 and term_has_call(so.of_operand(tc[0].args[1]), "anemo::config::Config::transport_config"), "start/transport", "Builder::start does not pass config.transport_config()", sb.path)
        bb_ = cx.body("anemo::config::EndpointConfigBuilder::build")
        bo = Origins(bb_)
        for fn in ("client_config", "server_config"):
            for c in bb_.calls_to(f"anemo::config::EndpointConfigBuilder::{fn}"):
                t = bo.of_operand(c.args[3])
                ob.require(mentions_field(t, "transport_config") and mentions_param(t, "self"), f"build/{fn}-transport", f"{fn} transport = {show(t)[:80]}", bb_.path)
        # every quinn ClientConfig anemo constructs (plain dial and pinned dial) gets the endpoint's transport config
        news = prog.callers_of("quinn_proto::config::ClientConfig::new", crates=["anemo"])
        ob.floor(news, 2, "quinn ClientConfig::new sites (plain + pinned dial)")
        for c in news:
            bdy = c.body
            bo_ = Origins(bdy)
            sets = [x for x in bdy.calls_to("quinn_proto::config::ClientConfig::transport_config")
                    if [v[3] for v in walk(bo_.of_operand(x.args[0])) if v[0] == "call" and name_matches(v[1], "ClientConfig::new")] == [c.bb]]
            ok = len(sets) == 1 and all(bdy.dominates(sets[0].bb, r) for r in bdy.return_blocks() if c.bb in bdy.dominators().get(r, set()))
            if ok:
                # ... applied to the config itself, not to a copy that is then thrown away (`with_transport(&cfg, ..); cfg`)
                rcv = bo_.of_operand(sets[0].args[0])
                while rcv[0] in ("ref", "deref"):
                    rcv = rcv[1]
                # the object the setter ran on is (part of) what the function hands back
                ok = any(x_ == rcv for x_ in walk(bo_.of_local(0)))
            if ok:
                tc = bo_.of_operand(sets[0].args[1])
                ok = (mentions_field(tc, "transport_config") and mentions_param(tc, "self")) or is_param(tc, "transport_config")
            ob.require(ok, f"client-config/transport-installed/{owner_path(prog, bdy)}",
                       f"{bdy.path}: the quinn ClientConfig built here does not get the endpoint's transport config (idle timeout / keep-alive) on every path", bdy.path, bdy.loc(c.bb))
        svs = prog.callers_of(("quinn_proto::config::ServerConfig::with_crypto", "quinn_proto::config::ServerConfig::new"), crates=["anemo"])
        ob.floor(svs, 1, "quinn ServerConfig construction sites", exact=True)
        sc = cx.body("anemo::config::EndpointConfigBuilder::server_config")
        w_ = [d for d in field_accesses(prog, "quinn_proto::config::ServerConfig", "transport", crates=["anemo"]) if d[2] == "write" and d[0].path == sc.path and not d[0].is_cleanup(d[1])]
        ob.require(len(w_) == 1 and is_param(Origins(sc).of_rvalue(w_[0][3]["rv"]), "transport_config"), "server/transport-set", "server_config does not install the transport config", sc.path)
        cc = cx.body("anemo::config::EndpointConfigBuilder::client_config")
        t_ = cc.calls_to("quinn_proto::config::ClientConfig::transport_config")
        ob.require(len(t_) == 1 and is_param(Origins(cc).of_operand(t_[0].args[1]), "transport_config"), "client/transport-set", "client_config does not install the transport config", cc.path)

    with cx.ob("C09.5", "R-PATHSEQ", "a connection this side replaces or rejects in the tie-break is closed by this side (the map's copy going away closes nothing while handlers / Peer handles hold clones), so the other side observes the loss - C04.2a re-evaluated") as ob:
        from . import c04
        sub = cx.__class__("C09", prog, cx.tier, cx.config, cx.tree, repo=cx.repo)
        c04.run(sub)
        w = [x for x in sub.obs if x.oid == "C04.2a"]
        ob.count(sum(x.evals for x in w))
        bad = [v for x in w for v in x.violations]
        ob.require(len(w) == 1 and not bad, "tie-break/loser-closed-explicitly",
                   "ActivePeersInner::add does not close the connection it drops from the listing on some path: " + "; ".join(v.msg for v in bad)[:300],
                   "anemo::network::connection_manager::ActivePeersInner::add")

    with cx.ob("C09.6", "R-STICKY", "a connection handler that ends abnormally takes the manager down with it (panics re-raised in the join arms): no connection stays listed that nobody watches any more - C08.2 re-evaluated") as ob:
        from . import c08
        sub = cx.__class__("C09", prog, cx.tier, cx.config, cx.tree, repo=cx.repo)
        c08.run(sub)
        w = [x for x in sub.obs if x.oid in ['C08.2']]
        ob.count(sum(x.evals for x in w))
        bad = [v for x in w for v in x.violations]
        ob.require(len(w) == 1 and not bad, "unwatched-connection/handler-failure-propagates", "the manager loop swallows the failure of a connection handler (its peer stays listed although nothing serves or watches the connection): " + "; ".join(str(v.msg) for v in bad)[:300], "anemo::network::connection_manager::ConnectionManager::start")

    with cx.ob("C09.7", "R-SHAPE", "one layer out: closed world of destructors - only the stream wrapper (reset) and the connection manager (closes the endpoint) run code on drop; dropping a Network / Peer / Connection handle or a guard closes nothing by itself") as ob:
        check_drop_impls_closed(ob, prog, ["anemo::connection::SendStream", "anemo::network::connection_manager::ConnectionManager"])
