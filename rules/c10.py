"""C10 — Inbound admission follows peer affinity and the connection limit."""
from .engine import AnchorLost, Undecidable
from .lib import *
from .mir import Origins, show, strip_identity, walk, name_matches, term_has_call

CM = "anemo::network::connection_manager"
TASK = f"{CM}::ConnectionManager::handle_incoming_task"

EXPLANATION = """
The inbound admission decision is a finite decision over enum discriminants and one usize comparison
inside the async block of handle_incoming_task. The check enumerates every CFG path from the
completed `connecting.await` to either `wire::handshake(connection)` (admit: the acknowledgement is only
written there) or an Err return (reject), records each path's tests (known-peer lookup Some/None,
affinity variant, limit Some/None, truth of `len >= limit` in any equivalent operator arrangement)
and requires the resulting table to be exactly: High/Allowed ↦ admit without consulting the limit,
Never ↦ reject, unknown ∧ no limit ↦ admit, unknown ∧ len ≥ limit ↦ reject, unknown ∧ len < limit ↦
admit. Value-origin rules pin the lookup key to the authenticated id of the accepted connection and
`len` to the direction-agnostic peer map; a who-may-call rule shows nothing but this function reads
the limit (explicit and background dials are never limited); the whole decision runs under the
connect timeout.
The count compared with the limit is current: at handler exit the peer leaves the map before the request tasks are shut down (C09.3 re-evaluated).
The affinity looked up is the one last configured: KnownPeers::insert replaces the whole entry, remove deletes it, nothing else writes the map or edits a PeerInfo in place.
The limit field is (de)serialised by the plain derived impls (serde attributes read from the source: no hook, no custom default).
Background dials are held back only by dials in flight (C13.4 re-evaluated).
The accept arm (like every arm of the manager loop) has no precondition: admission does not depend on the node's own dials in flight.
"""
TRUSTED = ["KnownPeers is a HashMap<PeerId, PeerInfo> behind a RwLock", "quinn closes a connection whose last handle is dropped"]
NOT_DECIDED = ["truly simultaneous arrivals (excluded by the property)", "slot accounting over histories beyond `len()` reading the live map",
               "when exactly the rejected dialer observes the failure"]
ASSUMPTIONS = []


def run(cx):
    prog = cx.prog

    with cx.ob("C10.1", "R-TABLE", "admission decision table of handle_incoming_task (affinity × limit × len>=limit)") as ob:
        task = cx.coroutine(TASK)
        kids = [k for k in prog.children(task) if k.coroutine]
        ob.floor(kids, 1, "async block inside handle_incoming_task", exact=True)
        b = kids[0]

        # (the one-line accessors ActivePeers::len / ActivePeersInner::len are always inlined: the size of the peer map is
        #  `self.inner().connections.len()` - read guard, then HashMap::len of the direction-agnostic map)
        def is_len_term(t):
            return any(x[0] == "call" and name_matches(x[1], "HashMap::len") and mentions_field(x, "connections") and term_has_call(x, f"{CM}::ActivePeers::inner") for x in walk(t))

        def is_len_call(c, o):
            return name_matches(c.fn, "HashMap::len") and mentions_field(o.of_operand(c.args[0]), "connections") and term_has_call(o.of_operand(c.args[0]), f"{CM}::ActivePeers::inner")

        def call_sym(c, o):
            aw = await_target(c)
            if aw is not None:
                if aw.endswith("endpoint::Connecting as core::future::future::Future>::poll"):
                    return "await(connecting)"
                if aw == "anemo::network::wire::handshake":
                    return "await(handshake)"
                return f"await(?{aw})"
            if name_matches(c.fn, "anemo::network::wire::handshake"):
                t = strip_identity(o.of_operand(c.args[0]))
                r_ = payload_root(t)
                ok = r_ is not t and r_[0] == "call" and name_matches(r_[1], "Future::poll") and t[0] == "field"     # the Ok payload of `connecting.await` (`?` or match)
                return "handshake(connection)" if ok else f"handshake(?{show(t)})"
            if name_matches(c.fn, f"{CM}::KnownPeers::get"):
                return "lookup"
            if name_matches(c.fn, "anemo::config::Config::max_concurrent_connections"):
                return "limit?"
            if is_len_call(c, o):
                return "len"
            if name_matches(c.fn, "FromResidual::from_residual") and c.dest == 0:
                return None
            if name_matches(c.fn, ("Connection::close", "Endpoint::close", "ActivePeers::add", "ActivePeers::remove")):
                return "call:" + c.fn.split("::")[-1]
            return None

        def mk_edge(bd):
            def edge_sym(a, bb, subj, labels, o):
                lab = "|".join(sorted(labels))
                if subj[0] == "discr":
                    u = subj[1]
                    root = strip_identity(u)
                    if root[0] == "call" and name_matches(root[1], "Future::poll"):
                        return [] if lab == "Ready" else "pending"
                    if root[0] == "call" and name_matches(root[1], "Try::branch"):
                        return [] if lab == "Continue" else "!err"
                    if term_has_call(u, f"{CM}::KnownPeers::get"):
                        if mentions_field(u, "affinity"):
                            return "aff=" + lab
                        if "affinity" in mapped_field_names(prog, u) and root[0] == "field" and root[1][0] == "variant":
                            return "aff=" + lab         # payload of `known_peers.get(..).map(|info| info.affinity)`
                        return "known=" + lab
                    if term_has_call(u, "Config::max_concurrent_connections"):
                        return "limit=" + lab
                n = normalize_cmp(subj)
                if n is not None:
                    neg, op, x, y = n
                    xl = is_len_term(x)
                    yl = is_len_term(y)
                    xm = term_has_call(x, "Config::max_concurrent_connections")
                    ym = term_has_call(y, "Config::max_concurrent_connections")
                    if (xl and ym) or (xm and yl):
                        tv = cmp_truth(op, xl, labels, neg)
                        if tv is not None:
                            return "len>=limit:" + str(tv).lower()
                        return f"?cmp:{op}({'len' if xl else 'limit'},{'limit' if xl else 'len'})={lab}"
                t = bd.blocks[a]["t"]
                if t.get("exp") and any(m in t["exp"] for m in ("anyhow", "format", "debug", "trace")):
                    return ""
                return f"?cond({show(subj)[:60]})={lab}"
            return edge_sym

        def stmt_sym(bbi, s, o):
            if s["lhs"] == 0:
                rv = s["rv"]
                if rv["k"] == "agg" and rv.get("adt") == "core::result::Result" and rv["variant"] == "Err":
                    return "ret=Err"
                t = o.of_rvalue(rv)
                if any(x[0] == "variant" and x[2] == "Ready" for x in walk(t)) and term_has_call(t, "Future::poll"):
                    return "ret=handshake-result"
                return "ret=?" + show(t)[:50]
            return None

        # small predicate helpers (e.g. an `is_exempt()` on the affinity) are inlined: the table is decided on what they test
        ws = words_of(b, call_sym, mk_edge(b), stmt_sym, inline={"prog": prog, "edge_for": mk_edge})
        ws = {tuple(x for x in w if x != "") for w in ws}
        # canonical rows: one word per affinity variant (or-pattern arm == separate arms); a failed `connecting.await` is an
        # error return whether propagated with `?` or returned from an explicit match
        def rows(w_):
            outs = [[]]
            for x_ in w_:
                x_ = "ret=Err" if x_ == "!err" else x_
                if isinstance(x_, str) and x_.startswith("aff=") and "|" in x_:
                    outs = [p_ + ["aff=" + v_] for p_ in outs for v_ in x_[4:].split("|")]
                else:
                    outs = [p_ + [x_] for p_ in outs]
            return [tuple(p_) for p_ in outs]
        ws = {r_ for w in ws for r_ in rows(w)}
        pre = "await(connecting) lookup "
        hs = "handshake(connection) await(handshake) ret=handshake-result <return>"
        check_words(ob, b, ws, {
            "await(connecting) ret=Err <return>",
            pre + "known=Some aff=Allowed " + hs,
            pre + "known=Some aff=High " + hs,
            pre + "known=Some aff=Never ret=Err <return>",
            pre + "known=None limit? limit=None " + hs,
            pre + "known=None limit? limit=Some len len>=limit:true ret=Err <return>",
            pre + "known=None limit? limit=Some len len>=limit:false " + hs,
        }, "admission")

    with cx.ob("C10.2", "R-FLOW", "lookup key = authenticated id of the accepted connection; len = size of the direction-agnostic map") as ob:
        o = Origins(b)
        gs = b.calls_to(f"{CM}::KnownPeers::get")
        ob.floor(gs, 1, "KnownPeers::get in admission", exact=True)
        t = strip_identity(arg_origin(gs[0], 1, o))
        ok = t[0] == "call" and name_matches(t[1], "anemo::connection::Connection::peer_id")
        if ok:
            u = strip_identity(t[2][0])
            r_ = payload_root(u)
            ok = r_ is not u and r_[0] == "call" and name_matches(r_[1], "Future::poll")        # the Ok payload of `connecting.await`
        ob.require(ok, "lookup-key", f"known-peer lookup key is {show(t)}", b.path, b.loc(gs[0].bb))
        ob.require(mentions_upvar(arg_origin(gs[0], 0, o), "known_peers"), "lookup-map", "lookup not on the task's known_peers", b.path)
        ls = [(c_, g_) for c_, g_ in calls_with_closures(prog, b, "HashMap::len") if mentions_field(g_(0), "connections") and term_has_call(g_(0), f"{CM}::ActivePeers::inner")]
        ob.floor(ls, 1, "size of the peer map (inner().connections.len()) read in admission", exact=True)
        ob.require(mentions_upvar(ls[0][1](0), "active_peers") or mentions_param(ls[0][1](0), "active_peers"), "len-map", f"len() not on the task's active_peers ({show(ls[0][1](0))[:60]})", b.path)
        ms = b.calls_to("anemo::config::Config::max_concurrent_connections")
        ob.require(len(ms) == 1 and mentions_upvar(arg_origin(ms[0], 0, o), "config"), "limit-config", "limit not read from the task's config", b.path)
        # KnownPeers::get = map.get(peer_id).cloned()
        kb = cx.body(f"{CM}::KnownPeers::get")
        t = Origins(kb).of_local(0)
        hg = []
        for x in walk(t):          # the same lookup may occur in several alternatives of the result (`?` / match forms)
            if x[0] == "call" and name_matches(x[1], "HashMap::get") and x not in hg:
                hg.append(x)
        ob.require(len(hg) == 1 and is_param(hg[0][2][1], "peer_id"), "KnownPeers::get", f"KnownPeers::get returns {show(t)}", kb.path)
        # Config::max_concurrent_connections returns the field
        mb = cx.body("anemo::config::Config::max_concurrent_connections")
        t = strip_identity(Origins(mb).of_local(0))
        ob.require(t[0] == "field" and t[2] == "max_concurrent_connections" and is_param(t[1], "self"), "limit/getter",
                   f"Config::max_concurrent_connections returns {show(t)}", mb.path)

    with cx.ob("C10.3", "R-CALLERS", "the connection limit is read only by inbound admission (dials are never limited)") as ob:
        check_callers(ob, prog, "anemo::config::Config::max_concurrent_connections", [TASK], exact=1, crates=["anemo"],
                      what="Config::max_concurrent_connections")
        acc = [a for a in field_accesses(prog, "anemo::config::Config", "max_concurrent_connections", crates=["anemo"])
               if a[2] in ("read", "sharedref", "move", "mutref") and not a[0].is_cleanup(a[1])]
        for bb_, i, kind, _ in acc:
            own = owner_path(prog, bb_)
            ob.require(own in ("anemo::config::Config::max_concurrent_connections",) or "serde" in bb_.path or "_::" in bb_.path or own.startswith("<anemo::config::Config as"),
                       f"limit-field-read/{own}", f"Config.max_concurrent_connections is read in {bb_.path}", bb_.path, bb_.loc(i))

    with cx.ob("C10.4", "R-MUSTPASS", "decision + handshake run inside timeout(config.connect_timeout(), fut); task spawned only for accepted connections") as ob:
        o = Origins(task)
        ts = task.calls_to("tokio::time::timeout::timeout")
        ob.floor(ts, 1, "tokio::time::timeout in handle_incoming_task", exact=True)
        a0 = arg_origin(ts[0], 0, o)
        a1 = strip_identity(arg_origin(ts[0], 1, o))
        ob.require(term_has_call(a0, "anemo::config::Config::connect_timeout"), "timeout/duration", f"timeout duration is {show(a0)}", task.path)
        ob.require(a1[0] == "agg" and a1[1] == "coroutine" and a1[2] == b.path, "timeout/future", f"timeout future is {show(a1)}", task.path)
        check_ms_getter(ob, prog, "anemo::config::Config::connect_timeout", "connect_timeout_ms")
        # (the forwarder handle_incoming is always inlined into the accept arm of the manager loop)
        check_callers(ob, prog, TASK, [f"{CM}::ConnectionManager::start"], exact=1, what="handle_incoming_task")

    with cx.ob("C10.5", "R-MUSTPASS", "the count the limit is compared with is current: a connection that ended leaves the peer map before anything else happens at handler exit (removal precedes the shutdown of its request tasks) - C09.3 re-evaluated") as ob:
        from . import c09
        sub = cx.__class__("C10", prog, cx.tier, cx.config, cx.tree, repo=cx.repo)
        c09.run(sub)
        w = [x for x in sub.obs if x.oid in ['C09.3']]
        ob.count(sum(x.evals for x in w))
        bad = [v for x in w for v in x.violations]
        ob.require(len(w) == 1 and not bad, "stale-count/removed-first-at-handler-exit", "a finished connection can stay counted while its request tasks are being shut down: " + "; ".join(str(v.msg) for v in bad)[:300], "anemo::network::request_handler::InboundRequestHandler::start")

    with cx.ob("C10.6", "R-WRITERS", "one layer out: the configured connection limit is never rewritten after the Config was built") as ob:
        check_config_immutable(ob, prog, ["max_concurrent_connections"], repo=cx.repo)

    with cx.ob("C10.7", "R-WRITERS", "one layer out: the affinity admission looks up is the one last configured - KnownPeers::insert replaces the whole entry with the given PeerInfo, remove deletes it, and nothing else writes the map") as ob:
        KP = f"{CM}::KnownPeers"
        check_callers(ob, prog, f"{KP}::inner_mut", [f"{KP}::insert", f"{KP}::remove", f"{KP}::remove_all"], crates=["anemo"], floor=3, what="KnownPeers::inner_mut (write guard)")
        wr = [c for c in prog.callers_of("RwLock::write", crates=["anemo"]) if "PeerInfo" in str(c.ga) + str(c.self_ty or "")]
        for c in wr:
            ob.require(owner_path(prog, c.body) == f"{KP}::inner_mut", f"write-guard/{owner_path(prog, c.body)}", f"the known-peers lock is write-locked in {c.body.path}", c.body.path, c.body.loc(c.bb))
        ob.floor(wr, 1, "write-lock sites of the known-peers map")
        ib = cx.body(f"{KP}::insert")
        io = Origins(ib)
        hm = [c for c in ib.calls() if not ib.is_cleanup(c.bb) and c.fn and "HashMap" in c.fn]
        ins = [c for c in hm if c.is_("HashMap::insert")]
        ob.require(len(hm) == 1 and len(ins) == 1, "insert/only-map-op", f"KnownPeers::insert map operations: {[c.fn for c in hm]}", ib.path)
        if len(ins) == 1:
            k = strip_identity(arg_origin(ins[0], 1, io))
            v = strip_identity(arg_origin(ins[0], 2, io))
            ob.require(k[0] == "field" and k[2] == "peer_id" and is_param(strip_identity(k[1]), "peer_info") and is_param(v, "peer_info"), "insert/replaces-entry",
                       f"KnownPeers::insert stores {show(v)[:80]} under {show(k)[:80]}", ib.path)
            ob.require(all(ib.dominates(ins[0].bb, r) for r in ib.return_blocks()), "insert/always", "a return of KnownPeers::insert skips the map insert", ib.path)
        rb = cx.body(f"{KP}::remove")
        ro = Origins(rb)
        hm = [c for c in rb.calls() if not rb.is_cleanup(c.bb) and c.fn and "HashMap" in c.fn]
        ok = len(hm) == 1 and hm[0].is_("HashMap::remove") and is_param(strip_identity(arg_origin(hm[0], 1, ro)), "peer_id") and all(rb.dominates(hm[0].bb, r) for r in rb.return_blocks())
        ob.require(ok, "remove/deletes-entry", f"KnownPeers::remove map operations: {[c.fn for c in hm]}", rb.path)
        # PeerInfo values are never edited in place
        for fld in ("affinity", "peer_id"):
            acc = [a for a in field_accesses(prog, "anemo::types::PeerInfo", fld, crates=["anemo"]) if a[2] in ("mutref", "write") and not a[0].is_cleanup(a[1])]
            for bb_, i, kind, _ in acc:
                own = owner_path(prog, bb_)
                ob.require("serde" in bb_.path or "_::" in bb_.path or own.startswith("<anemo::types::PeerInfo as"), f"PeerInfo.{fld}-writer/{own}", f"PeerInfo.{fld} is {kind}-accessed in {bb_.path}", bb_.path, bb_.loc(i))

    with cx.ob("C10.8", "R-FLOW", "background dials to High-affinity peers are held back only by dials still in flight, never by established connections or the inbound limit: number_to_dial = min(eligible, cap - pending_connections.len()) (C13.4 re-evaluated)") as ob:
        from . import c13
        sub = cx.__class__("C10", prog, cx.tier, cx.config, cx.tree, repo=cx.repo)
        c13.run(sub)
        w = [x for x in sub.obs if x.oid == "C13.4"]
        ob.count(sum(x.evals for x in w))
        bad = [v for x in w for v in x.violations]
        ob.require(len(w) == 1 and not bad, "background-dials/only-in-flight-dials-count", "background dialing can be blocked by something else than dials in flight: " + "; ".join(str(v.msg) for v in bad)[:300],
                   "anemo::network::connection_manager::ConnectionManager::handle_connectivity_check")

    with cx.ob("C10.9", "R-STICKY", "admission depends on nothing but affinity, limit and the number of connections: the manager loop accepts incoming connections unconditionally - no select! arm of the loop (the accept arm in particular) is switched off by a condition such as the node's own dials in flight") as ob:
        lb9 = prog.callers_of(f"{CM}::ConnectionManager::handle_connectivity_check")
        ob.floor(lb9, 1, "manager loop (caller of handle_connectivity_check)", exact=True)
        check_no_select_preconditions(ob, prog, lb9[0].body, "manager-loop")

