#!/bin/sh
# Build the fact extractor and warm the dependency target directory (offline).
set -e
cd "$(dirname "$0")"
export CARGO_NET_OFFLINE=true
(cd driver && cargo build --offline 2>&1 | tail -3)
python3 -m rules.facts dev
echo "setup ok"
