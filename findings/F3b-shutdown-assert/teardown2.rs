use anemo::{Network, Router};
use std::sync::atomic::{AtomicUsize, Ordering};
use std::sync::Arc;
use std::time::Duration;

fn key(i: u64) -> [u8; 32] {
    let mut k = [9u8; 32];
    k[..8].copy_from_slice(&i.to_le_bytes());
    k
}

// runtime teardown racing with the last Network handle being dropped on another thread
#[test]
fn runtime_teardown_racing_handle_drop() {
    let iters: usize = std::env::var("ITERS").ok().and_then(|s| s.parse().ok()).unwrap_or(300);
    let panics = Arc::new(AtomicUsize::new(0));
    let p2 = panics.clone();
    let default_hook = std::panic::take_hook();
    std::panic::set_hook(Box::new(move |info| {
        p2.fetch_add(1, Ordering::SeqCst);
        default_hook(info);
    }));
    let mut hangs = 0usize;
    for i in 0..iters {
        let rt = tokio::runtime::Builder::new_multi_thread().worker_threads(4).enable_all().build().unwrap();
        let nets = rt.block_on(async {
            let mut nets = vec![];
            for k in 0..4u64 {
                nets.push(Network::bind("localhost:0").server_name("teardown").private_key(key(i as u64 * 16 + k)).start(Router::new()).unwrap());
            }
            for k in 0..4usize {
                let addr = nets[(k + 1) % 4].local_addr();
                let _ = nets[k].connect(addr).await;
            }
            nets
        });
        let (tx, rx) = std::sync::mpsc::channel();
        let spin = (i % 7) as u64 * 20;
        let h2 = std::thread::spawn(move || {
            std::thread::sleep(Duration::from_micros(spin));
            drop(nets);
        });
        let h = std::thread::spawn(move || {
            drop(rt);
            let _ = tx.send(());
        });
        match rx.recv_timeout(Duration::from_secs(8)) {
            Ok(()) => { let _ = h.join(); }
            Err(_) => { hangs += 1; eprintln!("HANG iteration {i}"); }
        }
        let _ = h2.join();
    }
    let p = panics.load(Ordering::SeqCst);
    eprintln!("RESULT iters={iters} panics={p} hangs={hangs}");
    assert_eq!((p, hangs), (0, 0));
}
