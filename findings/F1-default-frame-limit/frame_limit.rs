use anemo::{Network, Request, Response, Router};
use bytes::Bytes;
use std::convert::Infallible;

fn key(i: u8) -> [u8; 32] { [i; 32] }

#[tokio::test]
async fn default_config_has_an_8mib_limit() {
    let echo = tower::service_fn(|req: Request<Bytes>| async move { Ok::<_, Infallible>(Response::new(req.into_body())) });
    let a = Network::bind("localhost:0").server_name("t").private_key(key(1)).start(Router::new().route("/echo", echo)).unwrap();
    let b = Network::bind("localhost:0").server_name("t").private_key(key(2)).start(Router::new()).unwrap();
    let peer = b.connect(a.local_addr()).await.unwrap();
    for n in [8 * 1024 * 1024usize, 8 * 1024 * 1024 + 1] {
        let r = b.rpc(peer, Request::new(Bytes::from(vec![0u8; n])).with_route("/echo")).await;
        eprintln!("body {} bytes -> {}", n, match &r { Ok(x) => format!("ok, {} bytes back", x.body().len()), Err(e) => format!("ERR {e}") });
    }
}
