//! mirfacts — rustc_private fact extractor.
//!
//! Invoked as RUSTC_WORKSPACE_WRAPPER: argv = [mirfacts, <rustc path>, rustc args...].
//! Captures `mir_built` of every body of the crate being compiled (query
//! override), and after analysis writes ONE json file per rustc process into
//! $MIRFACTS_OUT containing: bodies (CFG, resolved callees, constants, locals),
//! ADT shapes, trait impls.  Contains no anemo-specific knowledge.
#![feature(rustc_private)]
#![allow(clippy::all)]

extern crate rustc_abi;
extern crate rustc_data_structures;
extern crate rustc_driver;
extern crate rustc_hir;
extern crate rustc_interface;
extern crate rustc_middle;
extern crate rustc_session;
extern crate rustc_span;

mod json;
use json::J;

use rustc_data_structures::steal::Steal;
use rustc_hir::def::DefKind;
use rustc_hir::def_id::{DefId, LocalDefId};
use rustc_middle::mir::{
    AggregateKind, BasicBlock, Body, Const, ConstOperand, Operand, Place, PlaceElem, Rvalue,
    StatementKind, TerminatorKind, UnwindAction,
};
use rustc_middle::ty::print::{with_crate_prefix, with_no_trimmed_paths, with_no_visible_paths};
use rustc_middle::ty::{self, GenericArgsRef, Instance, Ty, TyCtxt, TypingEnv};
use rustc_span::Span;
use std::sync::{Mutex, OnceLock};

type MirBuiltFn = for<'tcx> fn(TyCtxt<'tcx>, LocalDefId) -> &'tcx Steal<Body<'tcx>>;
static ORIG_MIR_BUILT: OnceLock<MirBuiltFn> = OnceLock::new();
static CAPTURED: Mutex<Vec<(LocalDefId, usize)>> = Mutex::new(Vec::new());

fn my_mir_built<'tcx>(tcx: TyCtxt<'tcx>, def: LocalDefId) -> &'tcx Steal<Body<'tcx>> {
    let orig = ORIG_MIR_BUILT.get().expect("orig provider");
    let r = orig(tcx, def);
    let body: Body<'tcx> = r.borrow().clone();
    let boxed: Box<Body<'tcx>> = Box::new(body);
    let ptr = Box::into_raw(boxed) as usize;
    CAPTURED.lock().unwrap().push((def, ptr));
    r
}

struct Cb;

impl rustc_driver::Callbacks for Cb {
    fn config(&mut self, config: &mut rustc_interface::interface::Config) {
        config.override_queries = Some(|_sess, providers| {
            let orig = providers.queries.mir_built;
            let _ = ORIG_MIR_BUILT.set(orig);
            providers.queries.mir_built = my_mir_built;
        });
    }

    fn after_analysis<'tcx>(
        &mut self,
        _compiler: &rustc_interface::interface::Compiler,
        tcx: TyCtxt<'tcx>,
    ) -> rustc_driver::Compilation {
        if let Ok(out) = std::env::var("MIRFACTS_OUT") {
            dump(tcx, &out);
        }
        rustc_driver::Compilation::Continue
    }
}

fn main() {
    let mut args: Vec<String> = std::env::args().collect();
    // wrapper mode: argv[1] is the path of the real rustc
    if args.len() > 1 && (args[1].ends_with("rustc") || args[1].contains("/rustc")) {
        args.remove(1);
    }
    let cb = &mut Cb;
    rustc_driver::catch_with_exit_code(|| rustc_driver::run_compiler(&args, cb));
}

// ---------------------------------------------------------------------------

struct Cx<'tcx> {
    tcx: TyCtxt<'tcx>,
    krate: String,
}

impl<'tcx> Cx<'tcx> {
    fn fix(&self, s: String) -> String {
        // with_crate_prefix prints `crate::` for local items; make it the crate name
        if s.contains("crate::") {
            s.replace("crate::", &format!("{}::", self.krate))
        } else {
            s
        }
    }
    fn path(&self, did: DefId) -> String {
        let s = with_crate_prefix!(with_no_visible_paths!(with_no_trimmed_paths!(self.tcx.def_path_str(did))));
        self.fix(s)
    }
    fn path_args(&self, did: DefId, args: GenericArgsRef<'tcx>) -> String {
        let s = with_crate_prefix!(with_no_visible_paths!(with_no_trimmed_paths!(self
            .tcx
            .def_path_str_with_args(did, args))));
        self.fix(s)
    }
    fn ty(&self, t: Ty<'tcx>) -> String {
        let s = with_crate_prefix!(with_no_visible_paths!(with_no_trimmed_paths!(format!("{}", t))));
        self.fix(s)
    }
    fn span_line(&self, sp: Span) -> (String, usize) {
        let sm = self.tcx.sess.source_map();
        let lo = sm.lookup_char_pos(sp.lo());
        (
            format!("{}", lo.file.name.prefer_local_unconditionally()),
            lo.line,
        )
    }
    /// line of the outermost call site (user code) + name of outermost macro if expanded
    fn span_info(&self, sp: Span) -> (usize, Option<String>) {
        if sp.from_expansion() {
            let mut outer: Option<String> = None;
            let mut cur = sp;
            let mut guard = 0;
            while cur.from_expansion() && guard < 64 {
                let data = cur.ctxt().outer_expn_data();
                outer = Some(format!("{}", data.kind.descr()));
                cur = data.call_site;
                guard += 1;
            }
            let (_, l) = self.span_line(cur);
            (l, outer)
        } else {
            let (_, l) = self.span_line(sp);
            (l, None)
        }
    }
}

fn dump<'tcx>(tcx: TyCtxt<'tcx>, out_dir: &str) {
    let krate = tcx.crate_name(rustc_hir::def_id::LOCAL_CRATE).to_string();
    let cx = Cx { tcx, krate: krate.clone() };
    let captured: Vec<(LocalDefId, usize)> = std::mem::take(&mut *CAPTURED.lock().unwrap());

    let mut bodies = Vec::new();
    let mut seen = std::collections::HashSet::new();
    for (def, ptr) in captured {
        if !seen.insert(def) {
            continue;
        }
        let body: Box<Body<'tcx>> = unsafe { Box::from_raw(ptr as *mut Body<'tcx>) };
        bodies.push(dump_body(&cx, def, &body));
    }

    // type shapes + impls
    let mut adts = Vec::new();
    let mut impls = Vec::new();
    let mut fns = Vec::new();
    for def in tcx.hir_crate_items(()).definitions() {
        let did = def.to_def_id();
        match tcx.def_kind(did) {
            DefKind::Struct | DefKind::Enum | DefKind::Union => adts.push(dump_adt(&cx, did)),
            DefKind::Impl { .. } => impls.push(dump_impl(&cx, did)),
            DefKind::Fn | DefKind::AssocFn => {
                let vis = format!("{:?}", tcx.visibility(did));
                fns.push(J::obj(vec![
                    ("path", J::s(cx.path(did))),
                    ("vis", J::s(cx.fix(vis))),
                ]));
            }
            _ => {}
        }
    }

    let crate_types: Vec<J> = tcx
        .crate_types()
        .iter()
        .map(|c| J::s(format!("{:?}", c)))
        .collect();
    let sid = tcx.stable_crate_id(rustc_hir::def_id::LOCAL_CRATE);
    let nb = bodies.len();
    let root = J::obj(vec![
        ("crate", J::s(krate.clone())),
        ("crate_types", J::Arr(crate_types)),
        ("rustc", J::s(rustc_version())),
        ("debug_assertions", J::Bool(tcx.sess.opts.debug_assertions)),
        ("n_bodies", J::Num(nb as i128)),
        ("bodies", J::Arr(bodies)),
        ("adts", J::Arr(adts)),
        ("impls", J::Arr(impls)),
        ("fns", J::Arr(fns)),
    ]);
    let fname = format!("{}/{}-{:016x}.json", out_dir, krate, sid.as_u64());
    let mut s = String::with_capacity(1 << 20);
    root.write(&mut s);
    std::fs::create_dir_all(out_dir).ok();
    let tmp = format!("{}.tmp{}", fname, std::process::id());
    std::fs::write(&tmp, s).expect("write facts");
    std::fs::rename(&tmp, &fname).expect("rename facts");
}

fn rustc_version() -> String {
    std::env::var("MIRFACTS_RUSTC_VERSION").unwrap_or_else(|_| "nightly".to_string())
}

fn dump_adt<'tcx>(cx: &Cx<'tcx>, did: DefId) -> J {
    let tcx = cx.tcx;
    let adt = tcx.adt_def(did);
    let mut variants = Vec::new();
    let discrs: Vec<(rustc_abi::VariantIdx, ty::util::Discr<'tcx>)> =
        if adt.is_enum() { adt.discriminants(tcx).collect() } else { vec![] };
    for (vi, v) in adt.variants().iter_enumerated() {
        let mut fields = Vec::new();
        for f in v.fields.iter() {
            let fty = tcx.type_of(f.did).instantiate_identity().skip_norm_wip();
            fields.push(J::obj(vec![
                ("name", J::s(f.name.to_string())),
                ("ty", J::s(cx.ty(fty))),
                ("vis", J::s(cx.fix(format!("{:?}", f.vis)))),
                ("attrs", attrs_of(cx, f.did)),
            ]));
        }
        let d = discrs.iter().find(|(i, _)| *i == vi).map(|(_, d)| d.val);
        variants.push(J::obj(vec![
            ("name", J::s(v.name.to_string())),
            ("discr", match d { Some(x) => J::Num(x as i128), None => J::Null }),
            ("fields", J::Arr(fields)),
        ]));
    }
    let (file, line) = cx.span_line(tcx.def_span(did));
    J::obj(vec![
        ("path", J::s(cx.path(did))),
        ("kind", J::s(format!("{:?}", tcx.def_kind(did)))),
        ("vis", J::s(cx.fix(format!("{:?}", tcx.visibility(did))))),
        ("file", J::s(file)),
        ("line", J::Num(line as i128)),
        ("attrs", attrs_of(cx, did)),
        ("variants", J::Arr(variants)),
    ])
}

fn attrs_of<'tcx>(cx: &Cx<'tcx>, did: DefId) -> J {
    // Only tool / helper attributes that survive as unparsed (e.g. #[serde(..)]) are of
    // interest; record them by debug string of their path.
    let mut v = Vec::new();
    if let Some(l) = did.as_local() {
        let hir_id = cx.tcx.local_def_id_to_hir_id(l);
        for a in cx.tcx.hir_attrs(hir_id) {
            if let rustc_hir::Attribute::Unparsed(item) = a {
                let p: Vec<String> = item.path.segments.iter().map(|s| s.to_string()).collect();
                v.push(J::s(p.join("::")));
            }
        }
    }
    J::Arr(v)
}

fn dump_impl<'tcx>(cx: &Cx<'tcx>, did: DefId) -> J {
    let tcx = cx.tcx;
    let self_ty = tcx.type_of(did).instantiate_identity().skip_norm_wip();
    let tr = tcx.impl_opt_trait_ref(did).map(|t| {
        let t = t.instantiate_identity().skip_norm_wip();
        (cx.path(t.def_id), cx.path_args(t.def_id, t.args))
    });
    let items: Vec<J> = tcx
        .associated_item_def_ids(did)
        .iter()
        .map(|d| J::s(cx.path(*d)))
        .collect();
    let (file, line) = cx.span_line(tcx.def_span(did));
    let derived = tcx.is_automatically_derived(did);
    J::obj(vec![
        ("self_ty", J::s(cx.ty(self_ty))),
        ("trait", match &tr { Some((p, _)) => J::s(p.clone()), None => J::Null }),
        ("trait_args", match &tr { Some((_, p)) => J::s(p.clone()), None => J::Null }),
        ("items", J::Arr(items)),
        ("derived", J::Bool(derived)),
        ("file", J::s(file)),
        ("line", J::Num(line as i128)),
    ])
}

fn dump_body<'tcx>(cx: &Cx<'tcx>, def: LocalDefId, body: &Body<'tcx>) -> J {
    let tcx = cx.tcx;
    let did = def.to_def_id();
    let kind = tcx.def_kind(did);
    let typing_env = TypingEnv::post_analysis(tcx, did);
    let (file, line) = cx.span_line(body.span);
    let parent = tcx.opt_parent(did).map(|p| cx.path(p));

    // locals
    let mut names: Vec<Option<String>> = vec![None; body.local_decls.len()];
    let mut upvar_names = Vec::new();
    for vdi in &body.var_debug_info {
        if let rustc_middle::mir::VarDebugInfoContents::Place(p) = &vdi.value {
            if p.projection.is_empty() {
                names[p.local.as_usize()] = Some(vdi.name.to_string());
            } else {
                upvar_names.push(J::obj(vec![
                    ("name", J::s(vdi.name.to_string())),
                    ("place", place_j(cx, body, p)),
                ]));
            }
        }
    }
    let locals: Vec<J> = body
        .local_decls
        .iter_enumerated()
        .map(|(l, d)| {
            let mut v = vec![("ty", J::s(cx.ty(d.ty)))];
            if let Some(n) = &names[l.as_usize()] {
                v.push(("name", J::s(n.clone())));
            }
            if d.mutability.is_mut() {
                v.push(("mut", J::Bool(true)));
            }
            J::obj(v)
        })
        .collect();

    let mut blocks = Vec::new();
    for (_bb, data) in body.basic_blocks.iter_enumerated() {
        let mut stmts = Vec::new();
        for st in &data.statements {
            match &st.kind {
                StatementKind::Assign(b) => {
                    let (pl, rv) = &**b;
                    let (l, _) = cx.span_info(st.source_info.span);
                    stmts.push(J::obj(vec![
                        ("k", J::s("assign")),
                        ("lhs", place_j(cx, body, pl)),
                        ("rv", rvalue_j(cx, body, typing_env, rv)),
                        ("line", J::Num(l as i128)),
                    ]));
                }
                StatementKind::SetDiscriminant { place, variant_index } => {
                    stmts.push(J::obj(vec![
                        ("k", J::s("setdiscr")),
                        ("lhs", place_j(cx, body, place)),
                        ("variant", J::Num(variant_index.as_usize() as i128)),
                    ]));
                }
                StatementKind::StorageDead(l) => {
                    stmts.push(J::obj(vec![
                        ("k", J::s("dead")),
                        ("l", J::Num(l.as_usize() as i128)),
                    ]));
                }
                _ => {}
            }
        }
        let term = data.terminator();
        let (tl, texp) = cx.span_info(term.source_info.span);
        let mut t = terminator_j(cx, body, typing_env, &term.kind);
        if let J::Obj(ref mut v) = t {
            v.push(("line", J::Num(tl as i128)));
            if let Some(e) = texp {
                v.push(("exp", J::s(e)));
            }
        }
        let mut bv = vec![("s", J::Arr(stmts)), ("t", t)];
        if data.is_cleanup {
            bv.push(("cleanup", J::Bool(true)));
        }
        blocks.push(J::obj(bv));
    }

    let is_coroutine = tcx.is_coroutine(did);
    J::obj(vec![
        ("path", J::s(cx.path(did))),
        ("kind", J::s(format!("{:?}", kind))),
        ("coroutine", J::Bool(is_coroutine)),
        ("parent", match parent { Some(p) => J::s(p), None => J::Null }),
        ("file", J::s(file)),
        ("line", J::Num(line as i128)),
        ("argc", J::Num(body.arg_count as i128)),
        ("locals", J::Arr(locals)),
        ("upvars", J::Arr(upvar_names)),
        ("blocks", J::Arr(blocks)),
    ])
}

fn bbn(b: BasicBlock) -> J {
    J::Num(b.as_usize() as i128)
}

fn unwind_j(u: &UnwindAction) -> J {
    match u {
        UnwindAction::Cleanup(b) => bbn(*b),
        _ => J::Null,
    }
}

fn place_j<'tcx>(cx: &Cx<'tcx>, body: &Body<'tcx>, p: &Place<'tcx>) -> J {
    let tcx = cx.tcx;
    let mut proj = Vec::new();
    let mut pty = rustc_middle::mir::PlaceTy::from_ty(body.local_decls[p.local].ty);
    for elem in p.projection.iter() {
        match elem {
            PlaceElem::Deref => proj.push(J::s("*")),
            PlaceElem::Field(f, _fty) => {
                let mut name: Option<String> = None;
                let mut adt_path: Option<String> = None;
                if let ty::Adt(adt, _) = pty.ty.kind() {
                    adt_path = Some(cx.path(adt.did()));
                    let vi = pty.variant_index.unwrap_or(rustc_abi::FIRST_VARIANT);
                    if adt.is_enum() || adt.is_struct() || adt.is_union() {
                        if vi.as_usize() < adt.variants().len() {
                            let v = adt.variant(vi);
                            if f.as_usize() < v.fields.len() {
                                name = Some(v.fields[f].name.to_string());
                            }
                        }
                    }
                }
                let mut o = vec![("f", J::Num(f.as_usize() as i128))];
                if let Some(n) = name {
                    o.push(("n", J::s(n)));
                }
                if let Some(a) = adt_path {
                    o.push(("a", J::s(a)));
                }
                proj.push(J::obj(o));
            }
            PlaceElem::Downcast(sym, vi) => {
                let name = match sym {
                    Some(s) => s.to_string(),
                    None => format!("{}", vi.as_usize()),
                };
                proj.push(J::obj(vec![
                    ("d", J::s(name)),
                    ("vi", J::Num(vi.as_usize() as i128)),
                ]));
            }
            PlaceElem::Index(l) => proj.push(J::obj(vec![("i", J::Num(l.as_usize() as i128))])),
            PlaceElem::ConstantIndex { offset, min_length, from_end } => {
                proj.push(J::obj(vec![
                    ("ci", J::Num(offset as i128)),
                    ("min", J::Num(min_length as i128)),
                    ("from_end", J::Bool(from_end)),
                ]));
            }
            other => proj.push(J::obj(vec![("other", J::s(format!("{:?}", other)))])),
        }
        pty = pty.projection_ty(tcx, elem);
    }
    if proj.is_empty() {
        J::Num(p.local.as_usize() as i128)
    } else {
        J::obj(vec![
            ("l", J::Num(p.local.as_usize() as i128)),
            ("p", J::Arr(proj)),
        ])
    }
}

fn fn_ref_j<'tcx>(
    cx: &Cx<'tcx>,
    typing_env: TypingEnv<'tcx>,
    did: DefId,
    args: GenericArgsRef<'tcx>,
    out: &mut Vec<(&'static str, J)>,
) {
    let tcx = cx.tcx;
    out.push(("fn", J::s(cx.path(did))));
    out.push(("inst", J::s(cx.path_args(did, args))));
    let ga: Vec<J> = args
        .iter()
        .filter_map(|a| a.as_type().map(|t| J::s(cx.ty(t))))
        .collect();
    out.push(("ga", J::Arr(ga)));
    if did.is_local() {
        out.push(("local", J::Bool(true)));
    }
    // trait method? try to resolve to the impl
    if let Some(tr) = tcx.trait_of_assoc(did) {
        out.push(("trait", J::s(cx.path(tr))));
        if args.len() > 0 {
            if let Some(t) = args[0].as_type() {
                out.push(("self_ty", J::s(cx.ty(t))));
            }
        }
        let norm = tcx.try_normalize_erasing_regions(typing_env, rustc_middle::ty::Unnormalized::new_wip(args));
        if let Ok(nargs) = norm {
            if let Ok(Some(inst)) = Instance::try_resolve(tcx, typing_env, did, nargs) {
                let rd = inst.def_id();
                if rd != did {
                    out.push(("res", J::s(cx.path(rd))));
                    if rd.is_local() {
                        out.push(("res_local", J::Bool(true)));
                    }
                }
            }
        }
    }
}

fn const_j<'tcx>(cx: &Cx<'tcx>, typing_env: TypingEnv<'tcx>, c: &ConstOperand<'tcx>) -> J {
    let tcx = cx.tcx;
    let ty = c.const_.ty();
    let mut o: Vec<(&'static str, J)> = vec![("k", J::s("const")), ("ty", J::s(cx.ty(ty)))];
    match ty.kind() {
        ty::FnDef(did, args) => {
            fn_ref_j(cx, typing_env, *did, args, &mut o);
        }
        _ => {
            let disp = with_crate_prefix!(with_no_visible_paths!(with_no_trimmed_paths!(format!("{}", c.const_))));
            o.push(("v", J::s(cx.fix(disp))));
            if let Some(sd) = c.check_static_ptr(tcx) {
                o.push(("static", J::s(cx.path(sd))));
            }
            match c.const_ {
                Const::Unevaluated(uv, _) => {
                    o.push(("uneval", J::s(cx.path(uv.def))));
                    if let Ok(val) = c.const_.eval(tcx, typing_env, c.span) {
                        let ev = Const::Val(val, ty);
                        let d = with_crate_prefix!(with_no_visible_paths!(with_no_trimmed_paths!(format!("{}", ev))));
                        o.push(("ev", J::s(cx.fix(d))));
                    }
                }
                _ => {}
            }
            if ty.is_integral() || ty.is_bool() || ty.is_char() {
                if let Some(si) = c.const_.try_eval_scalar_int(tcx, typing_env) {
                    let bits = si.to_bits_unchecked();
                    let sz = si.size();
                    let v: i128 = if ty.is_signed() {
                        sz.sign_extend(bits) as i128
                    } else {
                        bits as i128
                    };
                    o.push(("int", J::Num(v)));
                }
            }
        }
    }
    J::obj(o)
}

fn operand_j<'tcx>(
    cx: &Cx<'tcx>,
    body: &Body<'tcx>,
    typing_env: TypingEnv<'tcx>,
    op: &Operand<'tcx>,
) -> J {
    match op {
        Operand::Copy(p) => J::obj(vec![("k", J::s("copy")), ("pl", place_j(cx, body, p))]),
        Operand::Move(p) => J::obj(vec![("k", J::s("move")), ("pl", place_j(cx, body, p))]),
        Operand::Constant(c) => const_j(cx, typing_env, c),
        #[allow(unreachable_patterns)]
        other => J::obj(vec![("k", J::s("other")), ("dbg", J::s(format!("{:?}", other)))]),
    }
}

fn rvalue_j<'tcx>(
    cx: &Cx<'tcx>,
    body: &Body<'tcx>,
    typing_env: TypingEnv<'tcx>,
    rv: &Rvalue<'tcx>,
) -> J {
    let tcx = cx.tcx;
    match rv {
        Rvalue::Use(op, ..) => J::obj(vec![("k", J::s("use")), ("op", operand_j(cx, body, typing_env, op))]),
        Rvalue::Repeat(op, n) => J::obj(vec![
            ("k", J::s("repeat")),
            ("op", operand_j(cx, body, typing_env, op)),
            ("n", J::s(format!("{}", n))),
        ]),
        Rvalue::Ref(_, bk, p) => J::obj(vec![
            ("k", J::s("ref")),
            ("bk", J::s(format!("{:?}", bk))),
            ("pl", place_j(cx, body, p)),
        ]),
        Rvalue::RawPtr(k, p) => J::obj(vec![
            ("k", J::s("rawptr")),
            ("bk", J::s(format!("{:?}", k))),
            ("pl", place_j(cx, body, p)),
        ]),
        Rvalue::Cast(k, op, t) => J::obj(vec![
            ("k", J::s("cast")),
            ("ck", J::s(format!("{:?}", k))),
            ("op", operand_j(cx, body, typing_env, op)),
            ("from", J::s(cx.ty(op.ty(&body.local_decls, tcx)))),
            ("to", J::s(cx.ty(*t))),
        ]),
        Rvalue::BinaryOp(op, ab) => {
            let (a, b) = &**ab;
            J::obj(vec![
                ("k", J::s("binop")),
                ("op", J::s(format!("{:?}", op))),
                ("a", operand_j(cx, body, typing_env, a)),
                ("b", operand_j(cx, body, typing_env, b)),
            ])
        }
        Rvalue::UnaryOp(op, a) => J::obj(vec![
            ("k", J::s("unop")),
            ("op", J::s(format!("{:?}", op))),
            ("a", operand_j(cx, body, typing_env, a)),
        ]),
        Rvalue::Discriminant(p) => {
            let pty = p.ty(&body.local_decls, tcx).ty;
            let mut o = vec![("k", J::s("discr")), ("pl", place_j(cx, body, p)), ("ety", J::s(cx.ty(pty)))];
            if let ty::Adt(adt, _) = pty.kind() {
                if adt.is_enum() {
                    let vs: Vec<J> = adt
                        .discriminants(tcx)
                        .map(|(vi, d)| {
                            J::Arr(vec![J::s(adt.variant(vi).name.to_string()), J::Num(d.val as i128)])
                        })
                        .collect();
                    o.push(("variants", J::Arr(vs)));
                    o.push(("enum", J::s(cx.path(adt.did()))));
                }
            }
            J::obj(o)
        }
        Rvalue::CopyForDeref(p) => J::obj(vec![
            ("k", J::s("use")),
            ("op", J::obj(vec![("k", J::s("copy")), ("pl", place_j(cx, body, p))])),
        ]),
        Rvalue::Aggregate(ak, ops) => {
            let mut o: Vec<(&'static str, J)> = vec![("k", J::s("agg"))];
            match &**ak {
                AggregateKind::Array(t) => {
                    o.push(("ak", J::s("array")));
                    o.push(("ety", J::s(cx.ty(*t))));
                }
                AggregateKind::Tuple => o.push(("ak", J::s("tuple"))),
                AggregateKind::Adt(did, vi, args, _, active) => {
                    o.push(("ak", J::s("adt")));
                    o.push(("adt", J::s(cx.path(*did))));
                    o.push(("adt_inst", J::s(cx.path_args(*did, args))));
                    let adt = tcx.adt_def(*did);
                    let v = adt.variant(*vi);
                    o.push(("variant", J::s(v.name.to_string())));
                    let fnames: Vec<J> = match active {
                        Some(f) => vec![J::s(v.fields[*f].name.to_string())],
                        None => v.fields.iter().map(|f| J::s(f.name.to_string())).collect(),
                    };
                    o.push(("fields", J::Arr(fnames)));
                }
                AggregateKind::Closure(did, _) => {
                    o.push(("ak", J::s("closure")));
                    o.push(("body", J::s(cx.path(*did))));
                }
                AggregateKind::Coroutine(did, _) => {
                    o.push(("ak", J::s("coroutine")));
                    o.push(("body", J::s(cx.path(*did))));
                }
                AggregateKind::CoroutineClosure(did, _) => {
                    o.push(("ak", J::s("coroutine_closure")));
                    o.push(("body", J::s(cx.path(*did))));
                }
                other => {
                    o.push(("ak", J::s("other")));
                    o.push(("dbg", J::s(format!("{:?}", other))));
                }
            }
            let opsj: Vec<J> = ops.iter().map(|x| operand_j(cx, body, typing_env, x)).collect();
            o.push(("ops", J::Arr(opsj)));
            J::obj(o)
        }
        other => J::obj(vec![("k", J::s("other")), ("dbg", J::s(format!("{:?}", other)))]),
    }
}

fn terminator_j<'tcx>(
    cx: &Cx<'tcx>,
    body: &Body<'tcx>,
    typing_env: TypingEnv<'tcx>,
    t: &TerminatorKind<'tcx>,
) -> J {
    let tcx = cx.tcx;
    match t {
        TerminatorKind::Goto { target } => J::obj(vec![("k", J::s("goto")), ("target", bbn(*target))]),
        TerminatorKind::SwitchInt { discr, targets } => {
            let arms: Vec<J> = targets
                .iter()
                .map(|(v, b)| J::Arr(vec![J::Num(v as i128), bbn(b)]))
                .collect();
            J::obj(vec![
                ("k", J::s("switch")),
                ("discr", operand_j(cx, body, typing_env, discr)),
                ("dty", J::s(cx.ty(discr.ty(&body.local_decls, tcx)))),
                ("arms", J::Arr(arms)),
                ("otherwise", bbn(targets.otherwise())),
            ])
        }
        TerminatorKind::Call { func, args, destination, target, unwind, .. } => {
            let argsj: Vec<J> = args.iter().map(|a| operand_j(cx, body, typing_env, &a.node)).collect();
            let fty = func.ty(&body.local_decls, tcx);
            let mut o = vec![
                ("k", J::s("call")),
                ("func", operand_j(cx, body, typing_env, func)),
                ("args", J::Arr(argsj)),
                ("dest", place_j(cx, body, destination)),
                ("target", match target { Some(b) => bbn(*b), None => J::Null }),
                ("unwind", unwind_j(unwind)),
            ];
            if !matches!(func, Operand::Constant(_)) {
                o.push(("fty", J::s(cx.ty(fty))));
            }
            // calling a closure / coroutine-closure value through Fn* traits: record body
            match fty.kind() {
                ty::Closure(did, _) | ty::Coroutine(did, _) => {
                    o.push(("closure_body", J::s(cx.path(*did))));
                }
                _ => {}
            }
            J::obj(o)
        }
        TerminatorKind::TailCall { func, args, .. } => {
            let argsj: Vec<J> = args.iter().map(|a| operand_j(cx, body, typing_env, &a.node)).collect();
            J::obj(vec![
                ("k", J::s("tailcall")),
                ("func", operand_j(cx, body, typing_env, func)),
                ("args", J::Arr(argsj)),
            ])
        }
        TerminatorKind::Drop { place, target, unwind, .. } => J::obj(vec![
            ("k", J::s("drop")),
            ("pl", place_j(cx, body, place)),
            ("target", bbn(*target)),
            ("unwind", unwind_j(unwind)),
        ]),
        TerminatorKind::Yield { value, resume, resume_arg, drop } => J::obj(vec![
            ("k", J::s("yield")),
            ("value", operand_j(cx, body, typing_env, value)),
            ("target", bbn(*resume)),
            ("resume_arg", place_j(cx, body, resume_arg)),
            ("drop", match drop { Some(b) => bbn(*b), None => J::Null }),
        ]),
        TerminatorKind::Return => J::obj(vec![("k", J::s("return"))]),
        TerminatorKind::Unreachable => J::obj(vec![("k", J::s("unreachable"))]),
        TerminatorKind::UnwindResume => J::obj(vec![("k", J::s("resume"))]),
        TerminatorKind::UnwindTerminate(_) => J::obj(vec![("k", J::s("terminate"))]),
        TerminatorKind::CoroutineDrop => J::obj(vec![("k", J::s("coroutine_drop"))]),
        TerminatorKind::Assert { cond, expected, msg, target, unwind } => J::obj(vec![
            ("k", J::s("assert")),
            ("cond", operand_j(cx, body, typing_env, cond)),
            ("expected", J::Bool(*expected)),
            ("msg", J::s(format!("{:?}", msg))),
            ("target", bbn(*target)),
            ("unwind", unwind_j(unwind)),
        ]),
        TerminatorKind::FalseEdge { real_target, imaginary_target } => J::obj(vec![
            ("k", J::s("falseedge")),
            ("target", bbn(*real_target)),
            ("imaginary", bbn(*imaginary_target)),
        ]),
        TerminatorKind::FalseUnwind { real_target, unwind } => J::obj(vec![
            ("k", J::s("falseunwind")),
            ("target", bbn(*real_target)),
            ("unwind", unwind_j(unwind)),
        ]),
        TerminatorKind::InlineAsm { .. } => J::obj(vec![("k", J::s("asm"))]),
    }
}
