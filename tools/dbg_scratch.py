#!/usr/bin/env python3
"""tools/dbg_scratch.py <patch> <script.py>: apply a patch to a scratch copy of /repo, extract + normalise facts, then exec the script with `prog` (Program), `scratch` (path) and the rule helpers in scope. For debugging rules against a changed tree."""
import os, shutil, subprocess, sys
sys.path.insert(0, "/verif")
from rules import facts, selftest
from rules.mir import *
from rules.lib import *
from rules.normalize import normalize
patch=os.path.abspath(sys.argv[1])
scratch = selftest.make_scratch(facts.REPO)
try:
    subprocess.run(["git", "apply", "--whitespace=nowarn", patch], cwd=scratch, check=True)
    d,h,w=facts.facts_dir('dev', repo=scratch, target="target-stw1")
    prog=Program(facts.load_dir(d)); print(normalize(prog))
    set_program(prog)
    exec(open(sys.argv[2]).read())
finally:
    shutil.rmtree(scratch, ignore_errors=True)
