#!/usr/bin/env python3
"""List calls with origin terms of bodies matching substrings: tools/calls.py <substr>..."""
import sys, os
sys.path.insert(0, os.path.dirname(os.path.dirname(os.path.abspath(__file__))))
from rules import facts
from rules.mir import *
d,h,w=facts.facts_dir('dev')
prog=Program(facts.load_dir(d))
from rules.normalize import normalize
print("normalize:", normalize(prog))
for sub in sys.argv[1:]:
    for p,b in prog.bodies.items():
        if sub in p and '__CALLSITE' not in p:
            print('==',b.path, b.kind, 'coroutine' if b.coroutine else '')
            o=Origins(b)
            for c in b.calls():
                if b.is_cleanup(c.bb): continue
                e=c.exp or ''
                if any(k in e for k in ('await','debug!','trace!','info!','warn!','`?`')) and not name_matches(c.fn,'Future::poll'): continue
                if name_matches(c.fn,'Future::poll') and 'await' in e:
                    print('  bb%d AWAIT %s'%(c.bb, c.res or c.self_ty)); continue
                print('  bb%d'%c.bb, c.callee, [show(o.of_operand(a))[:110] for a in c.args], '->', c.dest, e, c.ga[:3] if len(str(c.ga))<200 else '')
            r=[s for bl in b.blocks if not bl.get('cleanup') for s in bl['s'] if s['k']=='assign' and s['lhs']==0]
            for s in r: print('  RET', show(o.of_rvalue(s['rv']))[:200])
