#!/usr/bin/env python3
"""Pretty-print extracted MIR of bodies matching a substring:  tools/show.py <substr> [config]"""
import sys, os, json
sys.path.insert(0, os.path.dirname(os.path.dirname(os.path.abspath(__file__))))
from rules import facts
from rules.mir import Program, proj_str, strip_generics

def pl(p):
    if isinstance(p, int): return f"_{p}"
    return f"_{p['l']}{proj_str(p['p'])}"
def op(o):
    k=o.get('k')
    if k in('copy','move'): return ('move ' if k=='move' else '')+pl(o['pl'])
    if k=='const':
        if 'fn' in o: return 'fn:'+strip_generics(o['fn'])+(('=>'+strip_generics(o['res'])) if o.get('res') else '')
        return 'const '+(('static '+o['static']) if o.get('static') else str(o.get('v')))+((' [='+o['ev']+']') if o.get('ev') else '')
    return str(o)
def rv(r):
    k=r['k']
    if k=='use': return op(r['op'])
    if k in('ref','rawptr'): return f"&{r['bk']} {pl(r['pl'])}"
    if k=='cast': return f"{op(r['op'])} as {r['to']} ({r['ck']})"
    if k=='binop': return f"{r['op']}({op(r['a'])}, {op(r['b'])})"
    if k=='unop': return f"{r['op']}({op(r['a'])})"
    if k=='discr': return f"discriminant({pl(r['pl'])})"
    if k=='agg':
        nm = r.get('adt','')+('::'+r['variant'] if 'variant' in r else '') if r['ak']=='adt' else r['ak']+(':'+r['body'] if 'body' in r else '')
        return f"{nm}{{{', '.join(op(x) for x in r['ops'])}}}"
    if k=='repeat': return f"[{op(r['op'])}; {r['n']}]"
    return str(r)
def show(b, cleanup=False):
    print(f"=== {b.path}  [{b.kind}{' coroutine' if b.coroutine else ''}] {b.file}:{b.line} argc={b.argc} crate={b.crate}")
    for i,l in enumerate(b.locals):
        if l.get('name') or i<=b.argc: print(f"   _{i}: {l['ty']}  {l.get('name','')}")
    for u in b.upvars: print("   upvar", u['name'], pl(u['place']))
    for i,bl in enumerate(b.blocks):
        if bl.get('cleanup') and not cleanup: continue
        print(f" bb{i}{' (cleanup)' if bl.get('cleanup') else ''}:")
        for s in bl['s']:
            if s['k']=='assign': print(f"     {pl(s['lhs'])} = {rv(s['rv'])}")
            elif s['k']=='setdiscr': print(f"     setdiscr {pl(s['lhs'])} = {s['variant']}")
        t=bl['t']; k=t['k']
        e = f"  [{t['exp']}]" if t.get('exp') else ''
        if k=='call':
            f=t['func']; nm = op(f)
            if t.get('closure_body'): nm += ' {'+t['closure_body']+'}'
            print(f"     {pl(t['dest'])} = CALL {nm}({', '.join(op(a) for a in t['args'])}) -> bb{t['target']}  L{t['line']}{e}")
            if f.get('ga'): print(f"          ga={f['ga']}")
        elif k=='switch':
            print(f"     SWITCH {op(t['discr'])}: {t['arms']} else bb{t['otherwise']}  L{t['line']}{e}")
        elif k=='drop': print(f"     DROP {pl(t['pl'])} -> bb{t['target']}")
        elif k=='yield': print(f"     YIELD -> bb{t['target']} resume_arg={pl(t['resume_arg'])}")
        elif k=='assert': print(f"     ASSERT {op(t['cond'])}=={t['expected']} {t['msg'][:60]} -> bb{t['target']}")
        elif k in('goto','falseedge','falseunwind'): print(f"     {k.upper()} -> bb{t['target']}")
        else: print(f"     {k.upper()}")
if __name__=='__main__':
    cfg = sys.argv[2] if len(sys.argv)>2 else 'dev'
    d,h,w = facts.facts_dir(cfg)
    prog = Program(facts.load_dir(d))
    from rules.normalize import normalize
    print("normalize:", normalize(prog))
    for p,b in prog.bodies.items():
        if sys.argv[1] in p and '__CALLSITE' not in p:
            show(b, cleanup='--cleanup' in sys.argv)
