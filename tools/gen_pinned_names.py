#!/usr/bin/env python3
"""tools/gen_pinned_names.py -- freeze the parameter / captured-variable names of every body of the pinned tree.

The rules select values by the *names* the pinned source gives to parameters and captured variables
(`is_param(t, "peer_id")`, `mentions_upvar(t, "now")`).  Names carry no semantics - position does - so the
loader (rules/mir.py) presents every parameter / capture under the name it had on the pinned tree whenever the
body still has the same number (and, for parameters, the same types) of them.  Renaming a parameter or a captured
local therefore changes nothing for the rules; changing a signature falls back to the actual names (and the
affected rules fail closed).  Run on the unmodified pinned tree only."""
import json, os, sys
sys.path.insert(0, os.path.dirname(os.path.dirname(os.path.abspath(__file__))))
from rules import facts
from rules.mir import strip_generics

d, h, w = facts.facts_dir("dev")
crates = facts.load_dir(d)
out = {"params": {}, "upvars": {}, "bodies": [], "sigs": {}}
for name, data in crates.items():
    for b in data["bodies"]:
        p = b["path"]
        out["bodies"].append(strip_generics(p))
        argc = b.get("argc", 0)
        loc = b["locals"]
        if b.get("kind") in ("Fn", "AssocFn") and name in ("anemo", "anemo_tower", "anemo_build"):
            out["sigs"].setdefault(strip_generics(p), {"tys": [loc[i]["ty"] for i in range(0, argc + 1)]})
        if argc:
            out["params"][p] = {"tys": [loc[i]["ty"] for i in range(1, argc + 1)], "names": [loc[i].get("name") for i in range(1, argc + 1)]}
        uv = b.get("upvars") or []
        if uv:
            out["upvars"][p] = [u["name"] for u in uv]
out["bodies"] = sorted(set(out["bodies"]))
json.dump(out, open(os.path.join(os.path.dirname(os.path.dirname(os.path.abspath(__file__))), "rules", "pinned_names.json"), "w"), indent=0, sort_keys=True)
print("bodies:", len(out["bodies"]), "with params:", len(out["params"]), "with captures:", len(out["upvars"]))
