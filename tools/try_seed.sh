#!/bin/sh
# tools/try_seed.sh <patch> : apply to /repo, run all 20 quick checks, print which fire, revert
p=$1
git -C /repo apply "$p" || { echo "patch does not apply"; exit 1; }
fired=""
for i in $(seq -f "C%02g" 1 20); do
  /verif/check $i > /tmp/w/try-$i.txt 2>&1; rc=$?
  if [ $rc -ne 0 ]; then fired="$fired $i"; fi
done
git -C /repo checkout -- .
echo "FIRED:$fired"
for i in $fired; do grep -E "refuted|anchor-lost|undecidable" /tmp/w/try-$i.txt | head -2 | cut -c1-260 | sed "s/^/  $i /"; done
