#!/usr/bin/env python3
"""tools/keep_seed.py <outdir> <seed-id> <caught_by csv> [note]  -- store a confirmed seeded change under /verif/seeded/<seed-id>/"""
import json, os, shutil, sys
out, sid, caught = sys.argv[1], sys.argv[2], [c for c in sys.argv[3].split(",") if c]
note = sys.argv[4] if len(sys.argv) > 4 else ""
dst = f"/verif/seeded/{sid}"
os.makedirs(dst + "/demo", exist_ok=True)
shutil.copy(out + "/patch.diff", dst + "/patch.diff")
for f in os.listdir(out + "/demo"):
    p = os.path.join(out, "demo", f)
    if os.path.isdir(p):
        shutil.copytree(p, dst + "/demo/" + f, dirs_exist_ok=True, ignore=shutil.ignore_patterns("target", "Cargo.lock"))
    elif f.endswith((".rs", ".md", ".txt", ".log")):
        shutil.copy(p, dst + "/demo/" + f)
m = json.load(open(out + "/meta.json"))
conf = open(out + "/confirm.txt").read() if os.path.exists(out + "/confirm.txt") else ""
meta = {
    "property": m["property"], "summary": m.get("summary"), "needs_to_manifest": m.get("needs_to_manifest"), "files_changed": m.get("files_changed"),
    "origin": "independent sub-agent given only the property text and a scratch worktree",
    "confirmed_by_me": {"how": "tools/confirm_seed2.sh in a scratch worktree of /repo HEAD: demo on HEAD, demo with patch, existing suite (nextest, 79 tests) with patch",
                        "result": conf.strip().split("\n")[:3]},
    "expect": "fire", "caught_by": caught, "note": note,
}
json.dump(meta, open(dst + "/meta.json", "w"), indent=1)
print("kept", dst)
