#!/bin/bash
# scratch_check.sh <patch> <prop> [worker] : full report of one property on a scratch copy with the patch
cd /verif; python3 - "$@" <<'PY'
import os, shutil, subprocess, sys
sys.path.insert(0, "/verif")
from rules import facts, selftest
from rules.engine import run_property
patch, prop = os.path.abspath(sys.argv[1]), sys.argv[2]; worker = sys.argv[3] if len(sys.argv) > 3 else "x"
scratch = selftest.make_scratch(facts.REPO)
try:
    subprocess.run(["git", "apply", "--whitespace=nowarn", patch], cwd=scratch, check=True)
    vs, known, ev, obs = run_property(prop, "quick", configs=["dev"], repo=scratch, target=f"target-st{worker}")
    for v in vs:
        print(v.key); print("    ", str(v.msg)[:1500])
finally:
    shutil.rmtree(scratch, ignore_errors=True)
PY
