#!/bin/bash
# tools/confirm_seed.sh <outdir> <id> : confirm a seeded change in a scratch worktree:
#  (1) demo passes on HEAD, (2) existing suite passes with the patch, (3) demo fails with the patch.
out=$1; id=$2
wt=/tmp/confirm/$id
export CARGO_TARGET_DIR=/tmp/confirm/target CARGO_NET_OFFLINE=true
mkdir -p /tmp/confirm
[ -d $CARGO_TARGET_DIR ] || cp -a /repo/target $CARGO_TARGET_DIR
git -C /repo worktree add -q --detach $wt HEAD || exit 2
cp /repo/Cargo.lock $wt/
res=$out/confirm.txt; : > $res
demos=$(ls $out/demo/*.rs)
mkdir -p $wt/crates/anemo/tests; for d in $demos; do cp $d $wt/crates/anemo/tests/; done
names=$(for d in $demos; do basename $d .rs; done)
run_demo() { rc=0; for n in $names; do (cd $wt && timeout 900 cargo test --offline -p anemo --test $n > /tmp/confirm/$id-demo-$1-$n.log 2>&1) || rc=1; done; return $rc; }
run_demo without; a=$?
echo "demo_without_patch_rc=$a" >> $res
(cd $wt && git apply $out/patch.diff) || { echo "patch_applies=false" >> $res; }
run_demo with; b=$?
echo "demo_with_patch_rc=$b" >> $res
for n in $names; do rm -f $wt/crates/anemo/tests/$n.rs; done
(cd $wt && timeout 1800 cargo nextest run --workspace --no-fail-fast --test-threads 8 --offline > /tmp/confirm/$id-suite.log 2>&1); c=$?
echo "suite_with_patch_rc=$c $(grep -E 'tests run:' /tmp/confirm/$id-suite.log | tail -1)" >> $res
for n in $names; do tail -15 /tmp/confirm/$id-demo-with-$n.log | grep -E "panicked|test result|FAILED|failed" | head -5 >> $res; done
git -C /repo worktree remove --force $wt
cat $res
