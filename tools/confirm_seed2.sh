#!/bin/bash
# tools/confirm_seed2.sh <outdir> <id> '<setup cmd run in worktree (places the demo)>' '<demo test cmd>' '<undo demo cmd>'
out=$1; id=$2; setup=$3; testcmd=$4; undo=$5
wt=/tmp/confirm/$id
export CARGO_TARGET_DIR=/tmp/confirm/target CARGO_NET_OFFLINE=true
mkdir -p /tmp/confirm
[ -d $CARGO_TARGET_DIR ] || cp -a /repo/target $CARGO_TARGET_DIR
git -C /repo worktree add -q --detach $wt HEAD || exit 2
cp /repo/Cargo.lock $wt/
res=$out/confirm.txt; : > $res
(cd $wt && OUT=$out bash -c "$setup") || { echo "setup failed" >> $res; }
(cd $wt && timeout 1200 bash -c "$testcmd" > /tmp/confirm/$id-demo-without.log 2>&1); echo "demo_without_patch_rc=$?" >> $res
(cd $wt && git apply $out/patch.diff) || echo "patch_applies=false" >> $res
(cd $wt && timeout 1200 bash -c "$testcmd" > /tmp/confirm/$id-demo-with.log 2>&1); echo "demo_with_patch_rc=$?" >> $res
(cd $wt && OUT=$out bash -c "$undo")
(cd $wt && git status --short | head -5 >> /tmp/confirm/$id-status.txt)
(cd $wt && timeout 1800 cargo nextest run --workspace --no-fail-fast --test-threads 8 --offline > /tmp/confirm/$id-suite.log 2>&1); c=$?
echo "suite_with_patch_rc=$c $(grep -E 'tests run:' /tmp/confirm/$id-suite.log | tail -1)" >> $res
grep -E "test result|panicked at" /tmp/confirm/$id-demo-with.log | head -4 >> $res
git -C /repo worktree remove --force $wt
cat $res
