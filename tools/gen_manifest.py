#!/usr/bin/env python3
"""Generate MANIFEST.json from the rule modules present in rules/ (one check per implemented property)."""
import importlib, json, os, sys
ROOT = os.path.dirname(os.path.dirname(os.path.abspath(__file__)))
sys.path.insert(0, ROOT)
BASE = json.load(open("/root/.vp/BASELINE.json")) if os.path.exists("/root/.vp/BASELINE.json") else {}
props = [json.loads(l) for l in open(os.path.join(ROOT, "properties.jsonl"))]
checks, na = [], []
NA_REASONS = {}
try:
    NA_REASONS = json.load(open(os.path.join(ROOT, "rules", "not_applicable.json")))
except Exception:
    pass
for p in props:
    pid = p["id"]
    path = os.path.join(ROOT, "rules", pid.lower() + ".py")
    if pid in NA_REASONS or not os.path.exists(path):
        na.append({"property_id": pid, "reason": NA_REASONS.get(pid, "static rules for this property are not implemented yet (work in progress); no claim is made")})
        continue
    m = importlib.import_module("rules." + pid.lower())
    expl = " ".join(m.EXPLANATION.split())
    checks.append({
        "property_id": pid,
        "quick_cmd": f"./check {pid} --tier quick",
        "thorough_cmd": f"./check {pid} --tier thorough",
        "evidence_file": f"evidence/{pid}.json",
        "replay_cmd_template": f"./check {pid} --replay {{path}}",
        "engine": "mirfacts+rules",
        "level_claimed": {
            "category": "other",
            "text": "Static analysis of the type-checked program (rustc MIR of all workspace crates, re-extracted from /repo's working tree on every run). "
                    "Decides, for all paths, named structural necessary conditions of the property — not the run-time behaviour itself. " + expl,
            "design_ref": f"DESIGN.md §4 {pid}",
        },
        "level_note": "Trusted: rustc type checker + MIR construction, the extractor, the rule engine, and the semantics of third-party functions named in rule slots ("
                      + "; ".join(getattr(m, "TRUSTED", [])) + "). Not decided (never replaced by a run-time test): " + "; ".join(getattr(m, "NOT_DECIDED", [])) + ".",
        "technique": getattr(m, "TECHNIQUE", "static analysis: custom MIR rules (who-may-call/write, must-pass-through, path-event language, decision-table extraction, value-origin dataflow) over a rustc_private fact extractor"),
    })
man = {
    "version": 1,
    "setup_cmd": "./setup.sh",
    "hooks": {
        "guard": "bmwill_anemo_verif",
        "enable": "none needed: static analysis reads the unmodified sources; no hook is compiled in (guard name reserved only)",
        "baseline_off_cmd": "cd /repo && cargo nextest run --workspace --no-fail-fast --test-threads 8 --offline || (cd /repo && cargo test --workspace --no-fail-fast --offline)",
        "source_commits": [],
        "add_only": True,
    },
    "engines": [
        {"name": "mirfacts", "path": "driver/", "serves_properties": [c["property_id"] for c in checks],
         "kind_free_text": "rustc_private driver (RUSTC_WORKSPACE_WRAPPER under cargo +nightly check): captures mir_built of every body of the five workspace crates, resolved callees, constants, ADT shapes, impls -> JSON facts"},
        {"name": "rules", "path": "rules/", "serves_properties": [c["property_id"] for c in checks],
         "kind_free_text": "python3 rule engine over the facts: CFG/dominators, origin terms (backward def-use), projected path words, decision tables, who-may-call/write; one module per property; fail-closed anchors with counted floors"},
    ],
    "checks": checks,
    "not_applicable": na,
    "notes": "All checks are static (level 'other'): they decide shape facts of the code for all paths and report a named construct on violation. known_findings.json lists triaged genuine defects (see DESIGN.md §5).",
}
json.dump(man, open(os.path.join(ROOT, "MANIFEST.json"), "w"), indent=1)
print("checks:", [c["property_id"] for c in checks], "na:", [n["property_id"] for n in na])
