#!/usr/bin/env python3
"""Generate MANIFEST.json from the rule modules present in rules/ (one check per implemented property)."""
import importlib, json, os, sys
ROOT = os.path.dirname(os.path.dirname(os.path.abspath(__file__)))
sys.path.insert(0, ROOT)
BASE = json.load(open("/root/.vp/BASELINE.json")) if os.path.exists("/root/.vp/BASELINE.json") else {}
props = [json.loads(l) for l in open(os.path.join(ROOT, "properties.jsonl"))]
checks, na = [], []
TECH = {
 "C01": "static analysis (custom MIR rules): impl enumeration, who-may-call on rustls assertion()/verifier builders, must-pass-through + value-origin dataflow on verifier bodies, constant evaluation of algorithm tables, who-may-construct PeerId/Connection, closed-world who-may-write on request/response extensions, purity of the certificate-to-PeerId extraction (only answer, no shared state), pin dataflow of every dial site",
 "C02": "static analysis (custom MIR rules): who-may-call on quinn stream opens, value-origin dataflow (same stream halves), dominance/cycle checks (single dispatch, no retry loop), type-shape ownership, sibling path-event words of the four codecs, who-may-mutate message content on the transport path (mutators classified from method signatures), pure-delegation shape of the SendStream AsyncWrite impl, return-value shape of every Layer::layer of the crate (wraps the inner it is given)",
 "C03": "static analysis (custom MIR rules): decision words of the dial task, value-origin dataflow of the expected id into the rustls verifier, path-event language of verify_server_cert and wire::handshake, who-may-call registration, dominance (register before reply), must-pass-through registration in add_peer, certificate-to-PeerId origin (leaf certificate), path-event words of add() (an Ok reply implies an entry), must-pass-through of the ConnectRequest in the connect API, proof-of-possession rules of the pinned verifier",
 "C04": "static analysis (custom MIR rules): who-may-write the peer map / who-may-call event emission, the write lock and Connection::close, path-event language of the three mutators (exact word sets), value-origin dataflow of keys and event payloads, lock-acquisition multiplicity on the inlined view of subscribe(), must-pass-through of the handler-exit removal with no suspension point between loop exit and removal",
 "C05": "static analysis (custom MIR rules): decision-table extraction from the tie-break CFG + exhaustive enumeration of the 8 abstract order cases, value-origin dataflow of call arguments and origin tags, must-pass-through registration (no shortcut around the tie-break), stable-id guard words of the loser's clean-up, who-may-call on dial_peer (closed set of dial sources), panic inventory of the handler's exit region, panic inventory of the peer-map code run at handler exit (re-evaluated), cancel-safety of the manager's join arms (re-evaluated)",
 "C06": "static analysis (custom MIR rules): call-graph panic-site inventory from remote-driven entry points with re-checked justifications, tokio::select! arm words (sticky error values leave the loop), who-may-call close(), panic inventory of the typed-RPC layer and of the connection manager (justifications re-checked), no suspension point in a select! arm body that continues the handler loop, select! arm preconditions",
 "C07": "static analysis (custom MIR rules): byte-map reconstruction of the preamble writer, edge-guarded reader words, constant/callee checks on the frame codec, sibling path-event words of encoder/decoder, closed decision tables for Version/StatusCode, type shape of raw headers, serde helper attributes read from the definitions' source lines + hook-wrapper types of the derived impls, panic inventory of the decoders (constant-index justifications re-checked)",
 "C08": "static analysis (custom MIR rules): dominance order of teardown steps, tokio::select! arm words (sticky terminal values), API error-propagation dataflow, type-shape ownership, call-graph panic-site inventory, ms-unit discipline of Config accessors, ownership liveness across suspension points (strong peer map / service clones held at a yield), closed-world who-may-call on task spawning, must-pass-through of the request-task shutdown at handler exit, type-shape rule on socket handles, select! arm preconditions (none on the manager loop)",
 "C09": "static analysis (custom MIR rules): value-origin dataflow (disconnect reason, transport config on every ClientConfig site), RAII liveness of a rejected connection, must-pass-through at handler exit, decision table of from_quinn_error, path-event words of the tie-break (loser closed explicitly), join-arm words of the manager loop (handler failure propagates), value identity of the config the transport setter ran on (it is what is returned)",
 "C10": "static analysis (custom MIR rules): decision-table extraction of inbound admission (affinity x limit x len>=limit normalised over operator forms), value-origin dataflow of key/len/limit, who-may-call the limit accessor (predicate helpers inlined into the path words), must-pass-through order at handler exit, who-may-write the known-peers map + exact replace/delete shape of its insert/remove, dataflow of the background-dial budget, select! arm preconditions (the accept arm is unconditional)",
 "C11": "static analysis (custom MIR rules): decision-table extraction of min(header, default) in both directions (call- and comparison-form, 3-case evaluation), sibling agreement, poll path words, layer wiring by value-origin + resolved generic arguments, who-may-call on the outbound stream open (only under the layer stack), ms-unit discipline and purity of Config accessors, who-may-use the parse result (error absorbed), liveness of synchronous lock guards across suspension points",
 "C12": "static analysis (custom MIR rules): must-pass-through in Drop, who-may-construct the stream wrapper, call-graph reachability (no spawn on the caller path), tokio::select! race arm words, JoinSet shutdown on all exits, watched-suspension-point rule over the request task's yields, closed-world who-may-call on task spawning, panic inventory of the request path, expected-zero who-may-call on APIs that take a resource out of RAII (forget / add_permits) in the tower layers",
 "C13": "static analysis (custom MIR rules): order-insensitive decision table of the eligibility predicate, value-origin dataflow of the backoff formula / rotation index / channel pairing / in-flight cap, drain-closure words, timer ownership (one interval created outside the loop), ms-unit discipline and purity of Config accessors, must-pass-through of the prompt removal at handler exit (re-evaluated)",
 "C14": "static analysis (custom MIR rules): path-event language of both certificate verifiers (name checks on the right operands, assertion only on the any()==true edge), vec! element dataflow of the name lists, SNI resolver on every path, SNI argument origin, who-may-write rustls config fields, stateful statics, exact stored-as-given dataflow of the name setters of both builders",
 "C15": "static analysis (custom MIR rules): who-may-call/construct framed codecs, value-origin dataflow of the limit, must-pass-through on the None edge against the dependency's default (read from its source), raw-IO who-may-call, call-graph confinement, who-may-write Config fields (immutable after build), serde attributes of the Config fields read from source (plain derived (de)serialisation), who-may-call on the codec's limit getter (no second size check)",
 "C16": "static analysis (custom MIR rules): path-event language of Router::call (exhaustive error variants), field-to-field dataflow of fallback/matcher through route_layer/merge, map-invariant dominance in route(), loop must-pass (every yielded entry of merge reaches route()), format! template decoding, panic inventory, type shape of the request-header conversion (total, no validation)",
 "C17": "static analysis (custom MIR rules): term reconstruction from format! templates and quote! token templates of the generator (client/server/name agreement), constants of the generated example code, path words of the rpc helpers, sibling header keys, panic inventory, path-event words of the Status/Response conversions, closed-world callees of the built-in rpc codecs and of the wire codec path",
 "C18": "static analysis (custom MIR rules): value-origin dataflow of the per-peer semaphore, wait-mode decision words, RAII liveness of the permit local across the awaited inner call, expected-zero who-may-call on permit leak APIs, shape rules one layer out (field-by-field Clone, poll_ready delegation, stored-as-given maximum, derived PeerId Eq/Hash, layer stacking of the generated add_layer_for_* methods), cancellation rules of the request task (re-evaluated)",
 "C19": "static analysis (custom MIR rules): value-origin dataflow of key and shared keyed limiter, wait-mode decision words (refusal never forwards), format!/header constant decoding, shape rules one layer out (field-by-field Clone, poll_ready delegation, derived PeerId Eq/Hash, layer stacking of the generated add_layer_for_* methods)",
 "C20": "static analysis (custom MIR rules): path-event language of RequireAuthorization::call and ResponseFuture::poll (exact word sets), decision table of AllowedPeers::authorize, who-may-write the allow-list, shape rules one layer out (field-by-field Clone, poll_ready delegation, derived PeerId Eq/Hash, layer stacking of the generated add_layer_for_* methods), must-pass-through of the sender attachment before dispatch",
}

NA_REASONS = {}
try:
    NA_REASONS = json.load(open(os.path.join(ROOT, "rules", "not_applicable.json")))
except Exception:
    pass
for p in props:
    pid = p["id"]
    path = os.path.join(ROOT, "rules", pid.lower() + ".py")
    if pid in NA_REASONS or not os.path.exists(path):
        na.append({"property_id": pid, "reason": NA_REASONS.get(pid, "static rules for this property are not implemented yet (work in progress); no claim is made")})
        continue
    m = importlib.import_module("rules." + pid.lower())
    expl = " ".join(m.EXPLANATION.split())
    checks.append({
        "property_id": pid,
        "quick_cmd": f"./check {pid} --tier quick",
        "thorough_cmd": f"./check {pid} --tier thorough",
        "evidence_file": f"evidence/{pid}.json",
        "replay_cmd_template": f"./check {pid} --replay {{path}}",
        "engine": "mirfacts+rules",
        "level_claimed": {
            "category": "other",
            "text": "Static analysis of the type-checked program (rustc MIR of all workspace crates, re-extracted from /repo's working tree on every run). "
                    "Decides, for all paths, named structural necessary conditions of the property — not the run-time behaviour itself. " + expl,
            "design_ref": f"DESIGN.md §4 {pid}",
        },
        "level_note": "Trusted: rustc type checker + MIR construction, the extractor, the rule engine, and the semantics of third-party functions named in rule slots ("
                      + "; ".join(getattr(m, "TRUSTED", [])) + "). Not decided (never replaced by a run-time test): " + "; ".join(getattr(m, "NOT_DECIDED", [])) + ".",
        "technique": TECH.get(pid, "static analysis: custom MIR rules over a rustc_private fact extractor"),
    })
man = {
    "version": 1,
    "setup_cmd": "./setup.sh",
    "hooks": {
        "guard": "bmwill_anemo_verif",
        "enable": "none needed: static analysis reads the unmodified sources; no hook is compiled in (guard name reserved only)",
        "baseline_off_cmd": "cd /repo && cargo nextest run --workspace --no-fail-fast --test-threads 8 --offline || (cd /repo && cargo test --workspace --no-fail-fast --offline)",
        "source_commits": [],
        "add_only": True,
    },
    "engines": [
        {"name": "mirfacts", "path": "driver/", "serves_properties": [c["property_id"] for c in checks],
         "kind_free_text": "rustc_private driver (RUSTC_WORKSPACE_WRAPPER under cargo +nightly check): captures mir_built of every body of the five workspace crates, resolved callees, constants, ADT shapes, impls -> JSON facts"},
        {"name": "rules", "path": "rules/", "serves_properties": [c["property_id"] for c in checks],
         "kind_free_text": "python3 rule engine over the facts: CFG/dominators, origin terms (backward def-use), projected path words, decision tables, who-may-call/write; one module per property; fail-closed anchors with counted floors"},
    ],
    "checks": checks,
    "not_applicable": na,
    "notes": "All checks are static (level 'other'): they decide shape facts of the code for all paths and report a named construct on violation. known_findings.json lists triaged genuine defects (see DESIGN.md §5).",
}
json.dump(man, open(os.path.join(ROOT, "MANIFEST.json"), "w"), indent=1)
print("checks:", [c["property_id"] for c in checks], "na:", [n["property_id"] for n in na])
