#!/bin/sh
# tools/mkpatch.sh <mutants|neutral> <name>  -- capture current /repo diff as a selftest patch, then revert /repo
set -e
kind=$1; name=$2
git -C /repo diff > /verif/selftest/$kind/$name.patch
test -s /verif/selftest/$kind/$name.patch || { echo "empty diff"; exit 1; }
git -C /repo checkout -- .
echo "saved selftest/$kind/$name.patch"
