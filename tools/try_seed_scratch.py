#!/usr/bin/env python3
"""tools/try_seed_scratch.py <patch> [worker] : like try_seed.sh but on a scratch copy (never touches /repo's working tree)."""
import os, shutil, subprocess, sys
ROOT = os.path.dirname(os.path.dirname(os.path.abspath(__file__)))
sys.path.insert(0, ROOT)
from rules import facts, selftest
from rules.engine import run_property
patch = os.path.abspath(sys.argv[1]); worker = sys.argv[2] if len(sys.argv) > 2 else "x"
scratch = selftest.make_scratch(facts.REPO)
try:
    r = subprocess.run(["git", "apply", "--whitespace=nowarn", patch], cwd=scratch, stdout=subprocess.PIPE, stderr=subprocess.STDOUT, text=True)
    if r.returncode:
        print("patch does not apply:", r.stdout); sys.exit(2)
    fired = []
    for p in (os.environ.get("PROPS", "").split() or ["C%02d" % i for i in range(1, 21)]):
        try:
            violations, known, ev, obs = run_property(p, "quick", configs=["dev"], repo=scratch, target=f"target-st{worker}")
        except Exception as e:
            print(p, "ERROR", repr(e)[:300]); continue
        if violations:
            fired.append((p, violations))
    print("FIRED:", " ".join(p for p, _ in fired))
    for p, vs in fired:
        for v in vs[:2]:
            print("  ", p, v.key, "|", str(v.msg)[:230].replace("\n", " "))
finally:
    shutil.rmtree(scratch, ignore_errors=True)
